"""C19 - string and regex functions agree with their reference model.

Real code run symbolically: every function registered by yaql.standard_library.strings.register and
regex.register (enumerated from the live registry), reached by full dispatch (`yq.outcome` on a parsed statement with the
symbolic values bound as $variables); the regex wrappers additionally with stub pattern/match objects (payloads
called directly) and with concrete patterns x symbolic subjects through the real `re`.
"""
from typing import List, Optional, Union

from vf import h as H
from vf import yq
from props import c19_models as M
from props import c19_rx as RX

ID = 'C19'
KNOWN = set(H.P('known', ()))
SLEN = H.P('slen', 3)
KEY = H.P('fn', 'strings.substring')
Scalar = Union[None, bool, int, float, str]

K_HEX = 'C19/hex-non-integer'
K_CHARS = 'C19/characters-py2-attributes'
K_NAMED = 'C19/publish-match-named-groups'

FUNCTIONS_ENCODED = [
    'yaql.standard_library.strings: every registered function (by dispatch)',
    'yaql.standard_library.regex: every registered function (by dispatch with real re; payloads on stub pattern/match)',
    'yaql.standard_library.regex._publish_match',
    'yaql.language.runner.call/choose_overload, specs.FunctionDefinition.map_args/get_delegate, yaqltypes checks',
]
BOUNDS = {
    'quick': 'receiver strings len <= 2 over an unrestricted alphabet, start in [-len, len+1], length in [-1, len+1], counts in '
             '[-1, 2], other strings len <= 2 (len <= 1 in the 4-argument indexOf/lastIndexOf), lists len <= 2 of strings len <= 1, '
             'replacement mappings of <= 2 entries; stub match objects with <= 2 numbered groups of which each may be named / not participating; '
             'concrete pattern family (numbered, named, optional groups) x symbolic subject len <= 3',
    'thorough': 'receiver strings len <= 3 (len <= 4 for the comparison, concatenation, trim, norm, isEmpty, startsWith/endsWith, '
                'repetition, len, toCharArray functions), start in [-len, len+2], length in [-2, len+2], counts in [-1, 3], '
                'lists len <= 3 of strings len <= 2; two-entry replacement mappings keep the quick bounds; regex subjects len <= 4'}
OUTSIDE = ['patterns as symbolic values (Python re is the trusted oracle, patterns come from a fixed concrete family)',
           'Unicode case mapping beyond what str.upper/str.lower do (they are the oracle)',
           'empty separator for split (ValueError of the builtin) and empty `old` for replace: undocumented',
           'start < -len (undocumented wrap-around)', 'float arguments of str()',
           'keyword-argument spellings of the same calls (C12)']
ASSUMPTIONS = ['reference models are written from the doc-strings with explicit index loops; they are validated against '
               'the doc-string examples and CPython str methods on a concrete grid at start-up',
               'stub re.Pattern/re.Match objects: group/groups/groupdict/start/end symbolic but mutually consistent '
               '(a named group is an alias of a numbered group; a group that did not participate is None/-1/-1)',
               'CrossHair models of str methods / re on symbolic strings; every counterexample is replayed on CPython']
EXPLANATION = ('Bounded symbolic execution (CrossHair+z3) of the real dispatch of every registered strings/regex function '
               'with symbolic strings and integers, compared per path with an independent reference model; the regex '
               'wrappers are also run against stub pattern/match objects with symbolic, mutually consistent groups, and '
               'against the real re for a concrete pattern family with symbolic subjects. The condition list is '
               'generated from the live registry, so an unmodelled or re-parameterised function is an undischarged obligation.')
TECHNIQUE = 'bounded symbolic execution (CrossHair+z3) of real dispatch vs reference model; stubs for re objects; replay on CPython'


# ---------------------------------------------------------------------------------------------------------------
# specification table: key = '<module>.<payload name>@<registered name>'
#   params : parameter names of the payload as registered (a change is reported as an uncovered obligation)
#   h      : harness function;  cases: list of (yaql text, model-callable over the harness arguments)

def _ok(v):
    return ('ok', v)


SPECS = {
    'strings.gt@#operator_>': dict(light=True, h='h_ss', params='left right', cases=[('$s > $t', lambda s, t: _ok(M.m_cmp(s, t) > 0))]),
    'strings.lt@#operator_<': dict(light=True, h='h_ss', params='left right', cases=[('$s < $t', lambda s, t: _ok(M.m_cmp(s, t) < 0))]),
    'strings.gte@#operator_>=': dict(light=True, h='h_ss', params='left right', cases=[('$s >= $t', lambda s, t: _ok(M.m_cmp(s, t) >= 0))]),
    'strings.lte@#operator_<=': dict(light=True, h='h_ss', params='left right', cases=[('$s <= $t', lambda s, t: _ok(M.m_cmp(s, t) <= 0))]),
    'strings.in_@#operator_in': dict(light=True, h='h_ss', params='left right',
                                     cases=[('$s in $t', lambda s, t: _ok(M.m_first(t, s, 0, len(t)) >= 0))]),
    'strings.concat@concat': dict(light=True, h='h_sss', params='args', cases=[
        ('concat($s, $t, $u)', lambda s, t, u: _ok(M.m_join('', [s, t, u]))),
        ('concat($s, $t)', lambda s, t, u: _ok(M.m_join('', [s, t]))),
        ('concat($u)', lambda s, t, u: _ok(u))]),
    'strings.concat@#operator_+': dict(light=True, h='h_ss', params='args', cases=[('$s + $t', lambda s, t: _ok(M.m_join('', [s, t])))]),
    'strings.to_upper@toUpper': dict(h='h_s', params='string', cases=[('$s.toUpper()', lambda s: _ok(M.m_upper(s)))]),
    'strings.to_lower@toLower': dict(h='h_s', params='string', cases=[('$s.toLower()', lambda s: _ok(M.m_lower(s)))]),
    'strings.len_@len': dict(light=True, h='h_s', params='string', cases=[('$s.len()', lambda s: _ok(M.m_len(s))),
                                                              ('len($s)', lambda s: _ok(M.m_len(s)))]),
    'strings.to_char_array@toCharArray': dict(light=True, h='h_s', params='string',
                                               cases=[('$s.toCharArray()', lambda s: _ok([c for c in s]))]),
    'strings.split@split': dict(h='h_son', params='string separator max_splits', cases=[
        ('$s.split($o, $n)', lambda s, o, n: _ok(M.m_split(s, o, n))),
        ('$s.split($o)', lambda s, o, n: _ok(M.m_split(s, o, -1)))]),
    'strings.right_split@rightSplit': dict(h='h_son', params='string separator max_splits', cases=[
        ('$s.rightSplit($o, $n)', lambda s, o, n: _ok(M.m_rsplit(s, o, n))),
        ('$s.rightSplit($o)', lambda s, o, n: _ok(M.m_rsplit(s, o, -1)))]),
    'strings.join@join': dict(h='h_ls', params='sequence separator str_delegate',
                              cases=[('$l.join($s)', lambda l, s: _ok(M.m_join(s, l)))]),
    'strings.join_@join': dict(h='h_ls', params='separator sequence str_delegate',
                               cases=[('$s.join($l)', lambda l, s: _ok(M.m_join(s, l)))]),
    'strings.str_@str': dict(h='h_v', params='value', kinds='nbis', cases=[('str($v)', lambda v: _ok(M.m_str(v)))]),
    'strings.trim@trim': dict(light=True, h='h_so', params='string chars', cases=[
        ('$s.trim($o)', lambda s, o: _ok(M.m_trim(s, o, True, True))),
        ('$s.trim()', lambda s, o: _ok(M.m_trim(s, None, True, True)))]),
    'strings.trim_left@trimLeft': dict(light=True, h='h_so', params='string chars', cases=[
        ('$s.trimLeft($o)', lambda s, o: _ok(M.m_trim(s, o, True, False))),
        ('$s.trimLeft()', lambda s, o: _ok(M.m_trim(s, None, True, False)))]),
    'strings.trim_right@trimRight': dict(light=True, h='h_so', params='string chars', cases=[
        ('$s.trimRight($o)', lambda s, o: _ok(M.m_trim(s, o, False, True))),
        ('$s.trimRight()', lambda s, o: _ok(M.m_trim(s, None, False, True)))]),
    'strings.norm@norm': dict(light=True, h='h_oo', params='string chars', cases=[
        ('$p.norm($o)', lambda p, o: _ok(M.m_norm(p, o))),
        ('$p.norm()', lambda p, o: _ok(M.m_norm(p, None)))]),
    'strings.is_empty@isEmpty': dict(light=True, h='h_obo', params='string trim_spaces chars', cases=[
        ('$p.isEmpty($b, $o)', lambda p, b, o: _ok(M.m_is_empty(p, b, o))),
        ('$p.isEmpty()', lambda p, b, o: _ok(M.m_is_empty(p, True, None)))]),
    'strings.replace@replace': dict(h='h_sssn', params='string old new count', cases=[
        ('$s.replace($t, $u, $n)', lambda s, t, u, n: _ok(M.m_replace(s, t, u, n))),
        ('$s.replace($t, $u)', lambda s, t, u, n: _ok(M.m_replace(s, t, u, -1)))]),
    'strings.replace_with_dict@replace': dict(h='h_dict', params='string str_func replacements count', conds='dict', cases=[
        ('$s.replace($d, $n)', lambda s, pairs, n: _ok(M.m_replace_pairs(s, pairs, n))),
        ('$s.replace($d)', lambda s, pairs, n: _ok(M.m_replace_pairs(s, pairs, -1)))]),
    'strings.string_by_int@#operator_*': dict(light=True, h='h_sn', params='left right engine',
                                              cases=[('$s * $n', lambda s, n: _ok(M.m_repeat(s, n)))]),
    'strings.int_by_string@#operator_*': dict(light=True, h='h_sn', params='left right engine',
                                              cases=[('$n * $s', lambda s, n: _ok(M.m_repeat(s, n)))]),
    'strings.substring@substring': dict(h='h_sij', params='string start length', cases=[
        ('$s.substring($i, $j)', lambda s, i, j: _ok(M.m_substring(s, i, j))),
        ('$s.substring($i)', lambda s, i, j: _ok(M.m_substring(s, i, -1)))]),
    'strings.index_of@indexOf': dict(h='h_ssi', params='string sub start', cases=[
        ('$s.indexOf($t, $i)', lambda s, t, i: _ok(M.m_index(s, t, i, None, False))),
        ('$s.indexOf($t)', lambda s, t, i: _ok(M.m_index(s, t, 0, None, False)))]),
    'strings.index_of_@indexOf': dict(h='h_ssij', params='string sub start length', cases=[
        ('$s.indexOf($t, $i, $j)', lambda s, t, i, j: _ok(M.m_index(s, t, i, j, False)))]),
    'strings.last_index_of@lastIndexOf': dict(h='h_ssi', params='string sub start', cases=[
        ('$s.lastIndexOf($t, $i)', lambda s, t, i: _ok(M.m_index(s, t, i, None, True))),
        ('$s.lastIndexOf($t)', lambda s, t, i: _ok(M.m_index(s, t, 0, None, True)))]),
    'strings.last_index_of_@lastIndexOf': dict(h='h_ssij', params='string sub start length', cases=[
        ('$s.lastIndexOf($t, $i, $j)', lambda s, t, i, j: _ok(M.m_index(s, t, i, j, True)))]),
    'strings.characters@characters': dict(h='h_chars', params=' '.join(M.CHAR_FLAGS), cases=[]),
    'strings.is_string@isString': dict(h='h_v', params='arg', kinds='nbifs',
                                       cases=[('isString($v)', lambda v: _ok(isinstance(v, str)))]),
    'strings.starts_with@startsWith': dict(light=True, h='h_sss', params='string prefixes', cases=[
        ('$s.startsWith($t, $u)', lambda s, t, u: _ok(M.m_starts(s, t) or M.m_starts(s, u))),
        ('$s.startsWith($t)', lambda s, t, u: _ok(M.m_starts(s, t))),
        ('$s.startsWith()', lambda s, t, u: _ok(False))]),
    'strings.ends_with@endsWith': dict(light=True, h='h_sss', params='string suffixes', cases=[
        ('$s.endsWith($t, $u)', lambda s, t, u: _ok(M.m_ends(s, t) or M.m_ends(s, u))),
        ('$s.endsWith($t)', lambda s, t, u: _ok(M.m_ends(s, t))),
        ('$s.endsWith()', lambda s, t, u: _ok(False))]),
    'strings.hex_@hex': dict(h='h_hex', params='num', cases=[]),
}
SPECS.update(RX.SPECS)
SPEC = SPECS.get(KEY, {})
CASES = SPEC.get('cases', [])[H.P('case', 0):H.P('case', 0) + 1]


def agree(got, exp):
    if got[0] != exp[0]:
        return False
    if got[0] != 'ok':
        return got == exp
    a, b = got[1], exp[1]
    if isinstance(b, list):
        return isinstance(a, list) and len(a) == len(b) and all(isinstance(x, str) and x == y for x, y in zip(a, b))
    return yq.same(a, b)


def run_cases(**kw):
    ok = True
    for text, model in CASES:
        names = [n for n in kw if ('$' + n) in text]
        got = yq.outcome(text, **{n: kw[n] for n in names})
        exp = model(*kw.values())
        ok = ok and agree(got, exp)
    return ok


def small(v, n):
    return v is None or not isinstance(v, str) or len(v) <= n


XR = H.P('xr', 2)          # property ranges: start in [-len, len+2], length in [-2, len+2]; quick uses 1 instead of 2
CMAX = H.P('cmax', 3)      # counts in [-1, 3]
LLEN = H.P('llen', 3)
ELEN = H.P('elen', 2)
IMAX = H.P('imax', 300)


def start_ok(s, i):
    return -len(s) <= i <= len(s) + XR


def length_ok(s, j):
    return -XR <= j <= len(s) + XR


def count_ok(n):
    return -1 <= n <= CMAX


# ---------------------------------------------------------------------------------------------------------------
# harness shapes

def h_s(s: str) -> bool:
    """
    pre: len(s) <= SLEN
    pre: H.fresh(s)
    post: _
    """
    return H.done(run_cases(s=s))


def h_ss(s: str, t: str) -> bool:
    """
    pre: len(s) <= SLEN and len(t) <= SLEN
    pre: H.fresh(s, t)
    post: _
    """
    return H.done(run_cases(s=s, t=t))


def h_sss(s: str, t: str, u: str) -> bool:
    """
    pre: len(s) <= SLEN and len(t) <= 2 and len(u) <= 2
    pre: H.fresh(s, t, u)
    post: _
    """
    return H.done(run_cases(s=s, t=t, u=u))


def h_so(s: str, o: Optional[str]) -> bool:
    """
    pre: len(s) <= SLEN and small(o, 2)
    pre: H.fresh(s, o)
    post: _
    """
    return H.done(run_cases(s=s, o=o))


def h_oo(p: Optional[str], o: Optional[str]) -> bool:
    """
    pre: small(p, SLEN) and small(o, 2)
    pre: H.fresh(p, o)
    post: _
    """
    return H.done(run_cases(p=p, o=o))


def h_obo(p: Optional[str], b: bool, o: Optional[str]) -> bool:
    """
    pre: small(p, SLEN) and small(o, 2)
    pre: H.fresh(p, b, o)
    post: _
    """
    return H.done(run_cases(p=p, b=b, o=o))


def h_son(s: str, o: Optional[str], n: int) -> bool:
    """
    pre: len(s) <= SLEN and small(o, 2) and count_ok(n)
    pre: o is None or len(o) > 0
    pre: H.fresh(s, o, n)
    post: _
    """
    return H.done(run_cases(s=s, o=o, n=n))


def h_ls(l: List[str], s: str) -> bool:
    """
    pre: len(l) <= LLEN and all(len(x) <= ELEN for x in l) and len(s) <= 2
    pre: H.fresh(l, s)
    post: _
    """
    return H.done(run_cases(l=l, s=s))


def kind_ok(v, kinds):
    if v is None:
        return 'n' in kinds
    if isinstance(v, bool):
        return 'b' in kinds
    if isinstance(v, int):
        return 'i' in kinds
    if isinstance(v, float):
        return 'f' in kinds
    return 's' in kinds


def h_v(v: Scalar) -> bool:
    """
    pre: kind_ok(v, SPEC.get('kinds', 'nbifs')) and small(v, SLEN)
    pre: not (isinstance(v, int) and not isinstance(v, bool)) or -1000 <= v <= 1000
    pre: H.fresh(v)
    post: _
    """
    return H.done(run_cases(v=v))


def h_sn(s: str, n: int) -> bool:
    """
    pre: len(s) <= SLEN and count_ok(n)
    pre: H.fresh(s, n)
    post: _
    """
    return H.done(run_cases(s=s, n=n))


def h_sssn(s: str, t: str, u: str, n: int) -> bool:
    """
    pre: len(s) <= SLEN and 0 < len(t) <= 2 and len(u) <= 2 and count_ok(n)
    pre: H.fresh(s, t, u, n)
    post: _
    """
    return H.done(run_cases(s=s, t=t, u=u, n=n))


def h_sij(s: str, i: int, j: int) -> bool:
    """
    pre: len(s) <= SLEN and start_ok(s, i) and length_ok(s, j)
    pre: H.fresh(s, i, j)
    post: _
    """
    return H.done(run_cases(s=s, i=i, j=j))


def h_ssi(s: str, t: str, i: int) -> bool:
    """
    pre: len(s) <= SLEN and len(t) <= 2 and start_ok(s, i)
    pre: H.fresh(s, t, i)
    post: _
    """
    return H.done(run_cases(s=s, t=t, i=i))


def h_ssij(s: str, t: str, i: int, j: int) -> bool:
    """
    pre: len(s) <= SLEN and len(t) <= H.P('tlen', 2) and start_ok(s, i) and length_ok(s, j)
    pre: H.fresh(s, t, i, j)
    post: _
    """
    return H.done(run_cases(s=s, t=t, i=i, j=j))


def h_dict(s: str, k1: str, v1: str, k2: str, v2: str, n: int) -> bool:
    """
    pre: len(s) <= SLEN and 0 < len(k1) <= 2 and 0 < len(k2) <= H.P('k2len', 2) and len(v1) <= ELEN and len(v2) <= ELEN and count_ok(n)
    pre: k1 != k2
    pre: H.fresh(s, k1, v1, k2, v2, n)
    post: _
    """
    two = H.P('two', False)
    pairs = [(k1, v1), (k2, v2)] if two else [(k1, v1)]
    ok = True
    for text, model in CASES:
        kw = {'s': s, 'd': M.PairMapping(pairs)}
        if '$n' in text:
            kw['n'] = n
        ok = ok and agree(yq.outcome(text, **kw), model(s, pairs, n))
    return H.done(ok)


def h_dict_literal(s: str, n: int) -> bool:
    """
    pre: len(s) <= SLEN and count_ok(n)
    post: _
    """
    # a YAQL dict literal with overlapping keys, both orders (the doc-string example): dictionary order is applied
    ok = agree(yq.outcome('$s.replace({ab => y, a => xx}, $n)', s=s, n=n), _ok(M.m_replace_pairs(s, [('ab', 'y'), ('a', 'xx')], n)))
    ok = ok and agree(yq.outcome('$s.replace({a => xx, ab => y}, $n)', s=s, n=n),
                      _ok(M.m_replace_pairs(s, [('a', 'xx'), ('ab', 'y')], n)))
    return H.done(ok)


NF = len(M.CHAR_FLAGS)


def chars_class(flags):
    return any(f for name, f in zip(M.CHAR_FLAGS, flags) if name in ('letters', 'lowercase', 'uppercase'))


CHARS_EXPR = 'characters(' + ', '.join('%s => $f%d' % (M.camel(n), i) for i, n in enumerate(M.CHAR_FLAGS)) + ')'


def chars_check(flags):
    got = yq.outcome(CHARS_EXPR, **{'f%d' % i: f for i, f in enumerate(flags)})
    exp = M.m_characters(flags)
    return (got[0] == 'ok' and isinstance(got[1], list) and len(got[1]) == len(exp)
            and all(isinstance(c, str) for c in got[1]) and set(got[1]) == exp)


def flags_of(i, j):
    return [k == i or k == j for k in range(len(M.CHAR_FLAGS))]


def h_chars(i: int, j: int) -> bool:
    """
    pre: 0 <= i <= NF and 0 <= j <= NF
    pre: j == NF or j == 0 or j == i + 1 or H.P('allpairs', False)
    pre: K_CHARS not in KNOWN or not chars_class(flags_of(i, j))
    post: _
    """
    # flags i and j are true (NF = none): every flag alone, every flag with `digits`, every flag with its neighbour
    return H.done(chars_check(flags_of(i, j)))


def probe_chars(i: int) -> bool:
    """
    pre: 0 <= i < NF
    pre: chars_class(flags_of(i, NF))
    post: _
    """
    return H.done(chars_check(flags_of(i, NF)))


def hex_class(v):
    return v is None or isinstance(v, float)


def hex_check(v):
    got = yq.outcome('hex($v)', v=v)
    if isinstance(v, bool) or isinstance(v, str):
        return got == ('nomatch',)
    if isinstance(v, int):
        return got[0] == 'ok' and isinstance(got[1], str) and got[1] == M.m_hex(v)
    # null / float: admitted by the declared type "number, nullable": a string or a clean "no matching function",
    # never a raw Python exception
    return got[0] in ('ok', 'nomatch')


def h_hex(v: Scalar) -> bool:
    """
    pre: small(v, 1)
    pre: not (isinstance(v, int) and not isinstance(v, bool)) or -IMAX <= v <= IMAX
    pre: K_HEX not in KNOWN or not hex_class(v)
    pre: H.fresh(v)
    post: _
    """
    return H.done(hex_check(v))


def probe_hex(v: Optional[float]) -> bool:
    """
    post: _
    """
    return H.done(hex_check(v))


# laws without a model -------------------------------------------------------------------------------------------

def law_split_join(s: str, t: str) -> bool:
    """
    pre: len(s) <= SLEN and 0 < len(t) <= 2
    post: _
    """
    # split and join are inverse for non-empty separators
    return H.done(yq.outcome('$s.split($t).join($t)', s=s, t=t) == ('ok', s)
                  and yq.outcome('$t.join($s.rightSplit($t))', s=s, t=t) == ('ok', s))


def law_join_split(l: List[str], t: str) -> bool:
    """
    pre: 0 < len(l) <= LLEN and all(len(x) <= 1 for x in l) and 0 < len(t) <= 2
    pre: all(t not in x for x in l)
    pre: len(t) == 1 or all(x != t[0] and x != t[1] for x in l)
    post: _
    """
    got = yq.outcome('$l.join($t).split($t)', l=l, t=t)
    return H.done(got[0] == 'ok' and got[1] == l)


def h_uncovered() -> bool:
    """
    pre: False
    post: _
    """
    return True


# regex harnesses live in c19_rx; re-exported here so that the worker finds them by name
for _n in RX.HARNESSES:
    globals()[_n] = getattr(RX, _n)


# ---------------------------------------------------------------------------------------------------------------

def registry():
    """live registry: [(key, params)] for everything strings.register / regex.register put into a context"""
    from yaql.language import contexts, conventions
    from yaql.standard_library import strings as s_mod, regex as r_mod
    out = []
    for mod in (s_mod, r_mod):
        c = contexts.Context(convention=conventions.CamelCaseConvention())
        mod.register(c)
        for name, fs in c._functions.items():
            for f in fs:
                params = ' '.join(p.name for p in sorted(f.parameters.values(), key=lambda p: (p.position, p.name))
                                 )
                out.append(('%s.%s@%s' % (mod.__name__.rsplit('.', 1)[-1], f.payload.__name__, name), params))
    return sorted(out)


# ---- match records are per match: a selector may hand out lazy values that read them later
LAZY_SUBJECTS = ['abcab', 'aab', 'ba', '', 'abab']
LAZY_EXPRS = [
    ("regex('(a+)(b*)').searchAll($s, [value, start, end].select($2.get($))).toList()",
     lambda m: [m.group(1), m.start(1), m.end(1)]),
    ("regex('(a+)(b*)').searchAll($s, [value, start, end].select($2.get($))).reverse().reverse()",
     lambda m: [m.group(1), m.start(1), m.end(1)]),
    ("regex('(?P<x>a+)(b*)').searchAll($s, [1, 2].select($x.start + $)).toList()",
     lambda m: [m.start('x') + 1, m.start('x') + 2]),
    ("regex('(a+)(b*)').searchAll($s, [1].select([$2.value, $3.value, $])).toList()",
     lambda m: [[m.group(1), m.group(2), 1]]),
]
LZBOX = [(i,) for i in range(8)]


def searchall_lazy(e: int, i: int) -> bool:
    """
    pre: 0 <= e < len(LAZY_EXPRS) and 0 <= i < len(LAZY_SUBJECTS)
    post: _
    """
    import re as _re
    text, model = LAZY_EXPRS[LZBOX[e][0]]
    subj = LAZY_SUBJECTS[LZBOX[i][0]]
    with H.NoTracing():
        pat = _re.compile(_re.search(r"regex\('(.*?)'\)", text).group(1))
        exp = [model(m) for m in pat.finditer(subj)]
        got = yq.outcome(text, s=subj)
        ok = got == ('ok', exp)
    return H.done(ok)


def conditions(tier, seed):
    quick = tier == 'quick'
    lazy_cond = {'name': 'searchAll: lazy selector results read their own match records', 'func': 'searchall_lazy', 'timeout': 100,
                 'bounds': '%d searchAll expressions whose selector returns a lazy sequence reading $1.., $name inside its own lambda, '
                           'consumed after all matches were produced; %d subjects; Python re is the oracle (selectors)' % (
                               len(LAZY_EXPRS), len(LAZY_SUBJECTS))}
    slen = 2 if quick else 3
    t = 300 if quick else 900
    xr, cmax = (1, 2) if quick else (2, 3)
    quick_p = {'xr': xr, 'cmax': cmax, 'llen': 2 if quick else 3, 'elen': 1 if quick else 2, 'imax': 20 if quick else 300,
               'tlen': 1 if quick else 2, 'k2len': 1 if quick else 2}
    out = []
    seen = set()
    for key, params in registry():
        spec = SPECS.get(key)
        seen.add(key)
        if spec is None or sorted(spec['params'].split()) != sorted(params.split()):
            why = 'no reference model' if spec is None else 'parameters changed: live (%s) vs modelled (%s)' % (params, spec['params'])
            out.append({'name': 'uncovered[%s]' % key, 'func': 'h_uncovered', 'timeout': 5, 'twin': False,
                        'bounds': 'registered function without a model in props/c19.py: %s' % why})
            continue
        if spec.get('conds') == 'dict':
            # two entries with symbolic keys and values are expensive: they keep the small bounds in both tiers
            small_p = dict(quick_p, llen=2, elen=1, tlen=1, k2len=1)
            for case, two in ((0, False), (1, True)) if quick else ((0, False), (1, False), (0, True), (1, True)):
                pp = small_p if two else quick_p
                sl = 2 if two else slen
                out.append({'name': '%s: %s [%d entr%s]' % (key, spec['cases'][case][0], 1 + two, 'ies' if two else 'y'),
                            'func': 'h_dict', 'timeout': 2 * t,
                            'param': dict(pp, fn=key, slen=sl, case=case, two=two),
                            'bounds': 'by dispatch; $d an ordered Mapping object of %d entr%s with symbolic keys (len 1..2%s, distinct, '
                                      'may overlap) and values (len <= %d), receiver len <= %d, count in [-1, %d]'
                                      % (1 + two, 'ies' if two else 'y', '; second key len 1' if pp['k2len'] == 1 else '',
                                         pp['elen'], sl, cmax)})
            continue
        if spec.get('conds'):
            for c in spec['conds']:
                out.append({'name': key + c.get('suffix', ''), 'func': c.get('h', spec['h']),
                            'timeout': c.get('timeout', t) if quick else 900,
                            'param': dict(quick_p, **dict(c.get('param') or {}, fn=key, slen=slen)),
                            'bounds': c.get('bounds') or spec.get('bounds')})
            continue
        cases = spec.get('cases') or [(None, None)]
        for k, (text, _) in enumerate(cases):
            sl = slen + (1 if (not quick and spec.get('light')) else 0)
            out.append({'name': key if text is None else '%s: %s' % (key, text), 'func': spec['h'], 'timeout': t,
                        'param': dict(quick_p, fn=key, slen=sl, case=k),
                        'bounds': spec.get('bounds') or
                        'by dispatch%s; symbolic arguments over an unrestricted alphabet, receiver len <= %d, other strings '
                        'len <= 2, start in [-len, len+%d], length in [-%d, len+%d], counts in [-1, %d]'
                        % ('' if text is None else ' of ' + text, sl, xr, xr, xr, cmax)})
    out.append({'name': 'replace-dict-literal', 'func': 'h_dict_literal', 'timeout': t,
                'param': dict(quick_p, fn='strings.replace_with_dict@replace', slen=slen),
                'bounds': 's len <= %d, count in [-1,3]; YAQL dict literals with overlapping keys in both orders' % slen})
    out.append({'name': 'law[split-join]', 'func': 'law_split_join', 'timeout': t, 'param': dict(quick_p, slen=slen),
                'bounds': 's len <= %d, separator len 1..2' % slen})
    out.append({'name': 'law[join-split]', 'func': 'law_join_split', 'timeout': t, 'param': dict(quick_p, slen=slen),
                'bounds': 'list len 1..3 of strings len <= 1 not containing the separator (len 1..2)'})
    out.extend(RX.extra_conditions(tier, KNOWN))
    if K_CHARS in KNOWN:
        out.append({'name': 'probe[characters-py2-attributes]', 'func': 'probe_chars', 'timeout': 60, 'kind': 'probe',
                    'param': {'probe_key': K_CHARS}, 'bounds': 'exactly one of letters/lowercase/uppercase'})
    if K_HEX in KNOWN:
        out.append({'name': 'probe[hex-non-integer]', 'func': 'probe_hex', 'timeout': 60, 'kind': 'probe',
                    'param': {'probe_key': K_HEX}, 'bounds': 'v: null or float'})
    out.append(lazy_cond)
    return out


def validate():
    return M.validate() + RX.validate()


def replay(cond, args):
    import props.c19 as me
    fn = getattr(me, cond['func'])
    vals = dict(args)
    key = (cond.get('param') or {}).get('fn', cond['func'])
    try:
        ok = fn(**vals)
    except Exception as e:
        return {'reproduced': True, 'key': 'C19/harness-exception/%s' % type(e).__name__,
                'what': '%s%r raised %r' % (cond['name'], vals, e)}
    if ok:
        return {'reproduced': False}
    if cond['func'] in ('h_hex', 'probe_hex'):
        v = vals.get('v')
        if hex_class(v):
            return {'reproduced': True, 'key': K_HEX,
                    'what': 'hex(%r): declared type admits it, result %r (expected a string or no-matching-function)'
                            % (v, yq.outcome('hex($v)', v=v))}
    if cond['func'] in ('h_chars', 'probe_chars'):
        flags = flags_of(vals.get('i'), vals.get('j', NF))
        if chars_class(flags):
            on = [M.camel(n) for n, f in zip(M.CHAR_FLAGS, flags) if f]
            return {'reproduced': True, 'key': K_CHARS,
                    'what': 'characters(%s) -> %r' % (', '.join('%s => true' % n for n in on),
                                                      yq.outcome(CHARS_EXPR, **{'f%d' % i: f for i, f in enumerate(flags)}))}
    r = RX.classify(cond, vals)
    if r:
        return r
    detail = []
    for text, model in CASES:
        try:
            names = [n for n in vals if ('$' + n) in text]
            detail.append('%s -> yaql %r, model %r' % (text, yq.outcome(text, **{n: vals[n] for n in names}),
                                                       model(*vals.values())))
        except Exception as e:
            detail.append('%s: %r' % (text, e))
    return {'reproduced': True, 'key': 'C19/%s' % key,
            'what': '%s with %r: %s' % (cond['name'], vals, '; '.join(detail)[:600])}
