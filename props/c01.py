"""C01 - a shared engine parses every text as if it were alone.

Technique: interference as havoc (rely/guarantee).  The real `YaqlEngine.__call__` (ply lexer + LR parser) parses a
pool text while, at a symbolic token-fetch index k (k = 0: before the call = arbitrary history, including failed
parses), every mutable field of the objects two parses of one engine share (the engine's ply Lexer: lexdata, lexpos,
lexlen, lineno; the engine's LRParser: statestack, symstack, errorok) is overwritten with fresh symbolic values
constrained only to what another parse could have left there.  The parse must still return what a fresh engine
returns.  A pass covers every history and every interleaving with any number of other parses at token-fetch
granularity; a counterexample is turned into a real two-thread schedule (hand-off scheduler at Lexer.token entry).
"""
import threading

from ply import lex

import yaql
from yaql.language import exceptions, expressions
from yaql import legacy as yaql_legacy

from vf import h as H

ID = 'C01'
KNOWN = set(H.P('known', ()))
FUNCTIONS_ENCODED = ['yaql.language.factory.YaqlEngine.__call__', 'ply.lex.Lexer.token/input/clone',
                     'ply.yacc.LRParser.parse (parseopt_notrack)', 'yaql.language.lexer.Lexer token actions',
                     'yaql.language.parser.Parser rule actions and p_error', 'yaql.eval (module-level caches)']
BOUNDS = {'quick': 'pool of 18 texts (every token kind, every grammar rule family, lexical and grammar errors, empty text); '
                   'one interference point k in [0,8]; interfering lexer state: lexdata symbolic str len<=3, lexpos in '
                   '[0,len+1], lineno arbitrary; parser stacks replaced; default engine',
          'thorough': 'pool of 22 texts; default, legacy and customised-operator engines; two interference points'}
OUTSIDE = ['thread switches inside one Lexer.token call or inside LRParser.parse between fetches (the property fixes '
           'token-fetch granularity)', 'free-running threads under a microsecond switch interval (no solver formulation)',
           'texts outside the pool: interference is symbolic, the parsed text is not (CrossHair cannot run ply on symbolic text)']
ASSUMPTIONS = ['other parses write only the fields listed (ply Lexer: lexdata/lexpos/lexlen/lineno/lexmatch; LRParser: '
               'statestack/symstack/errorok/token/state): obtained by reading ply 3.11 lex.py/yacc.py',
               'havoc values over-approximate what another parse can leave (any str of len<=3, any position)']
EXPLANATION = ('Rely/guarantee by havoc: the engine-wide lexer and parser objects are overwritten with symbolic values at a '
               'symbolic token fetch; CrossHair+z3 must prove the tree/error equals the fresh-engine outcome on every path. '
               'Counterexamples are replayed as real two-thread schedules with a hand-off scheduler.')
TECHNIQUE = 'bounded symbolic execution (CrossHair+z3) with symbolic interference (havoc) at token-fetch points; replay with real threads under a hand-off scheduler'

POOL_Q = ['1 + 2 * 3', '$.a.b(1, x => 2)', '[1, 2][0]', '{a => b}', 'not true and $x', "'a\\n' + \"b\"", '`v` in $',
          'f(, 1)', '$x?.y -> 1.5 mod -2', 'a +', "'x' )", '', 'a # b', '[1,', "'a b'", "'a  b'", '`a\tb` + `a b`', '$.a = 1 and $b != 2']
POOL_T = POOL_Q + ['$a >= +3 or null', 'a.b.c', 'f(x => 1)(2)', '1 ~ 2', '(1', '$ =~ x !~ y', '{a => 1, b => [2]}.a', 'x[1][2]{3}']
ENGINE_KIND = H.P('engine', 'default')


def make_engine(kind):
    if kind == 'default':
        return yaql.YaqlFactory().create()
    if kind == 'legacy':
        return yaql_legacy.YaqlFactory().create()
    if kind == 'custom':
        f = yaql.YaqlFactory()
        f.insert_operator('+', True, '**', yaql.language.factory.OperatorType.BINARY_RIGHT_ASSOCIATIVE, True)
        return f.create()
    raise ValueError(kind)


def dump(e):
    if isinstance(e, expressions.Statement):
        return dump(e.expression)
    if isinstance(e, expressions.Function):
        return (type(e).__name__, e.name) + tuple(dump(a) for a in e.args)
    if isinstance(e, expressions.Constant):
        return (type(e).__name__, repr(e.value))
    if isinstance(e, expressions.Wrap):
        return ('Wrap', dump(e.expr))
    if isinstance(e, expressions.MappingRuleExpression):
        return ('Map', dump(e.source), dump(e.destination))
    return repr(e)


VIA = H.P('via', 'plain')
STMT_OPTIONS = {'yaql.limitIterators': 1000}


def parse(engine, text):
    """the three public routes from a text to a statement on one engine"""
    if VIA == 'options':
        return engine(text, options=dict(STMT_OPTIONS))
    if VIA == 'copy':
        return engine.copy(dict(STMT_OPTIONS))(text)
    return engine(text)


def outcome(engine, text):
    try:
        return ('ok', dump(parse(engine, text)))
    except exceptions.YaqlParsingException as e:
        return ('err', type(e).__name__, repr(getattr(e, 'value', None)), getattr(e, 'position', None), str(e))


POOL = POOL_T if H.P('pool') == 't' else POOL_Q
if not H.P('driver'):
    FRESH = [outcome(make_engine(ENGINE_KIND), t) for t in POOL]      # one brand-new engine per text
    FRESH_BY_TEXT = dict(zip(POOL, FRESH))
    ENG = make_engine(ENGINE_KIND)
_orig_token = lex.Lexer.token
POSBOX = [(p,) for p in range(6)]
D1 = H.P('domain', 'D2') == 'D1'


def engine_lexer_ids(engine):
    """ids of every ply Lexer reachable from the engine object through its attributes (two container levels)"""
    out = set()

    def visit(v, depth):
        if isinstance(v, lex.Lexer):
            out.add(id(v))
        elif depth > 0 and isinstance(v, (list, tuple, set, frozenset)):
            for x in v:
                visit(x, depth - 1)
        elif depth > 0 and isinstance(v, dict):
            for x in list(v.values()) + list(v.keys()):
                visit(x, depth - 1)
        elif depth > 0 and hasattr(v, '__dict__') and type(v).__module__.split('.')[0] in ('yaql', 'collections', 'queue'):
            for x in vars(v).values():
                visit(x, depth - 1)
    for v in vars(engine).values():
        visit(v, 3)
    return out


def isolated(i: int, k: int, lexdata: str, lexpos: int, lineno: int, k2: int, stacks: bool) -> bool:
    """
    pre: H.P('ilo', 0) <= i < min(len(POOL), H.P('ihi', 99)) and 0 <= k <= 8 and len(lexdata) <= 3 and 0 <= lexpos <= len(lexdata) + 1
    pre: (not D1) or lexpos == 0
    pre: k2 == -1 or (H.P('two') and k < k2 <= 9)
    pre: H.fresh(i, k, lexdata, lexpos, lineno, k2, stacks)
    post: _
    """
    count = [0]
    shared_lexer, shared_parser = ENG.lexer, ENG.parser
    text = POOL[i]
    lexpos = POSBOX[lexpos][0]      # realised (CrossHair's regex model cannot start a match at a symbolic offset)

    def havoc(in_use=None):
        targets = [shared_lexer]
        with H.NoTracing():
            # the lexer this parse is using is interfered with as well whenever another parse could obtain the same
            # object, i.e. whenever it is reachable from the engine's own state (master lexer, pools, caches ...)
            if in_use is not None and in_use is not shared_lexer and id(in_use) in engine_lexer_ids(ENG):
                targets.append(in_use)
        for lx in targets:
            lx.lexdata = lexdata
            lx.lexpos = lexpos
            lx.lexlen = len(lexdata)
            lx.lineno = lineno
        if stacks:
            shared_parser.statestack = [0, 7]
            shared_parser.symstack = ['$end', 'x']
            shared_parser.errorok = True

    def token(self):
        if count[0] == k or count[0] == k2:
            havoc(self)
        count[0] += 1
        return _orig_token(self)

    with H.NoTracing():
        shared_lexer.lexdata, shared_lexer.lexpos, shared_lexer.lexlen, shared_lexer.lineno = '', 0, 0, 1
    lex.Lexer.token = token
    try:
        if k == 0:
            havoc()
        got = outcome(ENG, text)
    finally:
        lex.Lexer.token = _orig_token
        with H.NoTracing():
            shared_lexer.lexdata, shared_lexer.lexpos, shared_lexer.lexlen, shared_lexer.lineno = '', 0, 0, 1
            shared_parser.statestack, shared_parser.symstack = [], []
    return H.done(got == FRESH[i])


# ---------------------------------------------------------------- generic rely/guarantee: discover what a parse writes
def _fp(v, depth=3):
    if isinstance(v, (int, float, str, bytes, bool, type(None))):
        return repr(v)
    if depth <= 0:
        return type(v).__name__
    if isinstance(v, (list, tuple)):
        return (type(v).__name__, tuple(_fp(x, depth - 1) for x in v[:50]), len(v))
    if isinstance(v, dict):
        return ('dict', tuple(sorted((repr(k)[:40], _fp(x, depth - 1)) for k, x in list(v.items())[:200])), len(v))
    if isinstance(v, (set, frozenset)):
        return ('set', len(v))
    if callable(v) and hasattr(v, '__qualname__'):
        return ('fn', v.__qualname__)
    d = getattr(v, '__dict__', None)
    if d is not None and type(v).__module__.split('.')[0] in ('yaql', 'ply'):
        return (type(v).__qualname__, tuple(sorted((k, _fp(x, depth - 1)) for k, x in d.items())))
    return type(v).__qualname__


def shared_roots(engine):
    import yaql.language.lexer as ylexer, yaql.language.parser as yparser, yaql.language.factory as yfactory
    roots = {'engine': engine, 'engine.lexer': engine.lexer, 'engine.parser': engine.parser, 'engine.factory': engine.factory}
    for p in engine.parser.productions:
        owner = getattr(getattr(p, 'callable', None), '__self__', None)
        if owner is not None:
            roots['parser-rules'] = owner
            break
    for fn, _ in [x for x in (engine.lexer.lexstatere.get('INITIAL') or [])[0][1] if x] if engine.lexer.lexstatere else []:
        owner = getattr(fn, '__self__', None)
        if owner is not None:
            roots['lexer-rules'] = owner
            break
    out = {k: vars(v) for k, v in roots.items() if hasattr(v, '__dict__')}
    for m in (ylexer, yparser, yfactory, yaql):
        out['module ' + m.__name__] = m.__dict__
    return out


def discover_writes(engine, texts):
    """-> {(root, attr): [values observed after a parse]} for every attribute of a shared object whose fingerprint a
    parse changes (the guarantee set G of a parse)"""
    import copy
    G = {}
    roots = shared_roots(engine)
    for t in texts:
        before = {(r, a): _fp(v) for r, d in roots.items() for a, v in list(d.items())}
        outcome(engine, t)
        for r, d in roots.items():
            for a, v in list(d.items()):
                if before.get((r, a), '<absent>') != _fp(v):
                    try:
                        val = copy.copy(v) if isinstance(v, (list, dict, set)) else v
                    except Exception:
                        val = v
                    G.setdefault((r, a), []).append(val)
    return G, roots


if not H.P('driver'):
    GSET, ROOTS = discover_writes(ENG, POOL)
    GKEYS = sorted(GSET)
    ENG2 = make_engine(ENGINE_KIND)


def isolated_g(i: int, k: int, h: int) -> bool:
    """
    pre: H.P('ilo', 0) <= i < min(len(POOL), H.P('ihi', 99)) and 0 <= k <= H.P('kmax', 8) and 0 <= h < min(len(POOL), H.P('hmax', 99))
    post: _
    """
    # at fetch k every attribute a parse was seen to write is overwritten with the value another text's parse left there
    text = POOL[i]
    hh = POSBOX2[h][0]
    count = [0]

    def havoc():
        with H.NoTracing():
            for n, key in enumerate(GKEYS):
                vals = GSET[key]
                # torn updates: every written attribute takes the value left by a (possibly different) other parse
                ROOTS[key[0]][key[1]] = vals[(hh + (n if H.P('torn') else 0)) % len(vals)]

    def token(self):
        if count[0] == k:
            havoc()
        count[0] += 1
        return _orig_token(self)
    lex.Lexer.token = token
    try:
        if k == 0:
            havoc()
        got = outcome(ENG, text)
    finally:
        lex.Lexer.token = _orig_token
    return H.done(got == FRESH[i])


POSBOX2 = [(p,) for p in range(40)]


def history(i: int, j: int) -> bool:
    """
    pre: 0 <= i < len(POOL) and 0 <= j < len(POOL)
    post: _
    """
    # sequential reuse: POOL[j] (valid or failing) then POOL[i] on one long-lived engine (histories accumulate over paths)
    ti, tj = POOL[i], POOL[j]
    with H.NoTracing():
        outcome(ENG2, tj)
        ok = outcome(ENG2, ti) == FRESH_BY_TEXT[ti]
    return H.done(ok)


def other_engines(i: int, e: int) -> bool:
    """
    pre: 0 <= i < len(POOL) and 0 <= e < len(OTHER_FACTORIES) and (H.P('efix') is None or e == H.P('efix'))
    post: _
    """
    # the tree depends on the text and on THIS engine's operator table only: engines created later from other factories
    # (legacy table, custom operators, other aliases, delegates) must not change what this engine returns
    text, ei = POOL[i], POSBOX[e][0]
    with H.NoTracing():
        eng = make_engine(ENGINE_KIND)
        before = outcome(eng, text)
        other = OTHER_FACTORIES[ei]()
        outcome(other, '1 + 1')
        ok = before == FRESH[i] and outcome(eng, text) == FRESH[i]
    return H.done(ok)


def _other_factories():
    def legacy():
        return yaql_legacy.YaqlFactory().create()

    def custom():
        return make_engine('custom')

    def realiased():
        f = yaql.YaqlFactory()
        ops = []
        for rec in f.operators:
            if rec and rec[0] == '=':
                ops.append(('=', rec[1], 'same'))
            elif rec and rec[0] == '!=':
                ops.append(('!=', rec[1]))
            else:
                ops.append(rec)
        f.operators = ops
        return f.create()

    def delegates():
        return yaql.YaqlFactory(allow_delegates=True).create()

    def no_keyword_op():
        return yaql.YaqlFactory(keyword_operator=None).create()
    return [legacy, custom, realiased, delegates, no_keyword_op]


OTHER_FACTORIES = _other_factories()


def eval_cache(i: int, j: int) -> bool:
    """
    pre: 0 <= i < len(POOL) and 0 <= j < len(POOL)
    post: _
    """
    # module-level yaql.eval: a parse cached under one text must be the parse of that text, whatever was parsed before
    ti, tj = POOL[i], POOL[j]
    with H.NoTracing():
        yaql._cached_expressions.clear()
        res = []
        for t in (tj, ti, tj):
            try:
                yaql.eval(t, data={'a': {'b': 1}})
            except Exception:
                pass
        ok = True
        for t, st in yaql._cached_expressions.items():
            ok = ok and ('ok', dump(st)) == FRESH_BY_TEXT[t]
    return H.done(ok)


def conditions(tier, seed):
    out = []
    if tier == 'quick':
        combos = [('default', 'q', False, 'plain'), ('default', 'q', False, 'options')]
    else:
        combos = [('default', 't', False, 'plain'), ('default', 'q', True, 'plain'), ('legacy', 'q', False, 'plain'),
                  ('custom', 'q', False, 'plain'), ('default', 'q', False, 'options'), ('default', 'q', False, 'copy')]
    for eng, pool, two, via in combos:
        n = len(POOL_T if pool == 't' else POOL_Q)
        for dom in ('D1', 'D2'):
          if via != 'plain' and dom == 'D2' and tier == 'quick':
            continue
          step = (7 if dom == 'D1' else 3) if not two else 1
          for lo in range(0, n, step):
            out.append({'name': 'isolated[%s,%s,pool=%s%s%s,texts=%d-%d]' % (eng, dom, pool, ',two' if two else '',
                                                                             '' if via == 'plain' else ',via=' + via, lo, min(n, lo + step) - 1),
                        'func': 'isolated', 'timeout': 300 if tier == 'quick' else 1500,
                        'param': {'engine': eng, 'pool': pool, 'domain': dom, 'two': two, 'ilo': lo, 'ihi': lo + step, 'via': via},
                        'bounds': '%d pool texts, interference at fetch k in [0,8]%s, lexdata len<=3, %s, %s engine, %s' % (
                            n, ' and k2' if two else '',
                            'lexpos=0 (state right after another thread\'s Lexer.input)' if dom == 'D1' else
                            'lexpos in [0,len+1], parser stacks replaced', eng,
                            {'plain': 'engine(text)', 'options': 'engine(text, options=...)', 'copy': 'engine.copy(options)(text)'}[via])})
    for eng, pool, two, via in combos:
        if two:
            continue
        n = len(POOL_T if pool == 't' else POOL_Q)
        if via != 'plain':
            out.append({'name': 'history[%s,pool=%s,via=%s]' % (eng, pool, via), 'func': 'history', 'timeout': 300,
                        'param': {'engine': eng, 'pool': pool, 'via': via},
                        'bounds': 'ordered pairs of the %d pool texts parsed one after the other on one long-lived engine '
                                  'through the per-statement-options route (selectors; each path one concrete history)' % n})
            continue
        out.append({'name': 'history[%s,pool=%s]' % (eng, pool), 'func': 'history', 'timeout': 300,
                    'param': {'engine': eng, 'pool': pool},
                    'bounds': 'ordered pairs of the %d pool texts parsed one after the other on one long-lived engine '
                              '(selectors; each path one concrete history)' % n})
        for lo in range(0, n, 3):
          for torn in ((False, True) if (tier != 'quick' or lo == 0) else (False,)):
            out.append({'name': 'isolated_g[%s,pool=%s,texts=%d-%d%s]' % (eng, pool, lo, min(n, lo + 3) - 1, ',torn' if torn else ''),
                        'func': 'isolated_g', 'timeout': 300 if tier == 'quick' else 900,
                        'param': dict({'engine': eng, 'pool': pool, 'ilo': lo, 'ihi': lo + 3, 'torn': torn},
                                      **({'kmax': 4, 'hmax': 6} if tier == 'quick' else {})),
                        'bounds': 'at fetch k in [0,8] every attribute of the engine/lexer/parser/rule objects/yaql modules '
                                  'that a parse was observed to write is replaced by the value left by the parse of pool '
                                  'text h (symbolic)'})
    for b0 in range(3):
        qk = tier == 'quick'
        out.append({'name': 'schedules[b0=%d]' % b0, 'func': 'schedules', 'timeout': 300 if qk else 1200,
                    'param': dict({'pool': 'q', 'b0lo': b0, 'b0hi': b0}, **({'ihi': 6, 'kmax': 3} if qk else {})),
                    'bounds': 'two real threads under the hand-off scheduler on one long-lived engine: %s pool texts as A x %d '
                              'texts as B (4 of them failing) x B passes %d points first x A passes k in [0,%d] fetches, B runs to '
                              'completion, A finishes (selectors; each path one concrete schedule)'
                              % ('the first 6' if qk else 'all', len(SCHED_B), b0, 3 if qk else 4)})
    for ef in range(5):
      out.append({'name': 'other_engines[%d]' % ef, 'func': 'other_engines', 'timeout': 300, 'param': {'pool': 'q', 'efix': ef},
                'bounds': 'every pool text x 1 of 5 other factories (legacy, custom operator, re-aliased = and !=, delegates, no keyword '
                          'operator) created after the engine under test (selectors; each path one concrete history)'})
    out.append({'name': 'eval_cache', 'func': 'eval_cache', 'timeout': 200, 'param': {'pool': 'q'},
                'bounds': 'yaql.eval on ordered pairs of pool texts (selectors; each path one concrete history)'})
    return out


# ----------------------------------------------------------------------------- replay with real threads
class Sched:
    """hand-off scheduler: `schedule` lists, per passage through a scheduling point, which thread may go"""
    def __init__(self, schedule):
        self.schedule = list(schedule)
        self.cv = threading.Condition()
        self.pos = 0
        self.done = set()
        self.names = {}

    def point(self):
        me = self.names.get(threading.get_ident())
        if me is None:
            return
        with self.cv:
            while self.pos < len(self.schedule) and self.schedule[self.pos] != me \
                    and self.schedule[self.pos] not in self.done:
                self.cv.wait(1.0)
            if self.pos < len(self.schedule) and self.schedule[self.pos] == me:
                self.pos += 1
            self.cv.notify_all()

    def run(self, jobs):
        res = {}

        def body(name, fn):
            self.names[threading.get_ident()] = name
            self.point()
            try:
                res[name] = fn()
            finally:
                with self.cv:
                    self.done.add(name)
                    while self.pos < len(self.schedule) and self.schedule[self.pos] in self.done:
                        self.pos += 1
                    self.cv.notify_all()
        ts = [threading.Thread(target=body, args=(n, f)) for n, f in jobs.items()]
        for t in ts:
            t.start()
        for t in ts:
            t.join(20)
        return res


def threaded(engine, text_a, text_b, k, j, text_c=None, jc=0, b0=0):
    """(B runs b0 scheduling points first;) A starts and passes k token fetches, B runs j scheduling points (its start +
    fetches; j >= 40: to completion), then optionally a third parse C runs jc points, A finishes, the others finish"""
    sched = Sched(['B'] * b0 + ['A'] * (k + 1) + ['B'] * j + ['C'] * jc + ['A'] * 40 + ['B'] * 40 + ['C'] * 40)

    def token(self):
        sched.point()
        return _orig_token(self)
    lex.Lexer.token = token
    jobs = {'A': lambda: outcome(engine, text_a), 'B': lambda: outcome(engine, text_b)}
    if text_c is not None:
        jobs['C'] = lambda: outcome(engine, text_c)
    try:
        return sched.run(jobs)
    finally:
        lex.Lexer.token = _orig_token


SCHED_B = ['[1, 2', '1 +', "'abc", '$x.f(1)', '', '{a => 1}']
SCHED_BOX = [(t,) for t in SCHED_B]
POOLBOX = [(t,) for t in POOL]


def schedules(i: int, b: int, b0: int, k: int) -> bool:
    """
    pre: 0 <= i < min(len(POOL), H.P('ihi', 99)) and 0 <= b < len(SCHED_B) and H.P('b0lo', 0) <= b0 <= H.P('b0hi', 2) and 0 <= k <= H.P('kmax', 4)
    post: _
    """
    # two real threads on the long-lived engine under the hand-off scheduler: B (often a failing text) passes b0
    # scheduling points, A starts and passes k token fetches, B runs to completion, A finishes; both must get what
    # they get alone.  Each path is one concrete schedule chosen by the symbolic indices.
    ta, tb, kk, bb = POOLBOX[i][0], SCHED_BOX[b][0], POSBOX[k][0], POSBOX[b0][0]   # realised by table lookup
    with H.NoTracing():
        res = threaded(ENG, ta, tb, kk, 40, b0=bb)
        ok = res.get('A') == FRESH_BY_TEXT[ta] and res.get('B') == outcome(make_engine(ENGINE_KIND), tb) \
            if tb not in FRESH_BY_TEXT else res.get('A') == FRESH_BY_TEXT[ta] and res.get('B') == FRESH_BY_TEXT[tb]
    return H.done(ok)


def stress(kind, pool, seconds=4.0, nthreads=4):
    """free-running threads on one engine, sys.setswitchinterval(1e-6); -> description of a wrong result or None"""
    import sys
    import time
    fresh = {t: outcome(make_engine(kind), t) for t in pool}
    eng = make_engine(kind)
    bad = []
    stop = time.time() + seconds
    old = sys.getswitchinterval()
    sys.setswitchinterval(1e-6)

    def worker(k):
        n = 0
        while time.time() < stop and not bad:
            t = pool[(k * 7 + n) % len(pool)] if n % 3 else pool[n % 4]
            got = outcome(eng, t)
            if got != fresh[t]:
                bad.append('free-running threads (switch interval 1 us) on one engine: engine(%r) returned %r, alone %r' % (
                    t, got, fresh[t]))
            n += 1
    try:
        ts = [threading.Thread(target=worker, args=(k,)) for k in range(nthreads)]
        for t in ts:
            t.start()
        for t in ts:
            t.join(seconds + 10)
    finally:
        sys.setswitchinterval(old)
    return bad[0] if bad else None


def replay(cond, args):
    par = cond.get('param') or {}
    if cond['func'] == 'eval_cache':
        ok = eval_cache(**args)
        return {'reproduced': not ok, 'key': 'C01/eval-cache', 'what': 'yaql.eval caches a wrong tree for %r' % (args,)}
    kind = par.get('engine', 'default')
    pool = POOL_T if par.get('pool') == 't' else POOL_Q
    if cond['func'] == 'other_engines':
        ok = other_engines(**args)
        return {'reproduced': not ok, 'key': 'C01/other-engine-changes-parse',
                'what': 'engine(%r) changes after another engine was created from factory #%d (%s)' % (
                    pool[args['i']], args['e'], OTHER_FACTORIES[args['e']].__name__)}
    if cond['func'] == 'schedules':
        ta, tb = pool[args['i']], SCHED_B[args['b']]
        fresh_a, fresh_b = outcome(make_engine(kind), ta), outcome(make_engine(kind), tb)
        for prior in ([], list(pool)):
            eng = make_engine(kind)
            for t in prior:
                outcome(eng, t)
            res = threaded(eng, ta, tb, args['k'], 40, b0=args['b0'])
            if res.get('A') != fresh_a or res.get('B') != fresh_b:
                return {'reproduced': True, 'key': 'C01/shared-parser-interleaving',
                        'what': 'engine history %s; B parses %r and passes %d scheduling points, A parses %r and passes %d token '
                                'fetches, B runs to completion, A continues: A gets %r (alone: %r), B gets %r (alone: %r)'
                                % ('[]' if not prior else 'the pool', tb, args['b0'], ta, args['k'], res.get('A'), fresh_a,
                                   res.get('B'), fresh_b)}
        return {'reproduced': False}
    if cond['func'] == 'history':
        eng = make_engine(kind)
        tj, ti = pool[args['j']], pool[args['i']]
        outcome(eng, tj)
        got, fresh = outcome(eng, ti), outcome(make_engine(kind), ti)
        if got != fresh:
            return {'reproduced': True, 'key': 'C01/history-dependent-parse',
                    'what': 'after parsing %r, engine(%r) gives %r, a fresh engine gives %r' % (tj, ti, got, fresh)}
        # the harness engine is long-lived: its history is every pool text explored on earlier paths
        eng = make_engine(kind)
        for t in pool:
            outcome(eng, t)
        outcome(eng, tj)
        got = outcome(eng, ti)
        return {'reproduced': got != fresh, 'key': 'C01/history-dependent-parse',
                'what': 'after parsing the pool %r and then %r, engine(%r) gives %r, a fresh engine gives %r' % (pool, tj, ti, got, fresh)}
    if cond['func'] == 'isolated_g':
        args = dict(args, lexdata=pool[args['h']])
    text = pool[args['i']]
    fresh = outcome(make_engine(kind), text)
    # 1. sequential history: the interfering text parsed (or failed) before
    eng = make_engine(kind)
    for prior in (args['lexdata'], args['lexdata'] + ' +', "'" + args['lexdata']):
        outcome(eng, prior)
        got = outcome(eng, text)
        if got != fresh:
            return {'reproduced': True, 'key': 'C01/history-dependent-parse',
                    'what': 'after parsing %r, engine(%r) gives %r, a fresh engine gives %r' % (prior, text, got, fresh)}
    # 2. real threads, hand-off at Lexer.token entry: B = another parse whose Lexer.input happens between two fetches of
    #    A; engines with and without a failed parse in their history; optionally a third parse C after B completed
    texts_b = [args['lexdata'], '', '1', '$x + 1', "'abc'", ')']
    ks = sorted({args['k'], max(args['k'] - 1, 0), args['k'] + 1, 1, 2, 3})
    for prior in ([], ['a +', 'a # b']):
        for tb in texts_b:
            fresh_b = outcome(make_engine(kind), tb)
            for k in ks:
                for j, tc, jc in [(1, None, 0), (2, None, 0), (3, None, 0), (40, '$y', 1), (40, '$y', 2), (40, ')', 1)]:
                    eng = make_engine(kind)
                    for t in prior:
                        outcome(eng, t)
                    res = threaded(eng, text, tb, k, j, tc, jc)
                    fresh_c = outcome(make_engine(kind), tc) if tc is not None else None
                    if res.get('A') != fresh or res.get('B') != fresh_b or (tc is not None and res.get('C') != fresh_c):
                        return {'reproduced': True, 'key': 'C01/shared-lexer-interleaving',
                                'what': 'engine history %r; thread A parses %r, B parses %r%s on the same engine; schedule: A '
                                        'passes %d token fetches, B runs %s, %sA continues: A gets %r (alone: %r), B gets %r '
                                        '(alone: %r)' % (prior, text, tb, '' if tc is None else ', C parses %r' % tc, k,
                                                         'to completion' if j >= 40 else '%d steps' % j,
                                                         '' if tc is None else 'C runs %d steps, ' % jc,
                                                         res.get('A'), fresh, res.get('B'), fresh_b)}
    # 3. free-running threads under a microsecond switch interval (the property's last quantifier clause): catches
    #    interference at points finer than token fetches
    bad = stress(kind, pool)
    if bad:
        return {'reproduced': True, 'key': 'C01/free-running-interference', 'what': bad}
    return {'reproduced': False, 'note': 'no sequential history or two-thread schedule reproduces the havoc counterexample'}
