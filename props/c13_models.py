"""C13 helper: lambda family, reference models written from the doc-strings, and the case table.

A *case* is one way of calling one registered function: how the real function is reached (context call API with
Python-callable lambdas = `api`, and/or YAQL text with yaql lambdas = `text`), the domain the doc-string defines
(`dom`), and an independent model (`ref`) that uses only indexing, loops and comprehensions.  `ref` raises Fail when
the documentation says the call cannot succeed (the error class is not asserted) and returns Weak(pred) where the
documentation only supports a weak law.
"""
import re
import resource

try:  # endless sources exist in this library: never let a regression eat the machine
    resource.setrlimit(resource.RLIMIT_AS, (8 << 30, 8 << 30))
except Exception:  # pragma: no cover
    pass

from vf import yq
from yaql.language import utils as yutils

FD = yutils.FrozenDict
# every iterable parameter and the finalizer are limited, so that a regression which makes a result endless raises
# CollectionTooLargeException instead of hanging; the limit is never reached inside the bounds of the conditions
ENG = yq.FACTORY.create(options={'yaql.limitIterators': 100})


class Fail(Exception):
    """model verdict: the documented behaviour is an error (class not asserted)"""


class Weak:
    """model verdict: only a weak law is documented; pred(got) decides"""
    def __init__(self, pred, text):
        self.pred = pred
        self.text = text


def M(name, recv, *a, **kw):
    """real method call through the context call API: runner.call -> choose_overload -> map_args -> payload"""
    return yq.ROOT(name, ENG, recv, use_convention=True)(*a, **kw)


def F(name, *a, **kw):
    return yq.ROOT(name, ENG, use_convention=not name.startswith('#'))(*a, **kw)


def fin(x):
    """the engine's real finalizer (what Statement.evaluate applies to every result)"""
    return yq.ROOT('#finalize', ENG)(x)


def take(x, n):
    return M('take', x, n)


# ----------------------------------------------------------------------------------------------- comparison
def isb(x):
    return isinstance(x, bool)


def same(got, exp):
    """deep equality; a model list/tuple demands a *list* (finalised data), bool and int are not interchangeable"""
    if isinstance(exp, (list, tuple)):
        if not isinstance(got, list) or len(got) != len(exp):
            return False
        for a, b in zip(got, exp):
            if not same(a, b):
                return False
        return True
    if isinstance(exp, dict):
        if not isinstance(got, dict) or len(got) != len(exp):
            return False
        for k2, v2 in exp.items():
            if k2 not in got or not same(got[k2], v2):
                return False
        return True
    if isinstance(exp, (set, frozenset)):
        return isinstance(got, (set, frozenset)) and len(got) == len(exp) and all(x in got for x in exp)
    if exp is None or got is None:
        return exp is None and got is None
    if isinstance(got, (list, tuple, dict, set, frozenset)):
        return False
    if isb(got) != isb(exp):
        return False
    return got == exp


def count_in(seq, x):
    n = 0
    for y in seq:
        if same_scalar(x, y):
            n += 1
    return n


def same_scalar(x, y):
    if x is None or y is None:
        return x is None and y is None
    if isinstance(x, (list, tuple)) or isinstance(y, (list, tuple)):
        if not (isinstance(x, (list, tuple)) and isinstance(y, (list, tuple))) or len(x) != len(y):
            return False
        return all(same_scalar(a, b) for a, b in zip(x, y))
    return x == y


def same_multiset(got, exp):
    if not isinstance(got, list) or len(got) != len(exp):
        return False
    for x in exp:
        if count_in(got, x) != count_in(exp, x):
            return False
    return True


# ----------------------------------------------------------------------------------------------- lambda family
class Lam:
    def __init__(self, text, mk, ints=False, dom=None):
        self.text = text        # yaql spelling (constants are the context variables $k, $r)
        self.mk = mk            # env -> python callable with the same meaning
        self.ints = ints        # defined on integers only (null elements are outside its domain)
        self.dom = dom          # extra constraint on the constants


def lt_null(a, b):
    """yaql ordering: null is lower than everything, null = null"""
    if a is None:
        return b is not None
    if b is None:
        return False
    return a < b


LAMS = {
    # predicates of one argument
    'gt': Lam('$ > $k', lambda e: (lambda x: x is not None and x > e.k)),
    'eq': Lam('$ = $k', lambda e: (lambda x: x is not None and x == e.k)),
    'mod': Lam('$ mod 2 = $r', lambda e: (lambda x: x % 2 == e.r), ints=True),
    # selectors of one argument
    'id': Lam('$', lambda e: (lambda x: x)),
    'mul': Lam('$ * $k', lambda e: (lambda x: x * e.k), ints=True, dom=lambda e: -2 <= e.k <= 2),
    'add': Lam('$ + $k', lambda e: (lambda x: x + e.k), ints=True),
    'pair': Lam('[$, $k]', lambda e: (lambda x: (x, e.k))),
    'par': Lam('$ mod 2', lambda e: (lambda x: x % 2), ints=True),
    'neg': Lam('-$', lambda e: (lambda x: -x), ints=True),
    'gtk': Lam('$ > $k', lambda e: (lambda x: x is not None and x > e.k)),
    # two arguments
    'add2': Lam('$1 + $2', lambda e: (lambda a, b: a + b), ints=True),
    'gt2': Lam('$1 > $2', lambda e: (lambda a, b: lt_null(b, a))),
    'ge2': Lam('$1 >= $2', lambda e: (lambda a, b: not lt_null(a, b))),
    'eq2': Lam('$1 = $2', lambda e: (lambda a, b: same_scalar(a, b))),
    'pair2': Lam('[$1, $2]', lambda e: (lambda a, b: (a, b))),
    'snd2': Lam('$2', lambda e: (lambda a, b: b)),
    'fst2': Lam('$1', lambda e: (lambda a, b: a)),
    'cat2': Lam('$1 + $2', lambda e: (lambda a, b: tuple(a) + tuple(b))),
    # aggregators over a list of integers
    'alen': Lam('$.len()', lambda e: (lambda vs: len(vs))),
    'asum': Lam('$.sum()', lambda e: (lambda vs: pysum(vs)), ints=True),
}


def pysum(vs):
    acc = None
    for x in vs:
        acc = x if acc is None else acc + x
    return acc


# ----------------------------------------------------------------------------------------------- environment
class Env:
    """the (symbolic) values of one harness invocation"""
    def __init__(self, t, u, i, j, k, r, v, lams):
        self.t, self.u, self.i, self.j, self.k, self.r, self.v = t, u, i, j, k, r, v
        self.lams = lams
        for slot, lid in lams.items():
            setattr(self, slot, LAMS[lid].mk(self))

    @property
    def n(self):
        return len(self.t)

    def m(self):
        return FD(zip(self.t, self.u))

    def m2(self):
        return FD(((self.i, self.j), (self.k, self.r)))

    def pairs(self):
        return tuple(zip(self.t, self.u))

    def s(self):
        return frozenset(self.t)

    def s2(self):
        return frozenset(self.u)


def dict_of(pairs):
    """model of 'later pair wins' dictionary construction"""
    keys, vals = [], []
    for k2, v2 in pairs:
        for n, kk in enumerate(keys):
            if same_scalar(kk, k2):
                vals[n] = v2
                break
        else:
            keys.append(k2)
            vals.append(v2)
    return keys, vals


def as_dict(keys, vals):
    return dict(zip(keys, vals))


def lookup(keys, vals, k2, default=None):
    for n, kk in enumerate(keys):
        if same_scalar(kk, k2):
            return vals[n]
    return default


def has(seq, x):
    for y in seq:
        if same_scalar(x, y):
            return True
    return False


def uniq(seq):
    out = []
    for x in seq:
        if not has(out, x):
            out.append(x)
    return out


# ----------------------------------------------------------------------------------------------- models
def stable_sort(items, keyfs):
    """insertion sort: keyfs = [(keyfunc, ascending)]; ties keep input order"""
    def before(a, b):   # must a be placed strictly before b ?
        for kf, asc in keyfs:
            ka, kb = kf(a), kf(b)
            if lt_null(ka, kb):
                return asc
            if lt_null(kb, ka):
                return not asc
        return False
    out = []
    for x in items:
        pos = len(out)
        while pos > 0 and before(x, out[pos - 1]):
            pos -= 1
        out.insert(pos, x)
    return out


def groups(items, keyf, valf):
    ks, vs = [], []
    for x in items:
        k2 = keyf(x)
        val = valf(x)
        for n, kk in enumerate(ks):
            if same_scalar(kk, k2):
                vs[n].append(val)
                break
        else:
            ks.append(k2)
            vs.append([val])
    return ks, vs


def window(e, n, position, count):
    """delete/replace: index n lies in [position, position+count); a negative count means 'through the end'
    (pinned by the repo's own tests test_delete/test_replace)"""
    if count >= 0:
        return position <= n < position + count
    return n >= position


def r_replace(e, position, values, count):
    out = []
    done = False
    for n, x in enumerate(e.t):
        if window(e, n, position, count):
            if not done:
                done = True
                out.extend(values)
        else:
            out.append(x)
    return out


def r_insert(e, position, values):
    t = list(e.t)
    if position >= 0:
        p = position if position <= len(t) else len(t)
        return t[:p] + list(values) + t[p:]
    # negative positions are not defined by the doc-string ("index for insertion. value is inserted in the end if
    # position greater than collection size"): the only supported law is "the input plus the values, input order kept"
    vals = list(values)

    def pred(got):
        if not isinstance(got, list) or len(got) != len(t) + len(vals):
            return False
        for p in range(len(t) + 1):
            if same(got, t[:p] + vals + t[p:]):
                return True
        return False
    return Weak(pred, 'input plus the inserted value(s), input order preserved')


def r_split_where(e):
    parts = [[]]
    for x in e.t:
        if e.P(x):
            parts.append([])
        else:
            parts[-1].append(x)
    if parts[-1]:
        return parts
    # an empty last part (input empty or ending in a delimiter) is not pinned down by the doc-string
    alt = parts[:-1]
    return Weak(lambda got: same(got, parts) or same(got, alt),
                '%r or %r (trailing empty part unspecified)' % (parts, alt))


def r_slice_where(e):
    out = []
    prev = None
    for n, x in enumerate(e.t):
        p = e.P(x)
        if n == 0 or p != prev:
            out.append([x])
        else:
            out[-1].append(x)
        prev = p
    return out


def r_slice(e):
    out = []
    for x in e.t:
        if not out or len(out[-1]) >= e.i:
            out.append([x])
        else:
            out[-1].append(x)
    return out


def r_take_while(e):
    out = []
    for x in e.t:
        if not e.P(x):
            break
        out.append(x)
    return out


def r_skip_while(e):
    out = []
    skipping = True
    for x in e.t:
        if skipping and e.P(x):
            continue
        skipping = False
        out.append(x)
    return out


def r_index(e, pred, last=False):
    res = -1
    for n, x in enumerate(e.t):
        if pred(x):
            if not last:
                return n
            res = n
    return res


def r_reduce(e, items, seed, has_seed):
    it = list(items)
    if not has_seed:
        if not it:
            raise Fail()
        acc = it[0]
        it = it[1:]
    else:
        acc = seed
    for x in it:
        acc = e.B(acc, x)
    return acc


def r_accumulate(e, has_seed):
    it = list(e.t)
    if not has_seed:
        if not it:
            raise Fail()
        acc = it[0]
        it = it[1:]
    else:
        acc = e.i
    out = [acc]
    for x in it:
        acc = e.B(acc, x)
        out.append(acc)
    return out


def r_minmax(e, items, want_max):
    it = list(items)
    if not it:
        raise Fail()
    best = it[0]
    for x in it[1:]:
        if (x > best) if want_max else (x < best):
            best = x
    return best


def r_range(start, stop, step):
    out = []
    n = start
    while (step > 0 and n < stop) or (step < 0 and n > stop):
        out.append(n)
        n += step
    return out


def r_select_many(e):
    out = []
    for x in e.t:
        y = e.S(x)
        if isinstance(y, (tuple, list)):
            out.extend(y)
        else:
            out.append(y)
    return out


def r_cycle(e):
    out = []
    if e.n == 0:
        return out
    n = 0
    while len(out) < e.j:
        out.append(e.t[n])
        n = n + 1 if n + 1 < e.n else 0
    return out


def r_generate(e, selector=None):
    out = []
    x = e.i
    while x < e.j:
        out.append(x if selector is None else selector(x))
        x = x + e.r
    return out


def r_generate_decycle(e):
    out = []
    x = e.i
    while not has(out, x):
        out.append(x)
        x = (x + 1) % 3
    return out


TREES = [
    {0: (1, 2), 1: (3, 4), 2: (), 3: (), 4: ()},
    {0: (1,), 1: (2, 3), 2: (4,), 3: (), 4: ()},
    {0: (1, 2), 1: (0, 2), 2: (0,), 3: (4,), 4: (3,)},       # cyclic: only with decycle
]


def r_generate_many(e, tree, depth_first, decycle, selector):
    out = []
    seen = []
    queue = [e.i]
    while queue:
        x = queue.pop(0)
        if decycle:
            if x in seen:
                continue
            seen.append(x)
        out.append(selector(x))
        kids = list(tree[x])
        queue = kids + queue if depth_first else queue + kids
    return out


def r_merge(d1, d2, list_merger, item_merger, max_levels, level=1):
    """doc-string of mergeWith: deep merge; lists by listMerger (default distinct(l1+l2)); other items by
    itemMerger (default: the second); maxLevels limits the depth (0 = unlimited)"""
    out = {}
    for k2, v1 in d1.items():
        if k2 not in d2:
            out[k2] = v1
            continue
        v2 = d2[k2]
        deeper = max_levels == 0 or level < max_levels
        if deeper and isinstance(v1, dict) and isinstance(v2, dict):
            out[k2] = r_merge(v1, v2, list_merger, item_merger, max_levels, level + 1)
        elif deeper and isinstance(v1, (list, tuple)) and isinstance(v2, (list, tuple)):
            out[k2] = list_merger(list(v1), list(v2))
        else:
            out[k2] = item_merger(v1, v2)
    for k2, v2 in d2.items():
        if k2 not in d1:
            out[k2] = v2
    return out


def sel_present(sel, bit):
    """presence of key number `bit` (0/1) under selector sel in 0..3 without bit operations"""
    return (sel == 1 or sel == 3) if bit == 0 else (sel == 2 or sel == 3)


def flat_dict(sel, a, b):
    out = {}
    if sel_present(sel, 0):
        out['a'] = a
    if sel_present(sel, 1):
        out['b'] = b
    return out


def freeze(x):
    if isinstance(x, dict):
        return FD((k2, freeze(v2)) for k2, v2 in x.items())
    if isinstance(x, list):
        return tuple(freeze(y) for y in x)
    return x


KIND_OBJECTS = [  # (python value factory, isList, isDict, isSet, isIterable)
    (lambda e: e.v, False, False, False, False),
    (lambda e: tuple(e.t), True, False, False, True),
    (lambda e: iter(tuple(e.t)), False, False, False, True),
    (lambda e: frozenset(e.t), False, False, True, True),
    (lambda e: FD(a=e.v), False, True, False, False),
    (lambda e: 'foo', False, False, False, False),
]


# ----------------------------------------------------------------------------------------------- case table
CASES = {}
ORDER = []


def case(cid, keys, ref, api=None, text=None, uses='c', dom=None, lams=None, nones=True, pres=('tuple', 'iter'),
         names=None, cost=1, nmax=None, raw=False, small=False):
    """keys: registry keys 'yaqlName/payload_name' this case exercises (one condition per key)"""
    assert cid not in CASES, cid
    CASES[cid] = {'id': cid, 'keys': keys if isinstance(keys, list) else [keys], 'ref': ref, 'api': api, 'text': text,
                  'uses': set(uses.split()), 'dom': dom, 'lams': lams or {}, 'nones': nones, 'pres': pres,
                  'cost': cost, 'nmax': nmax, 'raw': raw, 'small': small}
    ORDER.append(cid)


def T(e):
    return list(e.t)


def U(e):
    return list(e.u)


# --- queries ------------------------------------------------------------------------------------------------
case('where', ['where/where', 'filter/where'], lambda e: [x for x in e.t if e.P(x)],
     api=lambda e, P, name: M(name, P(e.t), e.P), text='$c.{name}({P})', uses='c k r',
     lams={'P': ['gt', 'mod', 'eq']})
case('select', ['select/select', 'map/select'], lambda e: [e.S(x) for x in e.t],
     api=lambda e, P, name: M(name, P(e.t), e.S), text='$c.{name}({S})', uses='c k',
     lams={'S': ['pair', 'mul', 'add', 'id']})
case('attribution', '#operator_./collection_attribution', lambda e: T(e),
     text='$cd.a', uses='c')
case('skip', 'skip/skip', lambda e: [x for n, x in enumerate(e.t) if n >= e.i],
     api=lambda e, P, name: M(name, P(e.t), e.i), text='$c.skip($i)', uses='c i', dom=lambda e: e.i >= 0)
case('take', ['take/limit', 'limit/limit'], lambda e: [x for n, x in enumerate(e.t) if n < e.i],
     api=lambda e, P, name: M(name, P(e.t), e.i), text='$c.{name}($i)', uses='c i', dom=lambda e: e.i >= 0)
case('append', 'append/append', lambda e: T(e) + [e.v, e.k],
     api=lambda e, P, name: M(name, P(e.t), e.v, e.k), text='$c.append($v, $k)', uses='c v k')
case('append.fn', 'append/append', lambda e: T(e) + [e.v],
     api=lambda e, P, name: F(name, P(e.t), e.v), text='append($c, $v)', uses='c v')
case('append.none', 'append/append', lambda e: T(e),
     api=lambda e, P, name: M(name, P(e.t)), text='$c.append()', uses='c')
case('distinct', 'distinct/distinct', lambda e: uniq(e.t),
     api=lambda e, P, name: M(name, P(e.t)), text='$c.distinct()', uses='c')


def r_distinct_key(e):
    ks, out = [], []
    for x in e.t:
        k2 = e.K(x)
        if not has(ks, k2):
            ks.append(k2)
            out.append(x)
    return out


case('distinct.key', 'distinct/distinct', r_distinct_key,
     api=lambda e, P, name: M(name, P(e.t), e.K), text='$c.distinct({K})', uses='c k',
     lams={'K': ['par', 'gtk', 'pair']})
case('enumerate', 'enumerate/enumerate_', lambda e: [[n, x] for n, x in enumerate(e.t)],
     api=lambda e, P, name: M(name, P(e.t)), text='$c.enumerate()', uses='c')
case('enumerate.start', 'enumerate/enumerate_', lambda e: [[n + e.i, x] for n, x in enumerate(e.t)],
     api=lambda e, P, name: M(name, P(e.t), e.i), text='$c.enumerate($i)', uses='c i', raw=True,
     dom=lambda e: -2 <= e.i <= 2)
case('any', 'any/any_', lambda e: e.n > 0,
     api=lambda e, P, name: M(name, P(e.t)), text='$c.any()', uses='c')
case('any.pred', 'any/any_', lambda e: len([x for x in e.t if e.P(x)]) > 0,
     api=lambda e, P, name: M(name, P(e.t), e.P), text='$c.any({P})', uses='c k r', lams={'P': ['gt', 'mod']})
case('all', 'all/all_', lambda e: len([x for x in e.t if x is None or x == 0]) == 0,
     api=lambda e, P, name: M(name, P(e.t)), text='$c.all()', uses='c')
case('all.pred', 'all/all_', lambda e: len([x for x in e.t if not e.P(x)]) == 0,
     api=lambda e, P, name: M(name, P(e.t), e.P), text='$c.all({P})', uses='c k r', lams={'P': ['gt', 'mod']})
case('concat', 'concat/concat', lambda e: T(e) + U(e),
     api=lambda e, P, name: M(name, P(e.t), P(e.u)), text='$c.concat($d)', uses='c d')
case('concat.3', 'concat/concat', lambda e: T(e) + U(e) + [e.v],
     api=lambda e, P, name: F(name, P(e.t), P(e.u), (e.v,)), text='concat($c, $d, [$v])', uses='c d v')
case('len.iterator', 'len/count_', lambda e: e.n,
     api=lambda e, P, name: M(name, P(e.t)), text='$c.len()', uses='c', pres=('iter',))
case('len.iterator.fn', 'len/count_', lambda e: e.n,
     api=lambda e, P, name: F(name, P(e.t)), text='len($c)', uses='c', pres=('iter',))
case('len.sequence', 'len/sequence_len', lambda e: e.n,
     api=lambda e, P, name: M(name, P(e.t)), text='$c.len()', uses='c', pres=('tuple',))
case('count', 'count/count', lambda e: e.n,
     api=lambda e, P, name: M(name, P(e.t)), text='$c.count()', uses='c')


def a_memorize(e, P, name):
    mm = M(name, P(e.t))
    return [M('toList', mm), M('toList', mm), M('count', mm)]


case('memorize', 'memorize/memorize', lambda e: [T(e), T(e), e.n], api=a_memorize,
     text='let(mm => $c.memorize()) -> [$mm.toList(), $mm.toList(), $mm.count()]', uses='c')
case('sum', 'sum/sum_', lambda e: r_reduce(e, e.t, None, False),
     api=lambda e, P, name: M(name, P(e.t)), text='$c.sum()', uses='c', nones=False,
     dom=lambda e: e.n > 0, lams={'B': ['add2']})
case('sum.initial', 'sum/sum_', lambda e: r_reduce(e, e.t, e.i, True),
     api=lambda e, P, name: M(name, P(e.t), e.i), text='$c.sum($i)', uses='c i', nones=False, lams={'B': ['add2']})
case('max', 'max/max_', lambda e: r_minmax(e, e.t, True),
     api=lambda e, P, name: M(name, P(e.t)), text='$c.max()', uses='c', nones=False, dom=lambda e: e.n > 0)
case('max.initial', 'max/max_', lambda e: r_minmax(e, [e.i] + T(e), True),
     api=lambda e, P, name: M(name, P(e.t), e.i), text='$c.max($i)', uses='c i', nones=False)
case('min', 'min/min_', lambda e: r_minmax(e, e.t, False),
     api=lambda e, P, name: M(name, P(e.t)), text='$c.min()', uses='c', nones=False, dom=lambda e: e.n > 0)
case('min.initial', 'min/min_', lambda e: r_minmax(e, [e.i] + T(e), False),
     api=lambda e, P, name: M(name, P(e.t), e.i), text='$c.min($i)', uses='c i', nones=False)


def r_first(e):
    if e.n == 0:
        raise Fail()       # doc: "raises StopIteration if default is not specified"
    return e.t[0]


def r_last(e):
    if e.n == 0:
        raise Fail()
    return e.t[e.n - 1]


def r_single(e):
    if e.n != 1:
        raise Fail()       # doc: "If the collection is empty or has more than one element, raises StopIteration"
    return e.t[0]


case('first', 'first/first', r_first, api=lambda e, P, name: M(name, P(e.t)), text='$c.first()', uses='c')
case('first.default', 'first/first', lambda e: e.t[0] if e.n else e.v,
     api=lambda e, P, name: M(name, P(e.t), e.v), text='$c.first($v)', uses='c v')
case('single', 'single/single', r_single, api=lambda e, P, name: M(name, P(e.t)), text='$c.single()', uses='c')
case('last', 'last/last', r_last, api=lambda e, P, name: M(name, P(e.t)), text='$c.last()', uses='c')
case('last.default', 'last/last', lambda e: e.t[e.n - 1] if e.n else e.v,
     api=lambda e, P, name: M(name, P(e.t), e.v), text='$c.last($v)', uses='c v')
case('selectMany', 'selectMany/select_many', r_select_many,
     api=lambda e, P, name: M(name, P(e.t), e.S), text='$c.selectMany({S})', uses='c k',
     lams={'S': ['pair', 'mul']})
case('range.stop', 'range/range_', lambda e: r_range(0, e.i, 1),
     api=lambda e, P, name: F(name, e.i), text='range($i)', uses='i', dom=lambda e: -2 <= e.i <= 4, pres=('tuple',))
case('range.start.stop', 'range/range__', lambda e: r_range(e.i, e.j, 1),
     api=lambda e, P, name: F(name, e.i, e.j), text='range($i, $j)', uses='i j',
     dom=lambda e: -3 <= e.i <= 3 and -3 <= e.j <= 3, pres=('tuple',))
case('range.step', 'range/range__', lambda e: r_range(e.i, e.j, e.r),
     api=lambda e, P, name: F(name, e.i, e.j, e.r), text='range($i, $j, $r)', uses='i j r',
     dom=lambda e: -3 <= e.i <= 3 and -3 <= e.j <= 3 and -2 <= e.r <= 2 and e.r != 0, pres=('tuple',))
case('sequence', 'sequence/sequence', lambda e: [e.i, e.i + e.r, e.i + e.r + e.r],
     api=lambda e, P, name: take(F(name, e.i, e.r), 3), text='sequence($i, $r).take(3)', uses='i r', pres=('tuple',),
     dom=lambda e: -3 <= e.i <= 3 and -2 <= e.r <= 2)
case('sequence.default', 'sequence/sequence', lambda e: [0, 1, 2],
     api=lambda e, P, name: take(F(name), 3), text='sequence().take(3)', uses='', pres=('tuple',))
case('orderBy', 'orderBy/order_by', lambda e: stable_sort(e.t, [(e.K, True)]),
     api=lambda e, P, name: M(name, P(e.t), e.K), text='$c.orderBy({K})', uses='c',
     lams={'K': ['id', 'par']}, cost=3)
case('orderByDescending', 'orderByDescending/order_by_descending', lambda e: stable_sort(e.t, [(e.K, False)]),
     api=lambda e, P, name: M(name, P(e.t), e.K), text='$c.orderByDescending({K})', uses='c',
     lams={'K': ['id', 'par']}, cost=3)
for _first_name, _asc1 in (('orderBy', True), ('orderByDescending', False)):
    case('thenBy.' + _first_name, 'thenBy/then_by',
         (lambda asc1: lambda e: stable_sort(e.t, [(e.K, asc1), (e.S, True)]))(_asc1),
         api=(lambda fn: lambda e, P, name: M(name, M(fn, P(e.t), e.K), e.S))(_first_name),
         text='$c.%s({K}).thenBy({S})' % _first_name, uses='c', lams={'K': ['par'], 'S': ['id', 'neg']}, cost=4)
    case('thenByDescending.' + _first_name, 'thenByDescending/then_by_descending',
         (lambda asc1: lambda e: stable_sort(e.t, [(e.K, asc1), (e.S, False)]))(_asc1),
         api=(lambda fn: lambda e, P, name: M(name, M(fn, P(e.t), e.K), e.S))(_first_name),
         text='$c.%s({K}).thenByDescending({S})' % _first_name, uses='c', lams={'K': ['par'], 'S': ['id', 'neg']},
         cost=4)


def r_group(e, valf, aggf):
    ks, vs = groups(e.t, e.K, valf)
    return [[k2, (aggf(v2) if aggf else v2)] for k2, v2 in zip(ks, vs)]


case('groupBy', 'groupBy/group_by', lambda e: r_group(e, lambda x: x, None),
     api=lambda e, P, name: M(name, P(e.t), e.K), text='$c.groupBy({K})', uses='c k',
     lams={'K': ['par', 'gtk', 'id']}, cost=2)
case('groupBy.value', 'groupBy/group_by', lambda e: r_group(e, e.V, None),
     api=lambda e, P, name: M(name, P(e.t), e.K, e.V), text='$c.groupBy({K}, {V})', uses='c k',
     lams={'K': ['par'], 'V': ['mul', 'pair']}, cost=2)
case('groupBy.aggregate', 'groupBy/group_by', lambda e: r_group(e, e.V, e.A),
     api=lambda e, P, name: M(name, P(e.t), e.K, e.V, e.A), text='$c.groupBy({K}, {V}, {A})', uses='c k',
     lams={'K': ['par'], 'V': ['id'], 'A': ['asum', 'alen']}, cost=2)
case('join', 'join/join', lambda e: [e.C(x, y) for x in e.t for y in e.u if e.B(x, y)],
     api=lambda e, P, name: M(name, P(e.t), P(e.u), e.B, e.C), text='$c.join($d, {B}, {C})', uses='c d',
     lams={'B': ['gt2', 'eq2'], 'C': ['pair2', 'add2']}, cost=3)
case('zip', 'zip/zip_', lambda e: [[x, y] for x, y in zip(e.t, e.u)],
     api=lambda e, P, name: M(name, P(e.t), P(e.u)), text='$c.zip($d)', uses='c d')
case('zip.3', 'zip/zip_', lambda e: [[x, y, z] for x, y, z in zip(e.t, e.u, e.t)],
     api=lambda e, P, name: M(name, P(e.t), P(e.u), P(e.t)), text='$c.zip($d, $c2)', uses='c d')


def r_zip_longest(e, fill):
    out = []
    for n in range(max(e.n, len(e.u))):
        out.append([e.t[n] if n < e.n else fill, e.u[n] if n < len(e.u) else fill])
    return out


case('zipLongest', 'zipLongest/zip_longest', lambda e: r_zip_longest(e, None),
     api=lambda e, P, name: M(name, P(e.t), P(e.u)), text='$c.zipLongest($d)', uses='c d')
case('zipLongest.default', 'zipLongest/zip_longest', lambda e: r_zip_longest(e, e.v),
     api=lambda e, P, name: M(name, P(e.t), P(e.u), default=e.v), text='$c.zipLongest($d, default => $v)',
     uses='c d v')
case('repeat', 'repeat/repeat', lambda e: [e.v for _ in range(e.i)],
     api=lambda e, P, name: M(name, e.v, e.i), text='$v.repeat($i)', uses='v i', dom=lambda e: 0 <= e.i <= 4,
     pres=('tuple',))
case('repeat.endless', 'repeat/repeat', lambda e: [e.v for _ in range(e.i)],
     api=lambda e, P, name: take(M(name, e.v), e.i), text='$v.repeat().take($i)', uses='v i',
     dom=lambda e: 0 <= e.i <= 4, pres=('tuple',))
case('cycle', 'cycle/cycle', r_cycle,
     api=lambda e, P, name: take(M(name, P(e.t)), e.j), text='$c.cycle().take($j)', uses='c j',
     dom=lambda e: 0 <= e.j)
case('takeWhile', 'takeWhile/take_while', r_take_while,
     api=lambda e, P, name: M(name, P(e.t), e.P), text='$c.takeWhile({P})', uses='c k r', lams={'P': ['gt', 'mod']})
case('skipWhile', 'skipWhile/skip_while', r_skip_while,
     api=lambda e, P, name: M(name, P(e.t), e.P), text='$c.skipWhile({P})', uses='c k r', lams={'P': ['gt', 'mod']})
case('indexOf', 'indexOf/index_of', lambda e: r_index(e, lambda x: same_scalar(x, e.v)),
     api=lambda e, P, name: M(name, P(e.t), e.v), text='$c.indexOf($v)', uses='c v')
case('lastIndexOf', 'lastIndexOf/last_index_of', lambda e: r_index(e, lambda x: same_scalar(x, e.v), True),
     api=lambda e, P, name: M(name, P(e.t), e.v), text='$c.lastIndexOf($v)', uses='c v')
case('indexWhere', 'indexWhere/index_where', lambda e: r_index(e, e.P),
     api=lambda e, P, name: M(name, P(e.t), e.P), text='$c.indexWhere({P})', uses='c k r', lams={'P': ['gt', 'mod']})
case('lastIndexWhere', 'lastIndexWhere/last_index_where', lambda e: r_index(e, e.P, True),
     api=lambda e, P, name: M(name, P(e.t), e.P), text='$c.lastIndexWhere({P})', uses='c k r',
     lams={'P': ['gt', 'mod']})
case('slice', 'slice/slice_', r_slice,
     api=lambda e, P, name: M(name, P(e.t), e.i), text='$c.slice($i)', uses='c i', dom=lambda e: e.i >= 1)
case('splitWhere', 'splitWhere/split_where', r_split_where,
     api=lambda e, P, name: M(name, P(e.t), e.P), text='$c.splitWhere({P})', uses='c k r', lams={'P': ['gt', 'mod']})
case('sliceWhere', 'sliceWhere/slice_where', r_slice_where,
     api=lambda e, P, name: M(name, P(e.t), e.P), text='$c.sliceWhere({P})', uses='c k r', lams={'P': ['id', 'gt', 'mod']})
case('splitAt', 'splitAt/split_at',
     lambda e: [[x for n, x in enumerate(e.t) if n < e.i], [x for n, x in enumerate(e.t) if n >= e.i]],
     api=lambda e, P, name: M(name, P(e.t), e.i), text='$c.splitAt($i)', uses='c i', dom=lambda e: e.i >= 0)
case('aggregate', ['aggregate/aggregate', 'reduce/aggregate'], lambda e: r_reduce(e, e.t, None, False),
     api=lambda e, P, name: M(name, P(e.t), e.B), text='$c.{name}({B})', uses='c', dom=lambda e: e.n > 0,
     lams={'B': ['add2', 'snd2']})
case('aggregate.seed', ['aggregate/aggregate', 'reduce/aggregate'], lambda e: r_reduce(e, e.t, e.i, True),
     api=lambda e, P, name: M(name, P(e.t), e.B, e.i), text='$c.{name}({B}, $i)', uses='c i',
     lams={'B': ['add2', 'fst2']})
case('accumulate', 'accumulate/accumulate', lambda e: r_accumulate(e, False),
     api=lambda e, P, name: M(name, P(e.t), e.B), text='$c.accumulate({B})', uses='c', dom=lambda e: e.n > 0,
     lams={'B': ['add2', 'snd2']})
case('accumulate.seed', 'accumulate/accumulate', lambda e: r_accumulate(e, True),
     api=lambda e, P, name: M(name, P(e.t), e.B, e.i), text='$c.accumulate({B}, $i)', uses='c i',
     lams={'B': ['add2', 'fst2']})
case('reverse', 'reverse/reverse', lambda e: [e.t[e.n - 1 - n] for n in range(e.n)],
     api=lambda e, P, name: M(name, P(e.t)), text='$c.reverse()', uses='c')


# mergeWith: dictionaries built from presence selectors i, j in 0..3 (keys a, b) and the values of c, d
def mw_flat(e):
    return flat_dict(e.i, e.t[0], e.t[1]), flat_dict(e.j, e.u[0], e.u[1])


def mw_deep(e):
    d1 = {'n': flat_dict(e.i, e.t[0], e.t[1]), 'l': [e.t[0], e.t[1]], 'x': e.k}
    d2 = {'n': flat_dict(e.j, e.u[0], e.u[1]), 'l': [e.u[0], e.u[1]], 'x': e.r}
    return d1, d2


def mw_levels(e):
    """two common sub-dictionaries before a common list, three levels deep: the level budget of one key must not
    depend on what was merged for the keys before it"""
    d1 = {'n': {'m': {'a': e.t[0]}, 'x': e.k}, 'p': {'q': {'z': e.k}, 'l': [e.t[0]]}, 'l': [e.t[1]]}
    d2 = {'n': {'m': {'a': e.u[0]}, 'x': e.r}, 'p': {'q': {'z': e.r}, 'l': [e.u[0]]}, 'l': [e.u[1]]}
    return d1, d2


def mw_nested(e):
    return ({'n': flat_dict(e.i, e.t[0], e.t[1]), 'x': e.k, 'y': e.k},
            {'n': flat_dict(e.j, e.u[0], e.u[1]), 'x': e.r, 'z': e.r})


def mw_lists(e):
    return {'l': list(e.t), 'x': 1}, {'l': list(e.u)}


MW = {'mergeWith.flat': mw_flat, 'mergeWith.nested': mw_nested, 'mergeWith.lists': mw_lists,
      'mergeWith.levels': mw_levels}


def mw_dom(e):
    return e.n == 2 and len(e.u) == 2 and 0 <= e.i <= 3 and 0 <= e.j <= 3


def second(a, b):
    return b


case('mergeWith.flat', 'mergeWith/merge_with',
     lambda e: r_merge(mw_flat(e)[0], mw_flat(e)[1], lambda a, b: uniq(a + b), second, 0),
     api=lambda e, P, name: M(name, freeze(mw_flat(e)[0]), freeze(mw_flat(e)[1])),
     text='$w1.mergeWith($w2)', uses='c d i j', dom=mw_dom, nones=False, pres=('tuple',))
case('mergeWith.nested', 'mergeWith/merge_with',
     lambda e: r_merge(mw_nested(e)[0], mw_nested(e)[1], lambda a, b: uniq(a + b), second, 0),
     api=lambda e, P, name: M(name, freeze(mw_nested(e)[0]), freeze(mw_nested(e)[1])),
     text='$w1.mergeWith($w2)', uses='c d i j k r', dom=mw_dom, nones=False, pres=('tuple',), cost=2)
case('mergeWith.lists', 'mergeWith/merge_with',
     lambda e: r_merge(mw_lists(e)[0], mw_lists(e)[1], lambda a, b: uniq(a + b), second, 0),
     api=lambda e, P, name: M(name, freeze(mw_lists(e)[0]), freeze(mw_lists(e)[1])),
     text='$w1.mergeWith($w2)', uses='c d', dom=lambda e: e.n <= 2 and len(e.u) <= 2, nones=False, pres=('tuple',),
     cost=2)
case('mergeWith.mergers', 'mergeWith/merge_with',
     lambda e: r_merge(mw_deep(e)[0], mw_deep(e)[1], lambda a, b: a + b, lambda a, b: a, 0),
     api=lambda e, P, name: M(name, freeze(mw_deep(e)[0]), freeze(mw_deep(e)[1]), e.L, e.I),
     text='$w1.mergeWith($w2, {L}, {I})', uses='c d i j k r', dom=mw_dom, nones=False, pres=('tuple',),
     lams={'L': ['cat2'], 'I': ['fst2']}, cost=2)
case('mergeWith.maxLevels', 'mergeWith/merge_with',
     lambda e: r_merge(mw_deep(e)[0], mw_deep(e)[1], lambda a, b: uniq(a + b), second, 1),
     api=lambda e, P, name: M(name, freeze(mw_deep(e)[0]), freeze(mw_deep(e)[1]), maxLevels=1),
     text='$w1.mergeWith($w2, maxLevels => 1)', uses='c d i j k r', dom=mw_dom, nones=False, pres=('tuple',), cost=2)
case('mergeWith.levels', 'mergeWith/merge_with',
     lambda e: r_merge(mw_levels(e)[0], mw_levels(e)[1], lambda a, b: uniq(a + b), second, e.v),
     api=lambda e, P, name: M(name, freeze(mw_levels(e)[0]), freeze(mw_levels(e)[1]), maxLevels=e.v),
     text='$w1.mergeWith($w2, maxLevels => $v)', uses='c d k r v',
     dom=lambda e: e.n == 2 and len(e.u) == 2 and 0 <= e.v <= 4, nones=False, pres=('tuple',), cost=2)


def kind_dom(e):
    return 0 <= e.i < len(KIND_OBJECTS)


for _n, (_fn, _col) in enumerate((('isList', 1), ('isDict', 2), ('isSet', 3), ('isIterable', 4))):
    case(_fn, '%s/%s' % (_fn, {'isList': 'is_list', 'isDict': 'is_dict', 'isSet': 'is_set',
                               'isIterable': 'is_iterable'}[_fn]),
         (lambda col: lambda e: KIND_OBJECTS[e.i][col])(_col),
         api=lambda e, P, name: F(name, KIND_OBJECTS[e.i][0](e)), text='%s($obj)' % _fn, uses='c v i',
         dom=kind_dom, pres=('tuple',), raw=True)

case('generate', 'generate/generate', lambda e: r_generate(e),
     api=lambda e, P, name: F(name, e.i, lambda x: x < e.j, lambda x: x + e.r),
     text='generate($i, $ < $j, $ + $r)', uses='i j r',
     dom=lambda e: 1 <= e.r <= 2 and -1 <= e.j - e.i <= 4, pres=('tuple',))
case('generate.selector', 'generate/generate', lambda e: r_generate(e, e.S),
     api=lambda e, P, name: F(name, e.i, lambda x: x < e.j, lambda x: x + e.r, e.S),
     text='generate($i, $ < $j, $ + $r, {S})', uses='i j r k',
     dom=lambda e: 1 <= e.r <= 2 and -1 <= e.j - e.i <= 3, pres=('tuple',), lams={'S': ['pair', 'mul']})
case('generate.decycle', 'generate/generate', r_generate_decycle,
     api=lambda e, P, name: F(name, e.i, lambda x: True, lambda x: (x + 1) % 3, None, True),
     text='generate($i, true, ($ + 1) mod 3, decycle => true)', uses='i',
     dom=lambda e: 0 <= e.i <= 2, pres=('tuple',))


def gm_dom(e):
    return 0 <= e.i <= 4 and 0 <= e.j <= 1 and -1 <= e.r <= 1


case('generateMany', 'generateMany/generate_many',
     lambda e: r_generate_many(e, TREES[e.j], e.r == 1, False, lambda x: x),
     api=lambda e, P, name: F(name, e.i, lambda x: TREES[e.j][x], None, False, e.r == 1),
     text='generateMany($i, $trees[$j].get($), depthFirst => $r = 1)', uses='i j r', dom=gm_dom, pres=('tuple',),
     cost=2)
case('generateMany.selector', 'generateMany/generate_many',
     lambda e: r_generate_many(e, TREES[e.j], e.r == 1, False, e.S),
     api=lambda e, P, name: F(name, e.i, lambda x: TREES[e.j][x], e.S, False, e.r == 1),
     text='generateMany($i, $trees[$j].get($), {S}, depthFirst => $r = 1)', uses='i j r k', dom=gm_dom,
     pres=('tuple',), lams={'S': ['add', 'pair']}, cost=2)
case('generateMany.decycle', 'generateMany/generate_many',
     lambda e: r_generate_many(e, TREES[2], e.r == 1, True, lambda x: x),
     api=lambda e, P, name: F(name, e.i, lambda x: TREES[2][x], None, True, e.r == 1),
     text='generateMany($i, $trees[2].get($), decycle => true, depthFirst => $r = 1)', uses='i r',
     dom=lambda e: 0 <= e.i <= 4 and -1 <= e.r <= 1, pres=('tuple',), cost=2)
case('defaultIfEmpty', 'defaultIfEmpty/default_if_empty', lambda e: T(e) if e.n else U(e),
     api=lambda e, P, name: M(name, P(e.t), P(e.u)), text='$c.defaultIfEmpty($d)', uses='c d')

# the same memorized value used twice in one expression: two live, interleaved iterations over one memorized collection
# must not share a cursor (for the tuple presentation memorize() returns the list itself: the contrast case)
def _memo(e, P, name):
    return M(name, P(e.t))


def a_memo_zip(e, P, name):
    mm = _memo(e, P, name)
    return M('zip', mm, mm)


def a_memo_join(e, P, name):
    mm = _memo(e, P, name)
    return M('join', mm, mm, e.B, e.C)


def a_memo_nested(e, P, name):
    mm = _memo(e, P, name)
    return M('select', mm, lambda x: (x, M('count', mm)))


def a_memo_select_many(e, P, name):
    mm = _memo(e, P, name)
    return M('selectMany', mm, lambda x: mm)


def a_memo_where_in(e, P, name):
    mm = _memo(e, P, name)
    return M('where', mm, lambda x: F('#operator_in', x, mm))


case('memorize.zip', 'memorize/memorize', lambda e: [[x, x] for x in e.t], api=a_memo_zip,
     text='let(mm => $c.memorize()) -> $mm.zip($mm)', uses='c')
case('memorize.join', 'memorize/memorize', lambda e: [e.C(x, y) for x in e.t for y in e.t if e.B(x, y)],
     api=a_memo_join, text='let(mm => $c.memorize()) -> $mm.join($mm, {B}, {C})', uses='c',
     lams={'B': ['ge2', 'eq2'], 'C': ['pair2']}, cost=2)
case('memorize.nested', 'memorize/memorize', lambda e: [[x, e.n] for x in e.t], api=a_memo_nested,
     text='let(mm => $c.memorize()) -> $mm.select([$, $mm.count()])', uses='c')
case('memorize.selectMany', 'memorize/memorize', lambda e: [y for x in e.t for y in e.t], api=a_memo_select_many,
     text='let(mm => $c.memorize()) -> $mm.selectMany($mm)', uses='c')
case('memorize.where.in', 'memorize/memorize', lambda e: T(e), api=a_memo_where_in,
     text='let(mm => $c.memorize()) -> $mm.where($ in $mm)', uses='c')


def a_default_zip(e, P, name):
    mm = M(name, P(e.t), tuple(e.u))      # the default is a list: only the receiver is one-shot
    return M('zip', mm, mm)


case('defaultIfEmpty.zip', 'defaultIfEmpty/default_if_empty',
     lambda e: [[x, x] for x in (e.t if e.n else e.u)], api=a_default_zip,
     text='let(mm => $c.defaultIfEmpty($dt)) -> $mm.zip($mm)', uses='c d', pres=('tuple', 'iter'))

# --- collections -----------------------------------------------------------------------------------------------
case('list.scalars', 'list/list_', lambda e: [e.v, e.i],
     api=lambda e, P, name: F(name, e.v, e.i), text='list($v, $i)', uses='v i', pres=('tuple',))
case('list.iterator', 'list/list_', lambda e: [e.v] + T(e) + [e.i],
     api=lambda e, P, name: F(name, e.v, P(e.t), e.i), text='list($v, $c, $i)', uses='c v i', pres=('iter',))
case('toList', 'toList/to_list', lambda e: T(e),
     api=lambda e, P, name: M(name, P(e.t)), text='$c.toList()', uses='c')
case('flatten', 'flatten/flatten', lambda e: T(e) + U(e) + [e.v],
     api=lambda e, P, name: M(name, P(tuple(e.t) + (P(e.u), e.v))), text='$nested.flatten()', uses='c d v')
case('build_list', '#list/build_list', lambda e: [e.v, e.i, e.k],
     text='[$v, $i, $k]', uses='v i k', pres=('tuple',))
case('build_map', '#map/dict_', lambda e: as_dict(*dict_of([('a', e.v), ('b', e.i)])),
     text='{a => $v, b => $i}', uses='v i', pres=('tuple',))
case('build_map.keys', '#map/dict_', lambda e: as_dict(*dict_of([(e.k, e.v), (e.r, e.i)])),
     text='{$k => $v, $r => $i}', uses='v i k r', pres=('tuple',))
case('dict.kwargs', 'dict/dict_', lambda e: as_dict(*dict_of([('a', e.v), ('b', e.i)])),
     api=lambda e, P, name: F(name, yutils.MappingRule('a', e.v), yutils.MappingRule('b', e.i)),
     text='dict(a => $v, b => $i)', uses='v i', pres=('tuple',))
case('dict.items', 'dict/dict__', lambda e: as_dict(*dict_of(e.pairs())),
     api=lambda e, P, name: F(name, P(e.pairs())), text='dict($pp)', uses='c d', dom=lambda e: e.n == len(e.u),
     nones=False)
case('toDict', 'toDict/to_dict', lambda e: as_dict(*dict_of([(e.K(x), x) for x in e.t])),
     api=lambda e, P, name: M(name, P(e.t), e.K), text='$c.toDict({K})', uses='c k', lams={'K': ['id', 'par', 'gtk']})
case('toDict.value', 'toDict/to_dict', lambda e: as_dict(*dict_of([(e.K(x), e.V(x)) for x in e.t])),
     api=lambda e, P, name: M(name, P(e.t), e.K, e.V), text='$c.toDict({K}, {V})', uses='c k',
     lams={'K': ['par', 'id'], 'V': ['mul', 'pair']})


def m_dom(e):
    return e.n == len(e.u)


def m_model(e):
    return dict_of(e.pairs())


def r_present(e, key):
    ks, vs = m_model(e)
    if not has(ks, key):
        raise Fail()
    return lookup(ks, vs, key)


case('dict.keyword', '#operator_./dict_keyword_access', lambda e: e.v,
     text='$ma.a', uses='v i', pres=('tuple',))
case('dict.indexer', '#indexer/dict_indexer', lambda e: lookup(*m_model(e), e.k),
     api=lambda e, P, name: F(name, e.m(), e.k), text='$m[$k]', uses='c d k', dom=lambda e: m_dom(e) and has(e.t, e.k), nones=False, pres=('tuple',))
case('dict.indexer.default', '#indexer/dict_indexer_with_default', lambda e: lookup(*m_model(e), e.k, e.v),
     api=lambda e, P, name: F(name, e.m(), e.k, e.v), text='$m[$k, $v]', uses='c d k v', dom=m_dom, nones=False, pres=('tuple',))
case('get', 'get/dict_get', lambda e: lookup(*m_model(e), e.k, None),
     api=lambda e, P, name: M(name, e.m(), e.k), text='$m.get($k)', uses='c d k', dom=m_dom, nones=False,
     pres=('tuple',))
case('get.default', 'get/dict_get', lambda e: lookup(*m_model(e), e.k, e.v),
     api=lambda e, P, name: M(name, e.m(), e.k, e.v), text='$m.get($k, $v)', uses='c d k v', dom=m_dom, nones=False,
     pres=('tuple',))
case('dict.set', 'set/dict_set', lambda e: as_dict(*dict_of(list(e.pairs()) + [(e.k, e.v)])),
     api=lambda e, P, name: M(name, e.m(), e.k, e.v), text='$m.set($k, $v)', uses='c d k v', dom=m_dom, nones=False,
     pres=('tuple',))
case('dict.set.many', 'set/dict_set_many',
     lambda e: as_dict(*dict_of(list(e.pairs()) + [(e.i, e.j), (e.k, e.r)])),
     api=lambda e, P, name: M(name, e.m(), e.m2()), text='$m.set($m2)', uses='c d i j k r',
     dom=lambda e: m_dom(e) and 0 <= e.i <= 1, nones=False, pres=('tuple',))
case('dict.set.inline', 'set/dict_set_many_inline',
     lambda e: as_dict(*dict_of([('a', e.i), ('z', e.j)] + [('a', e.v), ('b', e.k)])),
     text='$mz.set(a => $v, b => $k)', uses='i j v k', pres=('tuple',))
case('keys', 'keys/dict_keys', lambda e: Weak(lambda got: same_multiset(got, m_model(e)[0]), 'the keys, any order'),
     api=lambda e, P, name: M('toList', M(name, e.m())), text='$m.keys().toList()', uses='c d', dom=m_dom,
     nones=False, pres=('tuple',))
case('values', 'values/dict_values',
     lambda e: Weak(lambda got: same_multiset(got, m_model(e)[1]), 'the values, any order'),
     api=lambda e, P, name: M('toList', M(name, e.m())), text='$m.values().toList()', uses='c d', dom=m_dom,
     nones=False, pres=('tuple',))
case('items', 'items/dict_items',
     lambda e: Weak(lambda got: same_multiset(got, [[a, b] for a, b in zip(*m_model(e))]), 'the pairs, any order'),
     api=lambda e, P, name: M('toList', M(name, e.m())), text='$m.items().toList()', uses='c d', dom=m_dom,
     nones=False, pres=('tuple',))
case('in', '#operator_in/in_', lambda e: has(e.t, e.v), api=lambda e, P, name: F(name, e.v, P(e.t)),
     text='$v in $c', uses='c v')
case('contains', 'contains/contains', lambda e: has(e.t, e.v),
     api=lambda e, P, name: M(name, P(e.t), e.v), text='$c.contains($v)', uses='c v')
case('containsKey', 'containsKey/contains_key', lambda e: has(m_model(e)[0], e.k),
     api=lambda e, P, name: M(name, e.m(), e.k), text='$m.containsKey($k)', uses='c d k', dom=m_dom, nones=False,
     pres=('tuple',))
case('containsValue', 'containsValue/contains_value', lambda e: has(m_model(e)[1], e.k),
     api=lambda e, P, name: M(name, e.m(), e.k), text='$m.containsValue($k)', uses='c d k', dom=m_dom, nones=False,
     pres=('tuple',))
case('plus.lists', '#operator_+/combine_lists', lambda e: T(e) + U(e), api=lambda e, P, name: F(name, P(e.t), P(e.u)),
     text='$c + $d', uses='c d')
case('plus.sets', '#operator_+/combine_lists', lambda e: set(T(e) + U(e)), api=lambda e, P, name: F(name, e.s(), e.s2()),
     text='$s + $s2', uses='c d',
     pres=('tuple',))
case('times.list.int', '#operator_*/list_by_int', lambda e: [x for _ in range(e.i) for x in e.t],
     api=lambda e, P, name: F(name, e.t, e.i), text='$c * $i', uses='c i', dom=lambda e: 0 <= e.i <= 3,
     pres=('tuple',))
case('times.int.list', '#operator_*/int_by_list', lambda e: [x for _ in range(e.i) for x in e.t],
     api=lambda e, P, name: F(name, e.i, e.t), text='$i * $c', uses='c i', dom=lambda e: 0 <= e.i <= 3,
     pres=('tuple',))
case('plus.dicts', '#operator_+/combine_dicts',
     lambda e: as_dict(*dict_of(list(e.pairs()) + [(e.i, e.j), (e.k, e.r)])),
     api=lambda e, P, name: F(name, e.m(), e.m2()), text='$m + $m2', uses='c d i j k r', dom=lambda e: m_dom(e) and 0 <= e.i <= 1, nones=False, pres=('tuple',))
case('len.dict', 'len/dict_len', lambda e: len(m_model(e)[0]),
     api=lambda e, P, name: M(name, e.m()), text='$m.len()', uses='c d', dom=m_dom, nones=False, pres=('tuple',))
case('len.set', 'len/set_len', lambda e: len(uniq(e.t)),
     api=lambda e, P, name: M(name, e.s()), text='$s.len()', uses='c', pres=('tuple',))
case('delete', 'delete/delete', lambda e: [x for n, x in enumerate(e.t) if not window(e, n, e.i, e.j)],
     api=lambda e, P, name: M(name, P(e.t), e.i, e.j), text='$c.delete($i, $j)', uses='c i j',
     dom=lambda e: e.j >= -2, cost=2)
case('delete.one', 'delete/delete', lambda e: [x for n, x in enumerate(e.t) if n != e.i],
     api=lambda e, P, name: M(name, P(e.t), e.i), text='$c.delete($i)', uses='c i')
case('replace', 'replace/replace', lambda e: r_replace(e, e.i, [e.v], e.j),
     api=lambda e, P, name: M(name, P(e.t), e.i, e.v, e.j), text='$c.replace($i, $v, $j)', uses='c i j v',
     dom=lambda e: e.j >= -2, cost=2)
case('replace.one', 'replace/replace', lambda e: r_replace(e, e.i, [e.v], 1),
     api=lambda e, P, name: M(name, P(e.t), e.i, e.v), text='$c.replace($i, $v)', uses='c i v')
case('replaceMany', 'replaceMany/replace_many', lambda e: r_replace(e, e.i, e.u, e.j),
     api=lambda e, P, name: M(name, P(e.t), e.i, P(e.u), e.j), text='$c.replaceMany($i, $d, $j)', uses='c d i j',
     dom=lambda e: e.j >= -2, cost=3)
case('replaceMany.one', 'replaceMany/replace_many', lambda e: r_replace(e, e.i, e.u, 1),
     api=lambda e, P, name: M(name, P(e.t), e.i, P(e.u)), text='$c.replaceMany($i, $d)', uses='c d i', cost=2)


def r_delete_keys(e, keys):
    ks, vs = m_model(e)
    return as_dict(*dict_of([(a, b) for a, b in zip(ks, vs) if not has(keys, a)]))


case('dict.delete', 'delete/delete_keys', lambda e: r_delete_keys(e, [e.k, e.r]),
     api=lambda e, P, name: M(name, e.m(), e.k, e.r), text='$m.delete($k, $r)', uses='c d k r', dom=m_dom,
     nones=False, pres=('tuple',))
case('deleteAll', 'deleteAll/delete_keys_seq', lambda e: r_delete_keys(e, [e.k, e.r]),
     api=lambda e, P, name: M(name, e.m(), P((e.k, e.r))), text='$m.deleteAll($kr)', uses='c d k r', dom=m_dom,
     nones=False)
# persistent update: the base of an update is still the base afterwards, also when the base is itself the (plain)
# result of an earlier library call bound to a variable
case('dict.delete.persistent', ['delete/delete_keys', 'deleteAll/delete_keys_seq'],
     lambda e: [r_delete_keys(e, [e.k, e.r]), as_dict(*m_model(e)), r_delete_keys(e, [e.k]), as_dict(*m_model(e))],
     text='let(b => $m.deleteAll([])) -> [$b.delete($k, $r), $b, $b.deleteAll([$k]), $b]', uses='c d k r', dom=m_dom,
     nones=False, pres=('tuple',), cost=2)
case('insert.iterator', 'insert/iter_insert', lambda e: r_insert(e, e.i, [e.v]),
     api=lambda e, P, name: M(name, P(e.t), e.i, e.v), text='$c.insert($i, $v)', uses='c i v', pres=('iter',))
case('insert.list', 'insert/list_insert', lambda e: r_insert(e, e.i, [e.v]),
     api=lambda e, P, name: M(name, P(e.t), e.i, e.v), text='$c.insert($i, $v)', uses='c i v', pres=('tuple',))
case('insertMany', 'insertMany/insert_many', lambda e: r_insert(e, e.i, e.u),
     api=lambda e, P, name: M(name, P(e.t), e.i, P(e.u)), text='$c.insertMany($i, $d)', uses='c d i', cost=2)
case('set', 'set/set_', lambda e: set([e.v, e.i, e.k]),
     api=lambda e, P, name: F(name, e.v, e.i, e.k), text='set($v, $i, $k)', uses='v i k', pres=('tuple',))
case('set.iterator', 'set/set_', lambda e: set(T(e) + [e.v]),
     api=lambda e, P, name: F(name, P(e.t), e.v), text='set($c, $v)', uses='c v', pres=('iter',))
case('toSet', 'toSet/to_set', lambda e: set(uniq(e.t)),
     api=lambda e, P, name: M(name, P(e.t)), text='$c.toSet()', uses='c')


def subset(a, b):
    for x in a:
        if not has(b, x):
            return False
    return True


for _op, _pay, _f in (('<', 'set_lt', lambda a, b: subset(a, b) and len(uniq(a)) < len(uniq(b))),
                      ('<=', 'set_lte', lambda a, b: subset(a, b)),
                      ('>', 'set_gt', lambda a, b: subset(b, a) and len(uniq(a)) > len(uniq(b))),
                      ('>=', 'set_gte', lambda a, b: subset(b, a))):
    case('set' + _op, '#operator_%s/%s' % (_op, _pay), (lambda f: lambda e: f(e.t, e.u))(_f),
         api=lambda e, P, name: F(name, e.s(), e.s2()), text='$s %s $s2' % _op, uses='c d', pres=('tuple',))
case('add', 'add/set_add', lambda e: set(T(e) + [e.v, e.k]),
     api=lambda e, P, name: M(name, e.s(), e.v, e.k), text='$s.add($v, $k)', uses='c v k', pres=('tuple',))
case('remove', 'remove/set_remove', lambda e: set([x for x in e.t if not has([e.v, e.k], x)]),
     api=lambda e, P, name: M(name, e.s(), e.v, e.k), text='$s.remove($v, $k)', uses='c v k', pres=('tuple',))
case('union', 'union/union', lambda e: set(T(e) + U(e)),
     api=lambda e, P, name: M(name, e.s(), e.s2()), text='$s.union($s2)', uses='c d', pres=('tuple',))
case('intersect', 'intersect/intersect', lambda e: set([x for x in e.t if has(e.u, x)]),
     api=lambda e, P, name: M(name, e.s(), e.s2()), text='$s.intersect($s2)', uses='c d', pres=('tuple',))
case('difference', 'difference/difference', lambda e: set([x for x in e.t if not has(e.u, x)]),
     api=lambda e, P, name: M(name, e.s(), e.s2()), text='$s.difference($s2)', uses='c d', pres=('tuple',))
case('minus.sets', '#operator_-/difference', lambda e: set([x for x in e.t if not has(e.u, x)]),
     api=lambda e, P, name: F(name, e.s(), e.s2()), text='$s - $s2', uses='c d', pres=('tuple',))
case('symmetricDifference', 'symmetricDifference/symmetric_difference',
     lambda e: set([x for x in e.t if not has(e.u, x)] + [x for x in e.u if not has(e.t, x)]),
     api=lambda e, P, name: M(name, e.s(), e.s2()), text='$s.symmetricDifference($s2)', uses='c d', pres=('tuple',))
case('list.indexer', '#indexer/list_indexer', lambda e: e.t[e.i],
     api=lambda e, P, name: F(name, e.t, e.i), text='$c[$i]', uses='c i', dom=lambda e: 0 <= e.i < e.n, pres=('tuple',))

# --- system: unpack / with (anchors of the property) -----------------------------------------------------------


def r_unpack_named(e):
    if e.n != 2:
        raise Fail()       # doc: "Otherwise ValueError is raised"
    return [e.t[0], e.t[1]]


case('unpack.named', 'unpack/unpack', r_unpack_named, text='$c.unpack(a, b) -> [$a, $b]', uses='c')
case('unpack.indexed', 'unpack/unpack', lambda e: [e.t[n] if n < e.n else None for n in range(3)],
     text='$c.unpack() -> [$1, $2, $3]', uses='c', dom=lambda e: e.n <= 3)
case('with', 'with/with_', lambda e: [e.v, e.i, None], text='with($v, $i) -> [$1, $2, $3]', uses='v i',
     pres=('tuple',))

# cases whose elements/constants become dictionary keys: CrossHair realises a symbolic int when it is hashed into a real
# dict, so those are kept in a small range (elements 0..2, key constants -1..3) to keep the path tree finite
for _cid in ['build_map.keys', 'dict.items', 'toDict', 'toDict.value', 'dict.indexer', 'dict.indexer.default', 'get',
             'get.default', 'dict.set', 'dict.set.many', 'keys', 'values', 'items', 'containsKey', 'containsValue',
             'plus.dicts', 'len.dict', 'dict.delete', 'deleteAll', 'dict.delete.persistent', 'groupBy', 'groupBy.value', 'groupBy.aggregate']:
    CASES[_cid]['small'] = True

for _cid in ('insert.list', 'add', 'remove', 'set.iterator', 'enumerate.start', 'replace.one', 'splitAt', 'slice', 'cycle'):
    CASES[_cid]['cost'] = max(CASES[_cid]['cost'], 2)        # path-heavy: thorough keeps len <= 3 for these

EXTRA_KEYS = ['unpack/unpack', 'with/with_']   # registered by system.register, anchored by the property

BY_KEY = {}
for _cid in ORDER:
    for _k in CASES[_cid]['keys']:
        BY_KEY.setdefault(_k, []).append(_cid)

_VAR = re.compile(r'\$([a-z][a-z0-9]*)')


def bind(c, e, P, text):
    """context variables for the (lambda-substituted) text of case c (fresh one-shot iterators on every call)"""
    out = {}
    for name in set(_VAR.findall(text)):
        if name == 'c':
            out['c'] = P(e.t)
        elif name == 'c2':
            out['c2'] = P(e.t)
        elif name == 'd':
            out['d'] = P(e.u)
        elif name == 'dt':
            out['dt'] = tuple(e.u)
        elif name in ('i', 'j', 'k', 'r', 'v'):
            out[name] = getattr(e, name)
        elif name == 'cd':
            out['cd'] = P(tuple(FD(a=x) for x in e.t))
        elif name == 'm':
            out['m'] = e.m()
        elif name == 'm2':
            out['m2'] = e.m2()
        elif name == 'ma':
            out['ma'] = FD(a=e.v, b=e.i)
        elif name == 'mz':
            out['mz'] = FD(a=e.i, z=e.j)
        elif name in ('w1', 'w2'):
            out[name] = freeze(MW.get(c['id'], mw_deep)(e)[0 if name == 'w1' else 1])
        elif name == 's':
            out['s'] = e.s()
        elif name == 's2':
            out['s2'] = e.s2()
        elif name == 'pp':
            out['pp'] = P(e.pairs())
        elif name == 'kr':
            out['kr'] = P((e.k, e.r))
        elif name == 'nested':
            out['nested'] = P(tuple(e.t) + (P(e.u), e.v))
        elif name == 'obj':
            out['obj'] = KIND_OBJECTS[e.i][0](e)
        elif name == 'trees':
            out['trees'] = tuple(FD((k2, v2) for k2, v2 in tr.items()) for tr in TREES)
    return out
