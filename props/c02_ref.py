"""C02 helpers: reference reading of an operator table (list of groups), precedence-climbing reference parser
parameterised ONLY by the table, tree dump of the real parser's output, text assembly, insert_operator reference.

Nothing here imports the parser's precedence data: the reference sees `factory.operators` (the public list) only.
"""
from yaql.language import expressions
from yaql.language import factory as yfactory

OT = yfactory.OperatorType
PREFIX, SUFFIX, LEFT, RIGHT, NVP = (OT.PREFIX_UNARY, OT.SUFFIX_UNARY, OT.BINARY_LEFT_ASSOCIATIVE,
                                    OT.BINARY_RIGHT_ASSOCIATIVE, OT.NAME_VALUE_PAIR)
KINDS = [PREFIX, SUFFIX, LEFT, RIGHT]
BIG = 10 ** 6


def groups_of(operators):
    """list-of-groups reading of the flat table: () separates groups, earlier group = tighter"""
    groups, cur = [], []
    for rec in operators:
        if not rec:
            if cur:
                groups.append(cur)
            cur = []
            continue
        cur.append(tuple(rec))
    if cur:
        groups.append(cur)
    return groups


def flat_of(groups):
    out = []
    for i, g in enumerate(groups):
        if i:
            out.append(())
        out.extend(g)
    return out


def is_normal_form(operators):
    """no leading/trailing/double separators (an empty group would shift the level numbering)"""
    prev_sep = True
    for rec in operators:
        if not rec:
            if prev_sep:
                return False
            prev_sep = True
        else:
            prev_sep = False
    return not prev_sep if operators else True


def homogeneous(groups):
    """the property's side condition: a group is binary of one associativity with optional prefix operators,
    or only suffix operators"""
    for g in groups:
        kinds = set(r[1] for r in g if r[1] != NVP)
        if not (kinds <= {PREFIX, LEFT} or kinds <= {PREFIX, RIGHT} or kinds <= {SUFFIX}):
            return False
    return True


class Table:
    """what the property says a table means"""

    def __init__(self, operators):
        self.groups = groups_of(operators)
        self.binp, self.prep, self.sufp = {}, {}, {}
        self.alias = {}
        self.nvp = None
        self.records_of = {}
        for lvl, g in enumerate(self.groups):
            assoc = None
            for r in g:
                if r[1] == LEFT:
                    assoc = 'l'
                elif r[1] == RIGHT:
                    assoc = 'r'
            for r in g:
                sym, kind = r[0], r[1]
                if kind == NVP:
                    self.nvp = sym
                    continue
                self.records_of.setdefault(sym, []).append(r)
                self.alias[sym] = r[2] if len(r) > 2 else None
                if kind == LEFT:
                    self.binp[sym] = (lvl, 'l')
                elif kind == RIGHT:
                    self.binp[sym] = (lvl, 'r')
                elif kind == PREFIX:
                    # tie rule: in a left-associative group the prefix operator closes before a same-level binary
                    # operator, in a right-associative group it does not
                    self.prep[sym] = (lvl, lvl - 1 if assoc == 'l' else lvl)
                elif kind == SUFFIX:
                    self.sufp[sym] = lvl
        self.binops = [s for s in self.binp if s not in ('[]', '{}')]
        self.preops = list(self.prep)
        self.sufops = list(self.sufp)

    def func_name(self, sym, unary):
        """None when the table gives two records for the symbol (alias of such a pair is not specified)"""
        if len(self.records_of.get(sym, ())) != 1:
            return None
        a = self.alias.get(sym)
        if a is not None:
            return '*' + a
        return ('#unary_operator_' if unary else '#operator_') + sym


# ------------------------------------------------------------------ reference parser
# tokens: ('v', '$a') ('kw', 'name') ('bin', sym) ('pre', sym) ('suf', sym) ('(',) (')',) ('[',) (']',) ('{',) ('}',)
#         ('f(', name) (',',) ('=>',)
def ref_parse(tokens, tab):
    pos = [0]

    def peek():
        return tokens[pos[0]] if pos[0] < len(tokens) else (None,)

    def take(kind=None):
        t = tokens[pos[0]]
        if kind is not None and t[0] != kind:
            raise ValueError('reference parser: expected %r at %d in %r' % (kind, pos[0], tokens))
        pos[0] += 1
        return t

    def args(close):
        out = []
        if peek()[0] == close:
            take()
            return out
        while True:
            e = expr(BIG)
            if peek()[0] == '=>':
                take()
                e = ('=>', e, expr(BIG))
            out.append(e)
            if peek()[0] == ',':
                take()
                continue
            take(close)
            return out

    def primary():
        t = take()
        k = t[0]
        if k == 'v':
            return ('V', t[1])
        if k == 'kw':
            return ('K', t[1])
        if k == '(':
            e = expr(BIG)
            take(')')
            return e
        if k == '[':
            return ('L', args(']'))
        if k == '{':
            return ('M', args('}'))
        if k == 'f(':
            return ('F', t[1], args(')'))
        if k == 'pre':
            lvl, operand_max = tab.prep[t[1]]
            return ('U', t[1], expr(operand_max))
        raise ValueError('reference parser: unexpected %r in %r' % (t, tokens))

    def expr(maxlvl):
        left = primary()
        while True:
            t = peek()
            if t[0] == 'bin':
                lvl, assoc = tab.binp[t[1]]
                if lvl > maxlvl:
                    break
                take()
                right = expr(lvl - 1 if assoc == 'l' else lvl)
                left = ('B', t[1], left, right)
            elif t[0] == 'suf':
                lvl = tab.sufp[t[1]]
                if lvl > maxlvl:
                    break
                take()
                left = ('U', t[1], left)
            elif t[0] == '[' and '[]' in tab.binp:
                lvl, assoc = tab.binp['[]']
                if lvl > maxlvl:
                    break
                take()
                left = ('I', left, args(']'))
            else:
                break
        return left

    e = expr(BIG)
    if pos[0] != len(tokens):
        raise ValueError('reference parser: trailing tokens in %r' % (tokens,))
    return e


def dump(e):
    """tree under Statement.expression; Wrap is transparent"""
    if isinstance(e, expressions.Statement):
        return dump(e.expression)
    if isinstance(e, expressions.BinaryOperator):
        return ('B', e.operator, dump(e.args[0]), dump(e.args[1]))
    if isinstance(e, expressions.UnaryOperator):
        return ('U', e.operator, dump(e.args[0]))
    if isinstance(e, expressions.Wrap):
        return dump(e.expr)
    if isinstance(e, expressions.GetContextValue):
        return ('V', e.path.value)
    if isinstance(e, expressions.IndexExpression):
        return ('I', dump(e.args[0]), [dump(a) for a in e.args[1:]])
    if isinstance(e, expressions.ListExpression):
        return ('L', [dump(a) for a in e.args])
    if isinstance(e, expressions.MapExpression):
        return ('M', [dump(a) for a in e.args])
    if isinstance(e, expressions.MappingRuleExpression):
        return ('=>', dump(e.source), dump(e.destination))
    if isinstance(e, expressions.KeywordConstant):
        return ('K', e.value)
    if isinstance(e, expressions.Constant):
        return ('C', e.value)
    if isinstance(e, expressions.Function):
        return ('F', e.name, [dump(a) for a in e.args])
    return ('?', repr(e))


def names_ok(e, tab):
    """function names carried by operator nodes = '*alias' or '#operator_<sym>' / '#unary_operator_<sym>'"""
    if isinstance(e, expressions.Statement):
        return names_ok(e.expression, tab)
    if isinstance(e, expressions.Wrap):
        return names_ok(e.expr, tab)
    if isinstance(e, expressions.MappingRuleExpression):
        return names_ok(e.source, tab) and names_ok(e.destination, tab)
    if isinstance(e, (expressions.BinaryOperator, expressions.UnaryOperator)):
        exp = tab.func_name(e.operator, isinstance(e, expressions.UnaryOperator))
        if exp is not None and e.name != exp:
            return False
    if isinstance(e, expressions.Function):
        return all(names_ok(a, tab) for a in e.args if isinstance(a, expressions.Expression))
    return True


# ------------------------------------------------------------------ text assembly
def tok_text(t):
    k = t[0]
    if k in ('v', 'kw', 'bin', 'pre', 'suf'):
        return t[1]
    if k == 'f(':
        return t[1] + '('
    return k


def render(tokens, ws=0):
    """ws 0: one blank between tokens; 1: mixed blanks/tabs/newlines, also at both ends; 2: minimal (no white space
    where the two neighbours cannot merge into another token: never between two operator symbols, never next
    to a word)"""
    texts = [tok_text(t) for t in tokens]
    if ws == 0:
        return ' '.join(texts)
    if ws == 1:
        seps = ['  ', '\t', '\n ', ' \r\n', ' ']
        out = ['\n ']
        for i, s in enumerate(texts):
            out.append(s)
            out.append(seps[i % len(seps)])
        return ''.join(out)
    out = []
    for i, s in enumerate(texts):
        if i:
            a, b = tokens[i - 1], tokens[i]
            pa, pb = texts[i - 1], s
            glue = True
            opish = ('bin', 'pre', 'suf', '=>')
            if a[0] in opish and b[0] in opish:
                glue = False                       # '-' '>' must not become '->'
            elif (pa[-1].isalnum() or pa[-1] == '_') and (pb[0].isalnum() or pb[0] == '_'):
                glue = False                       # words / word operators
            elif pa[-1] == '$' and (pb[0].isalnum() or pb[0] == '_'):
                glue = False
            elif a[0] in opish and pa[-1].isalpha() and b[0] == '(':
                glue = False                       # 'not(' would lex as a function call
            elif b[0] in opish and pb[0].isalpha() and pa[-1] == '$':
                glue = False                       # '$' followed by a word operator would lex as one variable
            if not glue:
                out.append(' ')
        out.append(s)
    return ''.join(out)


# ------------------------------------------------------------------ insert_operator reference (list of groups)
def ref_insert(groups, anchor, anchor_binary, new_record, create_group):
    """returns the new list of groups, or None for ValueError"""
    groups = [list(g) for g in groups]
    if anchor is None:
        if create_group or not groups:
            groups.insert(0, [new_record])
        else:
            groups[0].insert(0, new_record)
        return groups
    want = (LEFT, RIGHT) if anchor_binary else (PREFIX, SUFFIX)
    for gi, g in enumerate(groups):
        if any(r[0] == anchor and r[1] in want for r in g):
            if create_group:
                groups.insert(gi + 1, [new_record])
            else:
                g.append(new_record)
            return groups
    return None
