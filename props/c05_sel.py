"""Shared machinery of C05/C06: overload *selection* (runner.choose_overload + _is_specialization_of, real code)
driven with candidate stubs whose answers are symbolic but constrained to their contract, a reference written
from the property text, and a builder that turns an assignment into REAL overloads for replay.
"""
from yaql.language import exceptions, expressions, runner, specs, utils, yaqltypes

PERMS3 = [[0, 1, 2], [0, 2, 1], [1, 0, 2], [1, 2, 0], [2, 0, 1], [2, 1, 0]]


class TStub:
    """value_type stub: specialization is answered from a matrix (contract: strict partial order per position)"""
    def __init__(self, cid, pos, S):
        self.cid, self.pos, self.S = cid, pos, S

    def is_specialization_of(self, other):
        return self.S[self.pos][self.cid][other.cid]


class LazyTStub(TStub, yaqltypes.LazyParameterType):
    pass


class PStub:
    def __init__(self, value_type):
        self.value_type = value_type


class Probe(expressions.Expression):
    """argument expression that counts its evaluations"""
    def __init__(self, tag, log):
        self.tag, self.log = tag, log

    def __call__(self, receiver, context, engine):
        self.log.append(('eval', self.tag))
        return ('value', self.tag)


def _stub_payload(*args, **kwargs):
    return None


class CStub(specs.FunctionDefinition):
    """a real FunctionDefinition (so whatever the runner reads from one is there) whose argument mapping and delegate are
    dictated by the harness"""

    def __init__(self, cid, nokw, maps, deleg, lazy, S, log):
        specs.FunctionDefinition.__init__(self, 'stub%s' % (cid,), _stub_payload, no_kwargs=nokw)
        self.cid, self.maps, self.deleg, self.lazy, self.S, self.log = cid, maps, deleg, lazy, S, log

    def map_args(self, args, kwargs, context, engine):
        if not self.maps:
            return None
        n = len(args) + len(kwargs)
        ps = [PStub((LazyTStub if self.lazy[i] else TStub)(self.cid, i, self.S)) for i in range(n)]
        return tuple(ps[:len(args)]), {k: ps[len(args) + j] for j, k in enumerate(sorted(kwargs))}

    def get_delegate(self, receiver, engine, context, args, kwargs):
        self.log.append(('delegate', self.cid, tuple(args) + tuple(sorted(kwargs.items()))))
        if not self.deleg:
            raise exceptions.ArgumentException('x')
        return lambda: ('ran', self.cid)


def strict_po(M):
    n = len(M)
    for i in range(n):
        if M[i][i]:
            return False
        for j in range(n):
            if M[i][j] and M[j][i]:
                return False
            for k in range(n):
                if M[i][j] and M[j][k] and not M[i][k]:
                    return False
    return True


def mat3(s01, s02, s10, s12, s20, s21):
    return [[False, s01, s02], [s10, False, s12], [s20, s21, False]]


def spec_of(S, npos, i, j):
    """mapping i specializes mapping j (definition from the rules: no position where j's type is more specific,
    at least one where i's is)"""
    res = False
    for p in range(npos):
        if S[p][j][i]:
            return False
        if S[p][i][j]:
            res = True
    return res


def reference(n, npos, S, maps, deleg, lazy, nokw, layers, order, has_receiver):
    """-> (outcome, expected number of evaluations per argument position or None if unspecified)"""
    amb = 'AmbiguousMethodException' if has_receiver else 'AmbiguousFunctionException'
    nf = 'NoMatchingMethodException' if has_receiver else 'NoMatchingFunctionException'
    enum = [i for lv in sorted(set(layers)) for i in order if layers[i] == lv]
    if any(nokw[i] != nokw[enum[0]] for i in enum):
        return amb, 0
    mapped = [i for i in enum if maps[i]]
    if not mapped:
        return nf, 0
    lz = [tuple(lazy[i]) for i in mapped]
    if any(x != lz[0] for x in lz):
        return amb, 0
    for lv in sorted(set(layers)):
        m = [i for i in mapped if layers[i] == lv and deleg[i]]
        if not m:
            continue
        best = [i for i in m if all(spec_of(S, npos, i, j) for j in m if j != i)]
        if len(best) == 1:
            return ('ran', best[0]), 1
        return amb, 1
    return nf, 1


def run(n, npos, S, maps, deleg, lazy, nokw, layers, order, has_receiver, kwmode=False):
    """drive the REAL runner.choose_overload with stubs; -> (outcome, log).  kwmode: the last position is passed by keyword"""
    log = []
    cands = [CStub(i, nokw[i], maps[i], deleg[i], lazy[i], S, log) for i in range(n)]
    levels = []
    for lv in sorted(set(layers)):
        levels.append([cands[i] for i in order if layers[i] == lv])
    if has_receiver:
        receiver = ('value', 'receiver')
        args = tuple(Probe(k, log) for k in range(1, npos))
    else:
        receiver = utils.NO_VALUE
        args = tuple(Probe(k, log) for k in range(npos))
    kwargs = {}
    if kwmode and len(args) >= 1:
        kwargs = {'k1': args[-1]}
        args = args[:-1]
    try:
        out = runner.choose_overload('f', levels, None, receiver, None, args, kwargs)()
    except (exceptions.AmbiguousFunctionException, exceptions.AmbiguousMethodException,
            exceptions.NoMatchingFunctionException, exceptions.NoMatchingMethodException,
            exceptions.ArgumentException) as e:
        out = type(e).__name__
    return out, log


def evals_ok(log, npos, lazy_row, has_receiver, expect_eval):
    """eager argument expressions evaluated exactly once (if resolution got to evaluation), lazy ones never;
    every get_delegate sees the same, evaluated, argument tuple"""
    counts = {}
    for e in log:
        if e[0] == 'eval':
            counts[e[1]] = counts.get(e[1], 0) + 1
    probes = range(1, npos) if has_receiver else range(npos)
    for k in probes:
        want = 0 if (expect_eval == 0 or lazy_row[k]) else 1
        if counts.get(k, 0) != want:
            return False
    seen = [e[2] for e in log if e[0] == 'delegate']
    return all(s == seen[0] for s in seen)


def delegate_log(self, receiver, engine, context, args, kwargs):
    return tuple(args) + tuple(sorted(kwargs.items()))


# ---------------------------------------------------------------- replay with REAL overloads
def build_real(n, npos, S, maps, deleg, lazy, nokw, layers, order, has_receiver, kwmode=False):
    """returns (call, description): `call()` resolves and runs f through real contexts with an enumeration order
    controlled by a Context subclass whose get_functions returns an ordered list (the property's own device)."""
    import yaql
    from yaql.language import contexts, specs

    # classes realising the per-position partial orders: K[p][i] subclass of K[p][j] iff S[p][i][j]
    K = []
    for p in range(npos):
        made = {}
        remaining = list(range(n))
        while remaining:
            for i in list(remaining):
                sup = [j for j in range(n) if S[p][i][j]]
                if all(j in made for j in sup):
                    bases = tuple(sorted((made[j] for j in sup), key=lambda c: -len(c.__mro__))) or (object,)
                    made[i] = type('K%d_%d' % (p, i), bases, {})
                    remaining.remove(i)
        K.append(made)

    class LazyPy(yaqltypes.LazyParameterType, yaqltypes.PythonType):
        """host-defined lazy type over a python class; `accept` False: passes map_args, rejected at get_delegate"""
        def __init__(self, cls, accept):
            yaqltypes.PythonType.__init__(self, cls, True)
            self.accept = accept
            self.calls = 0

        def check(self, value, context, engine, *args, **kwargs):
            self.calls += 1
            return self.accept or self.calls == 1

    log = []
    values = []
    for p in range(npos):
        ordered = sorted(K[p].values(), key=lambda c: -len(c.__mro__))
        values.append(type('V%d' % p, tuple(ordered), {})())

    class OrderedContext(contexts.Context):
        order_of = {}

        def get_functions(self, name, predicate=None, use_convention=False):
            fs, excl = super().get_functions(name, predicate, use_convention)
            return sorted(fs, key=lambda fd: self.order_of.get(fd.meta.get('cid'), 99)), excl

    engine = yaql.YaqlFactory().create()
    root = yaql.create_context()
    OrderedContext.order_of = {cid: k for k, cid in enumerate(order)}
    ctxs = {}
    parent = root
    for lv in sorted(set(layers), reverse=True):       # farthest layer first
        parent = OrderedContext(parent)
        ctxs[lv] = parent
    top = parent
    desc = []
    for i in range(n):
        names = ['p%d' % p for p in range(npos)] + ([] if maps[i] else ['extra'])
        src = 'def f(%s):\n    return ("ran", %d)\n' % (', '.join(names), i)
        ns = {}
        exec(src, ns)
        fn = ns['f']
        fd = specs.get_function_definition(
            fn, name='f', method=has_receiver,
            parameter_type_func=lambda name: yaqltypes.PythonType(object, True))
        for p in range(npos):
            cls = K[p][i]
            if lazy[i][p]:
                t = LazyPy(cls, deleg[i])
            else:
                t = yaqltypes.PythonType(cls, True, validators=[(lambda v, ok=deleg[i]: ok)])
            fd.set_parameter('p%d' % p, t, overwrite=True)
        fd.no_kwargs = nokw[i]
        fd.meta['cid'] = i
        ctxs[layers[i]].register_function(fd)
        desc.append('f#%d(%s)%s%s layer %d' % (
            i, ', '.join(('lazy ' if lazy[i][p] else '') + K[p][i].__name__ + '(' + ','.join(
                b.__name__ for b in K[p][i].__bases__) + ')' for p in range(npos)),
            '' if maps[i] else ' +1 required parameter', '' if deleg[i] else ' rejecting its argument',
            layers[i]))

    def call():
        c = top.create_child_context()
        for p in range(npos):
            c['v%d' % p] = values[p]
        first = 1 if has_receiver else 0
        parts = ['$v%d' % p for p in range(first, npos)]
        text = ('$v0.f(%s)' if has_receiver else 'f(%s)') % ', '.join(parts)
        try:
            if kwmode and parts:
                # the host-side call API with a real keyword argument: context(name, engine[, receiver])(*args, **kwargs)
                pos = [values[p] for p in range(first, npos - 1)]
                kw = {'p%d' % (npos - 1): values[npos - 1]}
                if has_receiver:
                    return c('f', engine, receiver=values[0])(*pos, **kw)
                return c('f', engine)(*pos, **kw)
            return engine(text).evaluate(context=c)
        except (exceptions.AmbiguousFunctionException, exceptions.AmbiguousMethodException,
                exceptions.NoMatchingFunctionException, exceptions.NoMatchingMethodException,
                exceptions.ArgumentException) as e:
            return type(e).__name__
    return call, desc
