"""Helpers of C09: heap fingerprint (frame conditions), host-data snapshot, template generation from the live registry."""
import itertools
import types

from yaql.language import utils as yutils
from yaql.language import yaqltypes

from vf import yq
from props import c11_lib as R          # registry walker / call-shape helpers (layers, all_definitions, visible ...)

ATOM = (int, float, str, bytes, bool, type(None), complex)


# ------------------------------------------------------------------ P4: structural heap fingerprint (run untraced)
def _has(c):
    try:
        c.cell_contents
        return True
    except ValueError:
        return False


def fingerprint(roots, skip=()):
    """structural fingerprint of everything reachable from roots through yaql objects (slots/__dict__), builtin
    containers and function closures/defaults/__dict__.  `skip` = set of (id(dict), key) entries not to look at.
    Values that are not plain atoms (symbolic proxies, foreign objects) count by identity."""
    order = list(roots)
    seen = {id(r): k for k, r in enumerate(roots)}
    out = []

    def ref(o):
        if type(o) in ATOM:
            return ('a', type(o).__name__, o)
        if id(o) not in seen:
            seen[id(o)] = len(seen)
            order.append(o)
        return ('r', seen[id(o)])

    i = 0
    while i < len(order):
        o = order[i]
        i += 1
        t = type(o)
        if t in (list, tuple):
            out.append((t.__name__, tuple(ref(x) for x in o)))
        elif t is dict:
            out.append(('dict', tuple((ref(k), ref(v)) for k, v in o.items() if (id(o), k) not in skip)))
        elif t in (set, frozenset):
            atoms = frozenset(x for x in o if type(x) in ATOM)
            others = tuple(sorted(ref(x)[1] for x in o if type(x) not in ATOM))
            out.append((t.__name__, atoms, others))
        elif isinstance(o, types.FunctionType):
            cells = tuple(ref(c.cell_contents) for c in (o.__closure__ or ()) if _has(c))
            out.append(('fn', o.__qualname__, ref(o.__dict__), cells, ref(o.__defaults__), ref(o.__kwdefaults__)))
        elif isinstance(o, (types.ModuleType, type)):
            out.append(('opaque', getattr(o, '__name__', '?')))
        elif t.__module__.startswith('yaql'):
            fields = []
            for klass in t.__mro__:
                for s in getattr(klass, '__slots__', ()):
                    if hasattr(o, s):
                        fields.append((s, ref(getattr(o, s))))
            if hasattr(o, '__dict__'):
                for k, v in o.__dict__.items():
                    fields.append((k, ref(v)))
            out.append((t.__qualname__, tuple(fields)))
        else:
            out.append(('opaque', t.__qualname__, id(o)))
    return out


def context_chain(ctx):
    out = []
    while ctx is not None:
        out.append(ctx)
        ctx = ctx.parent
    return out


# ------------------------------------------------------------------ host data snapshot (run traced: leaves may be symbolic)
def snap(o):
    if type(o) is list:
        return ('list', o, [snap(x) for x in o])
    if type(o) is dict:
        return ('dict', o, [(k, snap(v)) for k, v in o.items()])
    if type(o) is set:
        return ('set', o, list(o))
    if type(o) is tuple:
        return ('tuple', o, [snap(x) for x in o])
    return ('leaf', o, None)


def unchanged(s):
    """the structure recorded in snapshot s is still what the recorded (same) objects contain"""
    kind, o, sub = s
    if kind == 'leaf':
        return True
    if kind == 'list' or kind == 'tuple':
        if len(o) != len(sub):
            return False
        for x, sx in zip(o, sub):
            if not same_obj(x, sx[1]) or not unchanged(sx):
                return False
        return True
    if kind == 'dict':
        if len(o) != len(sub) or list(o.keys()) != [k for k, _ in sub]:
            return False
        for k, sx in sub:
            if not same_obj(o[k], sx[1]) or not unchanged(sx):
                return False
        return True
    if kind == 'set':
        if len(o) != len(sub):
            return False
        for x in sub:
            if x not in o:
                return False
        return True
    return False


def same_obj(a, b):
    if a is b:
        return True
    if type(a) in (list, dict, set, tuple) or type(b) in (list, dict, set, tuple):
        return False                      # a container was replaced by another object
    return type(a) is type(b) and a == b


def scribble(res, depth=0):
    """mutate every mutable container reachable in a result (aliasing probe)"""
    if depth > 6:
        return
    if isinstance(res, list):
        for x in list(res):
            scribble(x, depth + 1)
        res.append('scribble')
        if len(res) > 1:
            res[0] = 'scribble'
            res.reverse()
    elif isinstance(res, dict):
        for x in list(res.values()):
            scribble(x, depth + 1)
        for k in list(res):
            res[k] = 'scribble'
        res['scribble'] = 1
    elif isinstance(res, set):
        res.clear()
        res.add('scribble')
    elif isinstance(res, tuple):
        for x in res:
            scribble(x, depth + 1)


# ------------------------------------------------------------------ template generation
KINDS = {
    'list': ([3, 1], '[x0, x1][:n]'),
    'dict': ({'a': 3, 'b': 1}, "{'a': x0, 'b': x1} (first n keys)"),
    'set': ({3, 1}, '{x0, x1} (n elements, values in [0,1])'),
    'wdict': ({'2nd': 3, '$r': 1}, "{'2nd': x0, '$r': x1} (first n keys; not keyword-shaped)"),
    'nlist': ([[3, 1], [1]], '[[x0, x1], [x1]][:n]'),
    'ndict': ({'a': [3, 1], 'b': {'a': 1}}, "{'a': [x0, x1], 'b': {'a': x1}} (first n keys)"),
}

# typed corpus for the other positions: (yaql text, python sample used for the declared-type check)
import datetime as _dt
import re as _re
CORPUS = [('1', 1), ("'a'", 'a'), ('true', True), ('[1, 2]', (1, 2)), ('{a => 1}', yutils.FrozenDict({'a': 1})),
          ('set(1, 2)', frozenset([1, 2])), ('1.5', 1.5), ('null', None), ("regex('a')", _re.compile('a')),
          ('datetime(2020, 1, 1)', _dt.datetime(2020, 1, 1, tzinfo=_dt.timezone.utc)), ('timespan(1)', _dt.timedelta(1)),
          ('0', 0), ('2', 2), ("'b'", 'b'), ('[[1, 2]]', ((1, 2),)), ("[['a', 1]]", (('a', 1),))]
LAMBDAS = ['$', '$ > 1', '[$, $]', '$1 + $2', '$1 > $2', 'true', '[$1, $2]']
ENG_PROBE = yq.FACTORY.create(options={'yaql.limitIterators': 30, 'yaql.convertInputData': False})


def accepts(p, value):
    try:
        return bool(p.value_type.check(value, yq.ROOT, ENG_PROBE))
    except Exception:
        return False


def choices_for(p):
    vt = p.value_type
    if isinstance(vt, yaqltypes.Lambda):
        return list(LAMBDAS)
    if isinstance(vt, yaqltypes.MappingRule):
        return ['true => 1']
    if isinstance(vt, yaqltypes.YaqlExpression):
        return ['$']
    if isinstance(vt, yaqltypes.Keyword):
        return ['a']
    if isinstance(vt, yaqltypes.BooleanConstant):
        return ['true']
    if isinstance(vt, yaqltypes.NumericConstant):
        return ['1']
    if isinstance(vt, yaqltypes.Constant):
        return ["'a'"]
    from yaql.language import expressions
    out = [text for text, sample in CORPUS if accepts(p, sample)]
    return out or ['1']


def fillings(fd, spelling):
    """yield (position label, kind, text-builder) for every caller-visible parameter of fd that accepts a raw host
    list/dict/set; text-builder(choice per other parameter) renders the call"""
    pos, var, kwonly, varkw = R.visible(fd)
    params = [('p%d' % i, p) for i, p in enumerate(pos)]
    if var is not None:
        params.append(('*', var))
    params += [('k:' + k, p) for k, p in sorted(kwonly.items())]
    for label, p in params:
        if isinstance(p.value_type, (yaqltypes.LazyParameterType, yaqltypes.Constant)):
            continue
        for kind, (sample, _) in KINDS.items():
            if accepts(p, sample):
                yield label, kind, params


def render(fd, spelling, params, target, chosen):
    """call text with `$` at the target parameter; chosen: {label: text} for the others (None = omit)"""
    args = []
    kws = []
    for label, p in params:
        text = '$' if label == target else chosen.get(label)
        if text is None:
            continue
        if label.startswith('k:'):
            kws.append('%s => %s' % (label[2:], text))
        else:
            args.append(text)
    name = fd.name
    if spelling == 'method':
        recv, rest = args[0], args[1:]
        if not (recv.startswith('$') or recv[0] in '[{(' or recv.endswith(')')):
            recv = '(%s)' % recv
        return '%s.%s(%s)' % (recv, name, ', '.join(rest + kws))
    return '%s(%s)' % (name, ', '.join(args + kws))


def templates_for(fd, max_tries=40, kinds=None):
    """[(label, kind, spelling, text)] - one template per (parameter accepting a host container, container kind).
    The other positions are filled from the typed corpus: required ones always, optional ones (after the target)
    omitted; among the possible fillings the first whose evaluation on a sample container succeeds is taken, so that
    the payload really runs; if none succeeds the first filling is kept (the error path is covered as well)."""
    if not yutils.is_keyword(fd.name):
        return []
    spelling = 'method' if fd.is_method else 'function'
    out = []
    for label, kind, params in fillings(fd, spelling):
        if kinds is not None and kind not in kinds:
            continue
        tidx = [l for l, _ in params].index(label)
        opts = []
        for j, (l, p) in enumerate(params):
            if l == label:
                continue
            required = not R.has_default(p) and l != '*'
            if l == '*':
                # *args that is not the target: one value from the corpus (an empty *args makes many functions a no-op),
                # falling back to none when no such call evaluates
                opts.append((l, (choices_for(p)[:1] if j > tidx else []) + [None]))
            elif l.startswith('k:'):
                opts.append((l, choices_for(p) if required else [None]))
            elif required or j < tidx:
                opts.append((l, choices_for(p)))
            else:
                opts.append((l, [None]))
        best = None
        tries = 0
        for combo in itertools.product(*[c[:4] for _, c in opts]):
            chosen = {l: t for (l, _), t in zip(opts, combo)}
            text = render(fd, spelling, params, label, chosen)
            if best is None:
                best = text
            tries += 1
            if tries > max_tries:
                break
            try:
                with _alarm(2):
                    st = yq.stmt(text, ENG_PROBE)
                    st.evaluate(data=_copy(KINDS[kind][0]), context=yq.ROOT.create_child_context())
                best = text
                break
            except Exception:
                continue
        out.append((label, kind, spelling, best, needs_bounds(best, kind)))
    return out


class HashSpy(int):
    """an int that notices being hashed or formatted (both make the symbolic tool enumerate values one by one)"""
    seen = []

    def __hash__(self):
        HashSpy.seen.append('hash')
        return int.__hash__(self)

    def __repr__(self):
        HashSpy.seen.append('repr')
        return int.__repr__(self)

    __str__ = __repr__

    def __format__(self, spec):
        HashSpy.seen.append('format')
        return int.__format__(self, spec)


def spy_copy(v):
    if isinstance(v, list):
        return [spy_copy(x) for x in v]
    if isinstance(v, dict):
        return {k: spy_copy(x) for k, x in v.items()}
    if isinstance(v, set):
        return {spy_copy(x) for x in v}
    if type(v) is int:
        return HashSpy(v)
    return v


ENG_PROBE_CONV = yq.FACTORY.create(options={'yaql.limitIterators': 30})


def needs_bounds(text, kind, ctx=None):
    """does the statement hash or print the container's elements, or raise, on a sample container?  Then the harness
    bounds the symbolic ints to a small range (the tool would otherwise enumerate the integers one by one)."""
    for eng in (ENG_PROBE, ENG_PROBE_CONV):
        del HashSpy.seen[:]
        try:
            with _alarm(2):
                data = spy_copy(KINDS[kind][0])
                del HashSpy.seen[:]
                yq.stmt(text, eng).evaluate(data=data, context=(ctx or yq.ROOT).create_child_context())
        except Exception:
            return True
        if HashSpy.seen:
            return True
    return False


def _copy(v):
    import copy
    return copy.deepcopy(v)


class _alarm:
    """give up on a probe evaluation that does not come back (endless source)"""
    def __init__(self, seconds):
        self.seconds = seconds

    def __enter__(self):
        import signal

        def fire(signum, frame):
            raise TimeoutError('probe evaluation timed out')
        try:
            self.old = signal.signal(signal.SIGALRM, fire)
            signal.alarm(self.seconds)
        except ValueError:          # not in the main thread
            self.old = None

    def __exit__(self, *exc):
        import signal
        if self.old is not None:
            signal.alarm(0)
            signal.signal(signal.SIGALRM, self.old)
        return False
