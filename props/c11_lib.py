"""Helpers of C11: live-registry enumeration, call-shape reference, probe function, template catalogue."""
import hashlib

from yaql.language import contexts as yctx
from yaql.language import yaqltypes

from vf import yq

# ------------------------------------------------------------------ probe
LOG = []


def _tick(id, value):
    LOG.append(id)
    return value


def _m2(self, x=None, y=None):
    return None


def _f2(x=None, y=None):
    return None


CTX = yq.ROOT.create_child_context()
CTX.register_function(_tick, name='tick')
# two neutral helpers (accept anything, return null) used only by the hand-written templates of '?.' and keywords
CTX.register_function(_m2, name='probeMethod', method=True, function=False)
CTX.register_function(_f2, name='probeFunc')
ENG = yq.FACTORY.create(options={'yaql.limitIterators': 12})


# ------------------------------------------------------------------ live registry
def layers(ctx):
    """function sets of every layer of the chain, nearest first: [{name: set(fd)}]"""
    out = []
    c = ctx
    while c is not None:
        fns = {}
        members = c._context_list if isinstance(c, yctx.MultiContext) else [c]
        for m in members:
            for name, s in getattr(m, '_functions', {}).items():
                fns.setdefault(name, set()).update(s)
        out.append(fns)
        c = c.parent
    return out


def all_definitions(ctx=None):
    """{name: [fd, ...]} over all layers of the standard context (sorted for determinism)"""
    res = {}
    for layer in layers(ctx or yq.ROOT):
        for name, s in layer.items():
            res.setdefault(name, []).extend(s)
    for name in res:
        res[name].sort(key=lambda fd: (fd.payload.__module__, fd.payload.__qualname__,
                                       getattr(fd.payload, '__code__', None) and fd.payload.__code__.co_firstlineno or 0))
    return dict(sorted(res.items()))


def visible(fd):
    """caller-visible parameters: (positional list ordered by position, varargs or None, kwonly dict, varkw or None)"""
    sp = fd.strip_hidden_parameters()
    pos = sorted((p for k, p in sp.parameters.items() if p.position is not None and k != '*'),
                 key=lambda p: p.position)
    var = sp.parameters.get('*')
    kwonly = {(p.alias or p.name): p for k, p in sp.parameters.items() if p.position is None and k != '**'}
    varkw = sp.parameters.get('**')
    return pos, var, kwonly, varkw


def is_lazy(p):
    return isinstance(p.value_type, yaqltypes.LazyParameterType)


def takes_probe(p):
    """a probe call `tick(i, $v)` is an Expression that is not a constant and not a mapping rule"""
    vt = p.value_type
    if isinstance(vt, yaqltypes.Constant):
        return False
    if isinstance(vt, yaqltypes.MappingRule):
        return False
    if isinstance(vt, yaqltypes.YaqlExpression) and vt._expression_types:
        return False
    return True


def has_default(p):
    from yaql.language import specs
    return p.default is not specs.NO_DEFAULT


def shape_binding(fd, nargs, kwnames):
    """reference of the *shape* part of argument binding (arity, keyword names, constant-only parameters), written
    from the language reference: returns the list of ParameterDefinition bound to each probe (positional ones then
    keywords) or None when a call with `nargs` probe expressions + the keywords cannot be bound to fd"""
    pos, var, kwonly, varkw = visible(fd)
    if fd.no_kwargs and kwnames:
        return None
    bound = []
    if nargs > len(pos) and var is None:
        return None
    for i in range(nargs):
        bound.append(pos[i] if i < len(pos) else var)
    byname = {(p.alias or p.name): p for p in pos[nargs:]}
    byname.update(kwonly)
    given = set()
    for k in kwnames:
        if k in byname:
            bound.append(byname[k])
            given.add(k)
        elif any((p.alias or p.name) == k for p in pos[:nargs]):
            return None                      # the same parameter twice
        elif varkw is not None:
            bound.append(varkw)
        else:
            return None
    for k, p in byname.items():
        if k not in given and not has_default(p):
            return None
    for p in bound:
        if not takes_probe(p):
            return None
    return bound


def candidates(defs, name, spelling):
    return [fd for fd in defs.get(name, []) if (fd.is_method if spelling == 'method' else fd.is_function)]


def spell(name, spelling, nargs, kwnames, var=lambda i: '$v%d' % i):
    """template text; probe i (1-based) wraps variable $v<i>"""
    probes = ['tick(%d, %s)' % (i + 1, var(i + 1)) for i in range(nargs + len(kwnames))]
    if spelling == 'method':
        recv, rest = probes[0], probes[1:nargs]
    else:
        recv, rest = None, probes[:nargs]
    rest = rest + ['%s => %s' % (k, p) for k, p in zip(kwnames, probes[nargs:])]
    call = '%s(%s)' % (name, ', '.join(rest))
    return '%s.%s' % (recv, call) if recv else call


def stable_hash(s):
    return int(hashlib.sha1(s.encode()).hexdigest()[:8], 16)
