"""C04 - core evaluation semantics follow the language reference.

A symbolic integer code is decoded (breadth first, recursive descent over a cursor) into an expression of the fragment;
once the code is realised on a path the program is concrete: it is rendered to text outside the tracer, parsed and
evaluated by the REAL engine against a document built from SYMBOLIC ints, and compared with the reference interpreter
of props/c04_ref.py (explicit scope chain, lexical closures, lazy sequences).
"""
from typing import List

from vf import h as H
from vf import yq
from props import c04_ref as R

ID = 'C04'
KNOWN = set(H.P('known', ()))
TEMPLATE = list(H.P('template', [None, None]))      # code with holes: ints are fixed by the shard, None is symbolic
TAIL = sum(1 for t in TEMPLATE if t is None)
DEPTH = H.P('depth', 2)
DOC = H.P('doc', 'dict')
LO, HI = H.P('lo', -1), H.P('hi', 2)

FUNCTIONS_ENCODED = [
    'yaql.language.expressions.* (Function/BinaryOperator/ListExpression/MapExpression/IndexExpression/GetContextValue/'
    'Statement.evaluate)', 'yaql.language.runner.call/choose_overload', 'yaql.language.specs.map_args/get_delegate',
    'yaql.language.yaqltypes.Lambda.convert/_publish_params', 'yaql.language.contexts.Context (get_data, child contexts, '
    'collect_functions)', 'yaql.language.utils.convert_input_data/convert_output_data',
    'yaql.standard_library.system: #get_context_data, let, with, unpack, def, ->, ., assert',
    'yaql.standard_library.collections: #list, #map, #indexer, dict member access, +',
    'yaql.standard_library.queries: select, where, collection attribution, sum, len', 'yaql.standard_library.math: +, >']
BOUNDS = {
    'quick': 'programs: an integer code decoded breadth first by recursive descent over 21 node kinds and 7 leaves; a shard '
             'fixes part of the code (template) and leaves 2 slots symbolic (List[int] of length 2): every program of the '
             'shard (49 when both slots are leaves, up to 147 when one is a kind) is explored; shards: a window of 22 of the '
             '49 scoping-core templates at depth 2 (rotated by VERIF_SEED) plus 4 seeded random depth-3 programs with two '
             'symbolic leaves; data: document shape per shard built from symbolic i1,i2,i3 in [-1,2]',
    'thorough': 'all 49 core templates, the first 12 also with 3 symbolic slots, 60 seeded random depth-3 templates, and '
                'every scoping root (12) x every kind of its first child (21) with the following slot symbolic'}
OUTSIDE = ['programs outside the sampled shards / deeper than the bound', 'functions outside the fragment',
           'yaql.iterableDicts, the legacy dialect', 'ordering of non-numbers (C15)', 'a lazy sequence consumed twice or '
           'used as a truth value, a boolean as list index (unspecified: nothing asserted)',
           'unpack() of a lazy sequence (finding F6, belongs to C13: guarded out here)',
           'which exception class an erroneous program raises (only that it has no value)']
ASSUMPTIONS = ['the reference interpreter (props/c04_ref.py) is the specification; it is validated at start-up against the '
               'real engine on the scoping expressions recorded in DESIGN.md appendix A and on 400 concrete random '
               'programs of depth 3 from the same decoder',
               'data ints are bounded to [-1,2] because error messages and dict look-ups make the tool enumerate values']
EXPLANATION = ('Bounded symbolic execution (CrossHair+z3): the symbolic tail of an integer code selects the program (each '
               'path realises one program of the shard), the document values stay symbolic through the real evaluation '
               'and through the reference interpreter, and the two outcomes must agree on every path: same value '
               '(type-aware deep equality) or both without value.')
TECHNIQUE = 'bounded symbolic execution (CrossHair+z3) of the real evaluator vs reference interpreter over a symbolically decoded program; replay on CPython'

ENG = yq.FACTORY.create(options={'yaql.limitIterators': 50})


def engine_outcome(text, data):
    try:
        return ('ok', yq.stmt(text, ENG).evaluate(data=data, context=yq.ROOT.create_child_context()))
    except Exception as e:
        return ('err', type(e).__name__)


def same_value(a, b):
    """type-aware deep equality of finalised data"""
    if isinstance(a, list) or isinstance(b, list):
        if not (isinstance(a, list) and isinstance(b, list)) or len(a) != len(b):
            return False
        for x, y in zip(a, b):
            if not same_value(x, y):
                return False
        return True
    if isinstance(a, dict) or isinstance(b, dict):
        if not (isinstance(a, dict) and isinstance(b, dict)) or len(a) != len(b):
            return False
        for k in a:
            if k not in b or not same_value(a[k], b[k]):
                return False
        return True
    if a is None or b is None:
        return a is None and b is None
    if isinstance(a, bool) != isinstance(b, bool):
        return False
    if isinstance(a, str) != isinstance(b, str):
        return False
    return a == b


def agree(got, exp):
    if exp[0] == 'ok':
        return got[0] == 'ok' and same_value(got[1], exp[1])
    return got[0] == 'err'


def compare(ast, data):
    """-> (verdict or None when the reference leaves the behaviour open, text, got, exp)"""
    with H.NoTracing():
        text = R.render(ast)
    exp = R.run_reference(ast, data)
    if exp[0] == 'unspecified':
        return None, text, None, exp
    got = engine_outcome(text, data)
    return agree(got, exp), text, got, exp


def fill_template(template, code):
    out = []
    k = 0
    for t in template:
        if t is None:
            out.append(code[k])
            k += 1
        else:
            out.append(t)
    return out


def program(code: List[int], i1: int, i2: int, i3: int) -> bool:
    """
    pre: len(code) == TAIL
    pre: LO <= i1 <= HI and LO <= i2 <= HI and LO <= i3 <= HI
    pre: H.fresh(code, i1, i2, i3)
    post: _
    """
    ast = R.decode(fill_template(TEMPLATE, code), DEPTH)
    data = R.DOCS[DOC][1](i1, i2, i3)
    ok, text, got, exp = compare(ast, data)
    if ok is None:
        H.note('unspecified')
        return True
    return H.done(ok)


# ------------------------------------------------------------------ shards
K = {k: i for i, k in enumerate(R.KINDS)}
LEAF = {'$': 0, '$x': 1, '1': 2, '$.a': 3, '$y': 4, '$.b': 5, '$2': 6, }


def tpl(tokens, wide):
    """tokens: a kind name; '=<leaf>' a depth-1 child that is a leaf (kind leaf + that leaf); '<leaf>' a bare leaf slot
    (depth 0); '?' a symbolic slot; '=?' a leaf child with a symbolic leaf; 'key:a'/'key:b' after mem;
    '~<leaf>' / '=~<leaf>': that leaf in the quick tier, a symbolic slot in the thorough tier (wide)"""
    out = []
    for t in tokens:
        lead = []
        if t.startswith('='):
            lead = [K['leaf']]
            t = t[1:]
        if t.startswith('~'):
            t = '?' if wide else t[1:]
        if t == '?':
            out += lead + [None]
        elif lead:
            out += lead + [LEAF[t]]
        elif t in K:
            out.append(K[t])
        elif t in LEAF:
            out.append(LEAF[t])
        elif t in ('key:a', 'key:b'):
            out.append(0 if t == 'key:a' else 1)
        else:
            raise ValueError(t)
    return out


# scoping core, depth 2.  Code order is breadth first: root kind, then the root's children (a child of depth 1 reads its
# kind [+ its own extras], a depth-0 slot reads a leaf), then the grandchildren leaves.  Most important first: the quick
# tier takes a window of this list (rotated by the seed), the thorough tier all of it with the '~' slots symbolic too.
CORE = [
    ('int', ['clos', '~1', 'bin+', '?', '=$', '$', '?']),          # closure: x of the definition or of the call?
    ('int', ['let1', '=~$', 'list', '?', '?']),                    # let(x => $) -> [?, ?]
    ('list', ['select', '=$', 'list', '?', '?']),                  # $.select([?, ?]): $ of the lambda
    ('int', ['list', 'let1', '=?', '~$', '?']),                    # [let(x => $) -> ?, ?]: no leak to the sibling
    ('list', ['select', '=~$', 'let1', '?', '?']),                 # $.select(let(x => ?) -> ?)
    ('int', ['defc', 'bin+', '=~$', '?', '?']),                    # def(f, ? + ?) -> f($)
    ('int', ['let1', '=~$', 'defc', '?', '?']),                    # let(x => $) -> def(f, ?) -> f(?)
    ('pair', ['select', '=$', 'select', '?', '?']),                # $.select(?.select(?)): innermost $
    ('int', ['with', '=~$', '~1', 'list', '?', '?']),              # with($, 1) -> [?, ?]
    ('dict', ['unpk', '=~$.a', '~1', 'list', '?', '?']),           # [$.a, 1].unpack(x, y) -> [?, ?]
    ('int', ['let1', '=~$', 'let1', '?', '?']),                    # shadowing
    ('rows', ['mem', '?', '?']),                                   # ?.a / ?.b over every child kind
    ('int', ['letp', '=~$x', 'list', '?', '?']),                   # let(?) -> [?, ?]: $ rebinding
    ('int', ['let2', '=~$', '~1', 'bin+', '?', '?']),
    ('pair', ['where', '=$', 'bin>', '?', '?']),
    ('int', ['clos', '?', 'list', '~1', '=$', '$x', '?']),
    ('list', ['let1', '=~$', 'select', '?', '?']),                 # let(x => $) -> ?.select(?)
    ('int', ['defc', '=?', 'call', '?']),                          # def(f, ?) -> f(f(?))
    ('int', ['defc', '=?', 'callkw', '?']),                        # def(f, ?) -> f(f(x => ?))
    ('rows', ['select', '=$', 'mem', '?', '?']),                   # $.select(?.k)
    ('list', ['unp0', '=~$', 'list', '?', '?']),                   # $.unpack() -> [?, ?]
    ('dict', ['idx', '=?', '?']),
    ('int', ['bin+', 'let1', '=?', '~$', '?']),
    ('int', ['map', 'let1', '=?', '~$', '?']),
    ('rows', ['select', '=$', 'bin+', '?', '?']),
    ('int', ['defc', 'let1', '=~$', '?', '?']),
    ('list', ['defc', 'select', '=~$', '?', '?']),
    ('int', ['list', 'defc', 'call', '?', '?']),
    ('int', ['list', 'with', '=?', '~$', '~1', '?']),
    ('int', ['list', 'unpk', '=?', '~$', '~1', '?']),
    ('list', ['select', 'list', '=?', '~$', '?']),
    ('list', ['select', 'select', '=?', '~$', '?']),
    ('list', ['let1', 'select', '=?', '~$', '?']),
    ('int', ['let1', 'let1', '=?', '~$', '?']),
    ('int', ['letp', 'letp', 'list', '~$', '?', '?', '$']),
    ('int', ['list', 'let1', 'let1', '~$', '?', '~$', '?']),
    ('rows', ['mem', 'key:a', 'select', '?', '?']),
    ('nest', ['mem', '?', 'mem', '?', '~$']),
    ('list', ['idx', '=?', '?']),
    ('rows', ['idx', 'mem', '?', '?', '~$']),
    ('rows', ['sum', 'mem', '?', '?']),
    ('list', ['sum', 'select', '?', '?']),
    ('rows', ['len', 'where', '$', '?']),
    ('rows', ['where', '=$', 'mem', '?', '?']),
    ('int', ['let1', '=?', 'callkw', '?']),
    ('list', ['unp0', 'list', 'bin+', '~$', '?', '?']),
    ('int', ['unpk', '=~$', '~1', 'bin+', '?', '?']),
    ('int', ['with', '=~$', '~1', 'bin+', '?', '?']),
    ('int', ['let2', '=~$', '~1', 'list', '?', '?']),
]
SCOPING_ROOTS = ['let1', 'select', 'where', 'defc', 'clos', 'with', 'unpk', 'unp0', 'letp', 'let2', 'mem', 'idx']
NQUICK = 22


def shard_list(tier, seed):
    import random
    quick = tier == 'quick'
    out = []
    rnd = random.Random(1000 + seed)
    if quick:
        start = (seed * NQUICK) % len(CORE)
        core = (CORE + CORE)[start:start + NQUICK]
    else:
        core = CORE
    for doc, tokens in core:
        out.append({'doc': doc, 'template': tpl(tokens, False), 'depth': 2})
        if not quick and tpl(tokens, True) != tpl(tokens, False) and tpl(tokens, True).count(None) <= 3 \
                and CORE.index((doc, tokens)) < 12:
            out.append({'doc': doc, 'template': tpl(tokens, True), 'depth': 2})
    n_random = 4 if quick else 60
    made = 0
    while made < n_random:
        # a random depth-3 program; two of its LEAF slots become symbolic (found by recording what the decoder reads)
        code = [rnd.randrange(1, len(R.KINDS))] + [rnd.randrange(len(R.KINDS)) for _ in range(40)]
        slots = leaf_slots(code, 3)
        if len(slots) < 3 or max(slots) > 24:
            continue
        template = code[:max(slots) + 1]
        for h in slots:
            template[h] = rnd.randrange(len(R.LEAVES))
        for h in rnd.sample(slots, 2):
            template[h] = None
        out.append({'doc': rnd.choice(['int', 'pair'] if quick else ['int', 'pair', 'dict']), 'template': template, 'depth': 3})
        made += 1
    if not quick:
        # every scoping root x every kind of its first child, the following slot symbolic
        for root in SCOPING_ROOTS:
            for child in R.KINDS:
                # documents with at most two symbolic ints: an error message that prints the document makes the tool
                # enumerate every int in it (measured: dict/nest documents cost 5-9 cpu-minutes per shard here)
                out.append({'doc': ['pair', 'int', 'rows'][(K[root] + K[child]) % 3],
                            'template': [K[root], K[child], None], 'depth': 2})
    return out


def leaf_slots(code, depth):
    """positions of the code that the decoder reads as leaves"""
    slots = []

    orig = R.Cursor

    class Rec(orig):
        def take(self, k):
            if k == len(R.LEAVES) and self.pos < len(self.code):
                slots.append(self.pos)
            return orig.take(self, k)
    R.Cursor = Rec
    try:
        R.decode(code, depth)
    finally:
        R.Cursor = orig
    return slots


def show(template):
    return '.'.join('?' if t is None else (R.KINDS[t] if i == 0 else str(t)) for i, t in enumerate(template))


# ------------------------------------------------------------------ host-composed contexts and deeper documents
def _custom_contexts():
    """[(label, context, {name: value the nearest-layer rule dictates})]: MultiContext / LinkedContext built over children of
    the standard context, with the same name bound at different depths in different members"""
    from yaql.language import contexts
    std = yq.ROOT
    a_parent = std.create_child_context()
    a_parent['x'] = 'a-parent'
    a_parent['y'] = 'a-parent-y'
    a = a_parent.create_child_context()
    a['z'] = 'a-own'
    b = std.create_child_context()
    b['x'] = 'b-own'
    multi = contexts.MultiContext([a, b])                         # layer 1: a, b own stores; layer 2: a_parent
    linked_target = std.create_child_context()
    linked_target['x'] = 'linked-own'
    lparent = std.create_child_context()
    lparent['x'] = 'lparent'
    lparent['w'] = 'lparent-w'
    linked = contexts.LinkedContext(lparent, linked_target)
    # a host that overrides the variable-read function (language reference: every `$name` is a call of
    # #get_context_data resolved through the context): `$w` comes from outside, everything else from the store
    from yaql.language import specs, yaqltypes
    over = std.create_child_context()
    over['x'] = 'over-own'

    @specs.parameter('name', yaqltypes.StringConstant())
    @specs.name('#get_context_data')
    def get_context_data(name, context):
        if name == '$w':
            return 'external-w'
        return context[name]
    over.register_function(get_context_data)
    CUSTOM_EXTRA.append(('override', over, {'x': 'over-own', 'y': None, 'z': None, 'w': 'external-w'}))
    return [('multi', multi, {'x': 'b-own', 'y': 'a-parent-y', 'z': 'a-own', 'w': None}),
            ('linked', linked, {'x': 'linked-own', 'y': None, 'z': None, 'w': 'lparent-w'})]


CUSTOM_TEXTS = ['$%s', '[1].select($%s).first()', 'let(q => 1) -> $%s', 'def(f, $%s) -> let(%s => 0) -> f()', '[$%s, 2].where(true).first()']
CUSTOM = None
CUSTOM_EXTRA = []
NESTED_DOCS = [({'g': [[{'a': 1}, {'a': 2}], [{'a': 3}], []]}, '$.g.a', [[1, 2], [3], []]),
               ({'g': [[{'a': 1}], [{'a': 2}]]}, '$.g.select($.a)', [[1], [2]]),
               ({'g': [{'a': [1, 2]}, {'a': []}]}, '$.g.a', [[1, 2], []]),
               ([[{'a': {'b': 1}}], []], '$.a', [[{'b': 1}], []])]
CBOX = [(i,) for i in range(8)]


def custom_context(c: int, t: int, n: int) -> bool:
    """
    pre: 0 <= c < 3 and 0 <= t < len(CUSTOM_TEXTS) and 0 <= n < 4
    post: _
    """
    global CUSTOM
    ci, ti, ni = CBOX[c][0], CBOX[t][0], CBOX[n][0]
    with H.NoTracing():
        if CUSTOM is None:
            CUSTOM = _custom_contexts() + CUSTOM_EXTRA
        label, ctx, expect = CUSTOM[ci]
        name = 'xyzw'[ni]
        text = CUSTOM_TEXTS[ti].replace('%s', name)
        try:
            got = ('ok', ENG(text).evaluate(data=7, context=ctx.create_child_context()))
        except Exception as e:
            got = ('err', type(e).__name__)
        ok = got == ('ok', expect[name])
        for doc, dtext, want in NESTED_DOCS:
            ok = ok and ENG(dtext).evaluate(data=doc, context=ctx.create_child_context()) == want
    return H.done(ok)


def _binder_names():
    """every Python parameter name of every function registered in the standard context that is also a yaql keyword
    (regenerated from the live registry): binder constructs must work for a variable of any such name"""
    import inspect
    import re
    names = set(['x', 'self', 'cls'])
    c = yq.ROOT
    while c is not None:
        for fds in getattr(c, '_functions', {}).values():
            for fd in fds:
                try:
                    names.update(inspect.signature(fd.payload).parameters)
                except (TypeError, ValueError):
                    pass
        c = c.parent
    return [(n,) for n in sorted(names) if re.match(r'^[a-zA-Z][a-zA-Z0-9_]*$', n)
            and n not in ('true', 'false', 'null', 'not', 'and', 'or', 'in')]


BINDER_NAMES = _binder_names()
BINDER_TEXTS = [('let(%s => 1) -> $%s', 1), ('def(f, $%s) -> f(%s => 5)', 5), ('[1, 2].unpack(%s, qq) -> $%s', 1),
                ('let(%s => 1) -> [2].select($%s + $).first()', 3), ('let(%s => 1) -> let(%s => 2) -> $%s', 2),
                ('[let(%s => 4) -> $%s, $%s]', [4, None])]
BINDER_BOX = [(t,) for t in BINDER_TEXTS]


def binder_names(n: int, t: int) -> bool:
    """
    pre: 0 <= n < len(BINDER_NAMES) and H.P('tlo', 0) <= t < H.P('thi', len(BINDER_TEXTS))
    post: _
    """
    name, (tpl, want) = BINDER_NAMES[n][0], BINDER_BOX[t][0]
    with H.NoTracing():
        try:
            got = ('ok', ENG(tpl.replace('%s', name)).evaluate(data=7, context=yq.ROOT.create_child_context()))
        except Exception as e:
            got = ('err', type(e).__name__)
    return H.done(got == ('ok', want))


def conditions(tier, seed):
    t = 150 if tier == 'quick' else 600
    out = [{'name': 'custom_context', 'func': 'custom_context', 'timeout': t,
            'bounds': 'variables bound at different depths in the members of a MultiContext / behind a LinkedContext / supplied by a host override of #get_context_data, read through 5 '
                      'expression shapes (plain, lambda, let, closure, where); member projection over documents nested two lists deep '
                      '(selectors; each path concrete)'}]
    for lo in range(0, len(BINDER_TEXTS), 2):
        out.append({'name': 'binder_names[%d-%d]' % (lo, lo + 1), 'func': 'binder_names', 'timeout': t,
                    'param': {'tlo': lo, 'thi': lo + 2},
                    'bounds': 'let / def+keyword call / unpack / nested let / scope exit with the variable named after each of '
                              'the %d Python parameter names found in the live registry (templates %s; selectors, each path concrete)'
                              % (len(BINDER_NAMES), [x[0] for x in BINDER_TEXTS[lo:lo + 2]])})
    seen = set()
    for sh in shard_list(tier, seed):
        name = 'shard[d%d %s %s]' % (sh['depth'], sh['doc'], show(sh['template']))
        if name in seen:
            continue
        seen.add(name)
        sample = R.render(R.decode([0 if x is None else x for x in sh['template']], sh['depth']))
        out.append({'name': name, 'func': 'program', 'timeout': t, 'param': sh,
                    'bounds': 'code template %r (None = symbolic slot), depth %d, e.g. %s; document %s with i1,i2,i3 in '
                              '[-1,2]' % (sh['template'], sh['depth'], sample, R.DOCS[sh['doc']][0])})
    return out


SCOPING = [   # DESIGN.md appendix A (observed on the pinned tree; each is also implied by the language reference)
    ('[1,2].select([10,20].select($))', None, [[10, 20], [10, 20]]),
    ('let(x=>1) -> let(x=>2) -> $x', None, 2), ('[let(x=>1) -> $x, $x]', None, [1, None]),
    ('let(x=>1) -> [let(x=>2) -> $x, $x]', None, [2, 1]), ('let(1,2) -> [$, $1, $2]', None, [1, 1, 2]),
    ('let(k=>3) -> def(f, $+$k) -> let(k=>5) -> f(2)', None, 5), ('def(f, $a) -> f(a=>7)', None, 7),
    ('[1,2,3].select($2)', None, [None, None, None]), ('$undefined', None, None),
    ('[{a=>1},{a=>2}].a', None, [1, 2]), ('[[{a=>1}],[{a=>2}]].a', None, [[1], [2]]),
]


def validate():
    """reference interpreter vs the real engine on concrete programs: the recorded scoping expressions (through the real
    engine only: they pin what the reference was written from) and 400 random programs of depth 3 from the decoder"""
    import random
    bad = []
    for text, data, expected in SCOPING:
        got = engine_outcome(text, data if data is not None else 0)
        if got != ('ok', expected):
            bad.append('recorded scoping expression %s gives %r, recorded %r' % (text, got, expected))
    import os
    rnd = random.Random(int(os.environ.get('VERIF_SEED', '0') or 0) + 7)
    n = 0
    while n < 400 and len(bad) < 5:
        code = [rnd.randrange(0, 22) for _ in range(rnd.randint(1, 24))]
        ast = R.decode(code, 3)
        dk = rnd.choice(list(R.DOCS))
        data = R.DOCS[dk][1](rnd.randint(-1, 2), rnd.randint(-1, 2), rnd.randint(-1, 2))
        try:
            ok, text, got, exp = compare(ast, data)
        except RecursionError:
            continue
        n += 1
        if ok is False and finding_key(ast) not in KNOWN:
            bad.append('reference disagrees with yaql on %s with $ = %r: yaql %r, reference %r' % (text, data, got, exp))
    return bad[:5]


def finding_key(ast):
    """class of a listed finding this program falls into (none so far)"""
    return None


def replay(cond, args):
    p = cond.get('param') or {}
    if cond['func'] == 'custom_context':
        ok = custom_context(**args)
        return {'reproduced': not ok, 'key': 'C04/custom-context',
                'what': 'variable lookup through a %s context (expression %r, name %s) or member projection over a nested document '
                        'differs from the language reference' % (['MultiContext', 'LinkedContext', 'context overriding #get_context_data'][args['c']], CUSTOM_TEXTS[args['t']], 'xyzw'[args['n']])}
    if cond['func'] == 'binder_names':
        name, (tpl, want) = BINDER_NAMES[args['n']][0], BINDER_TEXTS[args['t']]
        text = tpl.replace('%s', name)
        got = engine_outcome(text, 7)
        return {'reproduced': got != ('ok', want), 'key': 'C04/binder-name/%s' % name,
                'what': '%s gives %r, the language reference %r' % (text, got, want)}
    ast = R.decode(fill_template(list(p.get('template', [None, None])), list(args['code'])), p.get('depth', 2))
    data = R.DOCS[p.get('doc', 'dict')][1](args['i1'], args['i2'], args['i3'])
    ok, text, got, exp = compare(ast, data)
    if ok is None or ok:
        return {'reproduced': False}
    return {'reproduced': True, 'key': finding_key(ast) or 'C04/%s' % text,
            'what': '%s with $ = %r: yaql gives %r, the reference interpreter %r' % (text, data, got, exp)}
