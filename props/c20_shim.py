"""Shim value types for C20 (pattern P6 of DESIGN.md).

`datetime.datetime`, `datetime.timedelta` and `tzinfo` are C types that CrossHair cannot make symbolic together with
dateutil zones.  The classes below are *subclasses* of the real types (so every isinstance check of yaql's type
system passes) whose state is a few (possibly symbolic) integers:

  STD.us        total microseconds of a timespan
  STZ.off_us    offset of a fixed zone in microseconds
  SDT.wall/.tz  wall-clock microseconds since 1970-01-01T00:00 *local*, zone (STZ) or None (naive)

Their methods implement the documented datetime arithmetic with plain integer arithmetic.  `install()` swaps them
into the module globals that the real bodies of yaql/standard_library/date_time.py consult
(DATETIME_TYPE, TIMESPAN_TYPE, ZERO_TIMESPAN, UTCTZ, tz); yaqltypes.DateTime.convert only calls
`value.tzinfo` / `value.replace(tzinfo=...)`, which the shim implements.  Calendar fields are not modelled: they
go through a real datetime built from the (realised) integers.
"""
import datetime

from vf import h as H

US = 1000000
DAY_US = 86400 * US
REAL_DT = datetime.datetime
REAL_TD = datetime.timedelta
EPOCH_NAIVE = REAL_DT(1970, 1, 1)
# wall-clock range of years 1..9999
WALL_MIN = -62135596800 * US
WALL_MAX = 253402300800 * US - 1


def to_int_us(x):
    """number of microseconds -> int, rounding half to even as the C implementation does for float arguments"""
    if isinstance(x, int):
        return x
    return round(x)


def us_of(td):
    if isinstance(td, STD):
        return td.us
    return (td.days * 86400 + td.seconds) * US + td.microseconds


class STD(REAL_TD):
    """timedelta whose value is the (symbolic) integer self.us"""

    def __new__(cls, days=0, seconds=0, microseconds=0, milliseconds=0, minutes=0, hours=0, weeks=0):
        us = ((((weeks * 7 + days) * 24 + hours) * 60 + minutes) * 60 + seconds) * US + milliseconds * 1000 \
            + microseconds
        return cls.of(to_int_us(us))

    @classmethod
    def of(cls, us):
        o = REAL_TD.__new__(cls)
        o.us = us
        return o

    days = property(lambda s: s.us // DAY_US)
    seconds = property(lambda s: (s.us % DAY_US) // US)
    microseconds = property(lambda s: s.us % US)

    def total_seconds(s):
        return s.us / US

    def __add__(s, o):
        if isinstance(o, REAL_DT):
            return as_sdt(o) + s
        if isinstance(o, REAL_TD):
            return STD.of(s.us + us_of(o))
        return NotImplemented
    __radd__ = __add__

    def __sub__(s, o):
        if isinstance(o, REAL_TD):
            return STD.of(s.us - us_of(o))
        return NotImplemented

    def __rsub__(s, o):
        if isinstance(o, REAL_DT):
            return as_sdt(o) - s
        if isinstance(o, REAL_TD):
            return STD.of(us_of(o) - s.us)
        return NotImplemented

    def __neg__(s):
        return STD.of(-s.us)

    def __pos__(s):
        return s

    def __abs__(s):
        return STD.of(abs(s.us))

    def __mul__(s, n):
        if isinstance(n, (int, float)):
            return STD.of(to_int_us(s.us * n))
        return NotImplemented
    __rmul__ = __mul__

    def __truediv__(s, o):
        if isinstance(o, REAL_TD):
            return s.us / us_of(o)
        if isinstance(o, (int, float)):
            return STD.of(to_int_us(s.us / o))
        return NotImplemented

    def __eq__(s, o):
        if isinstance(o, REAL_TD):
            return s.us == us_of(o)
        return NotImplemented

    def __ne__(s, o):
        if isinstance(o, REAL_TD):
            return s.us != us_of(o)
        return NotImplemented

    def __lt__(s, o):
        if isinstance(o, REAL_TD):
            return s.us < us_of(o)
        return NotImplemented

    def __le__(s, o):
        if isinstance(o, REAL_TD):
            return s.us <= us_of(o)
        return NotImplemented

    def __gt__(s, o):
        if isinstance(o, REAL_TD):
            return s.us > us_of(o)
        return NotImplemented

    def __ge__(s, o):
        if isinstance(o, REAL_TD):
            return s.us >= us_of(o)
        return NotImplemented

    def __bool__(s):
        return True if s.us != 0 else False        # a genuine bool (the interpreter insists), forks the path

    def __hash__(s):
        return hash(H.deep_realize(s.us))

    def __repr__(s):
        return 'STD(us=%r)' % (s.us,)
    __str__ = __repr__

    def real(s):
        return REAL_TD(microseconds=int(H.deep_realize(s.us)))


class STZ(datetime.tzinfo):
    """fixed-offset zone; off_us (symbolic) microseconds east of UTC"""

    def __init__(self, off_us):
        self.off_us = off_us

    def utcoffset(self, dt):
        return STD.of(self.off_us)

    def dst(self, dt):
        return STD.of(0)

    def tzname(self, dt):
        return None

    def __repr__(self):
        return 'STZ(%r)' % (self.off_us,)


def conv_tz(tz):
    """any tzinfo -> STZ (real fixed-offset zones are asked for their offset), None stays None"""
    if tz is None or isinstance(tz, STZ):
        return tz
    return STZ(us_of(tz.utcoffset(None)))


def as_sdt(d):
    """real datetime -> SDT with the same wall clock and offset"""
    if isinstance(d, SDT):
        return d
    naive = d.replace(tzinfo=None)
    delta = naive - EPOCH_NAIVE
    wall = (delta.days * 86400 + delta.seconds) * US + delta.microseconds
    off = d.utcoffset()
    return SDT.of(wall, None if off is None else STZ(us_of(off)))


_MISSING = object()
LOCAL = {'off_us': 0}        # offset of the PROCESS-LOCAL zone (environment); harnesses put a symbolic value here


def set_local(off_us):
    LOCAL['off_us'] = off_us



class SDT(REAL_DT):
    """datetime whose value is wall-clock microseconds since the epoch (self.wall) and a zone (self.tz)"""

    def __new__(cls, year, month=None, day=None, hour=0, minute=0, second=0, microsecond=0, tzinfo=None):
        # calendar constructor: concrete arithmetic of the real type (calendar is outside the model)
        real = REAL_DT(int(H.deep_realize(year)), int(H.deep_realize(month)), int(H.deep_realize(day)),
                       int(H.deep_realize(hour)), int(H.deep_realize(minute)), int(H.deep_realize(second)),
                       int(H.deep_realize(microsecond)))
        delta = real - EPOCH_NAIVE
        wall = (delta.days * 86400 + delta.seconds) * US + delta.microseconds
        return cls.of(wall, conv_tz(tzinfo))

    @classmethod
    def of(cls, wall, tz):
        o = REAL_DT.__new__(cls, 2000, 1, 1)
        o.wall = wall
        o.tz = tz
        return o

    @classmethod
    def fromtimestamp(cls, ts, tz=None):
        if tz is None:                    # naive local time of the process
            return cls.of(to_int_us(ts * US) + LOCAL['off_us'], None)
        tz = conv_tz(tz)
        return cls.of(to_int_us(ts * US) + tz.off_us, tz)

    @classmethod
    def now(cls, tz=None):
        return as_sdt(REAL_DT.now(tz=tz))

    @classmethod
    def strptime(cls, string, fmt):
        return as_sdt(REAL_DT.strptime(string, fmt))

    tzinfo = property(lambda s: s.tz)

    def utcoffset(s):
        return None if s.tz is None else s.tz.utcoffset(s)

    def inst(s):
        """microseconds since the epoch in UTC (naive: the wall clock itself)"""
        return s.wall - (s.tz.off_us if s.tz is not None else 0)

    def replace(s, year=None, month=None, day=None, hour=None, minute=None, second=None, microsecond=None,
                tzinfo=_MISSING, **kw):
        if kw:
            raise NotImplementedError(sorted(kw))
        tz = s.tz if tzinfo is _MISSING else conv_tz(tzinfo)
        if year is None and month is None and day is None and hour is None and minute is None \
                and second is None and microsecond is None:
            return SDT.of(s.wall, tz)
        r = s.real_naive()
        fields = dict(year=year, month=month, day=day, hour=hour, minute=minute, second=second,
                      microsecond=microsecond)
        r = r.replace(**{k: int(H.deep_realize(v)) for k, v in fields.items() if v is not None})
        return SDT.of(as_sdt(r).wall, tz)

    def astimezone(s, tz=None):
        # Python's convention: a naive value is local time of the process; no zone argument = the local zone
        tz = STZ(LOCAL['off_us']) if tz is None else conv_tz(tz)
        src_off = LOCAL['off_us'] if s.tz is None else s.tz.off_us
        return SDT.of(s.wall - src_off + tz.off_us, tz)

    def __add__(s, o):
        if isinstance(o, REAL_TD):
            return SDT.of(s.wall + us_of(o), s.tz)
        return NotImplemented
    __radd__ = __add__

    def __sub__(s, o):
        if isinstance(o, REAL_DT):
            o = as_sdt(o)
            if (s.tz is None) != (o.tz is None):
                raise TypeError("can't subtract offset-naive and offset-aware datetimes")
            return STD.of(s.inst() - o.inst())
        if isinstance(o, REAL_TD):
            return SDT.of(s.wall - us_of(o), s.tz)
        return NotImplemented

    def __rsub__(s, o):
        if isinstance(o, REAL_DT):
            return as_sdt(o) - s
        return NotImplemented

    def _cmp_operand(s, o, equality):
        o = as_sdt(o)
        if (s.tz is None) != (o.tz is None):
            if equality:
                return None
            raise TypeError("can't compare offset-naive and offset-aware datetimes")
        return o

    def __eq__(s, o):
        if not isinstance(o, REAL_DT):
            return NotImplemented
        o = s._cmp_operand(o, True)
        return False if o is None else s.inst() == o.inst()

    def __ne__(s, o):
        if not isinstance(o, REAL_DT):
            return NotImplemented
        o = s._cmp_operand(o, True)
        return True if o is None else s.inst() != o.inst()

    def __lt__(s, o):
        if not isinstance(o, REAL_DT):
            return NotImplemented
        return s.inst() < s._cmp_operand(o, False).inst()

    def __le__(s, o):
        if not isinstance(o, REAL_DT):
            return NotImplemented
        return s.inst() <= s._cmp_operand(o, False).inst()

    def __gt__(s, o):
        if not isinstance(o, REAL_DT):
            return NotImplemented
        return s.inst() > s._cmp_operand(o, False).inst()

    def __ge__(s, o):
        if not isinstance(o, REAL_DT):
            return NotImplemented
        return s.inst() >= s._cmp_operand(o, False).inst()

    def __hash__(s):
        return hash(H.deep_realize(s.inst()))

    def __repr__(s):
        return 'SDT(wall=%r, tz=%r)' % (s.wall, s.tz)
    __str__ = __repr__

    # ---- everything calendar-like: through a real datetime (concretises)
    def real_naive(s):
        return EPOCH_NAIVE + REAL_TD(microseconds=int(H.deep_realize(s.wall)))

    def real(s):
        from dateutil import tz as real_tz
        r = s.real_naive()
        if s.tz is None:
            return r
        off = int(H.deep_realize(s.tz.off_us))
        zone = real_tz.tzutc() if off == 0 else real_tz.tzoffset(None, REAL_TD(microseconds=off))
        return r.replace(tzinfo=zone)

    year = property(lambda s: s.real_naive().year)
    month = property(lambda s: s.real_naive().month)
    day = property(lambda s: s.real_naive().day)
    hour = property(lambda s: s.real_naive().hour)
    minute = property(lambda s: s.real_naive().minute)
    second = property(lambda s: s.real_naive().second)
    microsecond = property(lambda s: s.real_naive().microsecond)
    fold = property(lambda s: 0)


def _delegate(name):
    def f(s, *a, **kw):
        return getattr(s.real(), name)(*a, **kw)
    f.__name__ = name
    return f


for _n in ('weekday', 'isoweekday', 'isocalendar', 'strftime', 'isoformat', 'ctime', 'timetuple', 'utctimetuple',
           'toordinal', 'timestamp', 'date', 'time', 'timetz', 'dst', 'tzname', '__format__', '__reduce__',
           '__reduce_ex__'):
    setattr(SDT, _n, _delegate(_n))


class TZShim:
    """stands in for the module `dateutil.tz` inside date_time.py"""

    @staticmethod
    def tzoffset(name, offset):
        if isinstance(offset, REAL_TD):
            return STZ(us_of(offset))
        return STZ(to_int_us(offset * US))       # dateutil: timedelta(seconds=offset), i.e. rounded to microseconds

    @staticmethod
    def tzutc():
        return STZ(0)


_SAVED = {}


def shim_of(v):
    """shim counterpart of one module global of date_time.py (None: leave it alone)"""
    import types
    if v is REAL_DT:
        return SDT
    if v is REAL_TD:
        return STD
    if isinstance(v, REAL_DT) and not isinstance(v, SDT):
        return as_sdt(v)
    if isinstance(v, REAL_TD) and not isinstance(v, STD):
        return STD.of(us_of(v))
    if isinstance(v, datetime.tzinfo) and not isinstance(v, STZ):
        return conv_tz(v)
    if isinstance(v, types.ModuleType) and v.__name__ == 'dateutil.tz':
        return TZShim
    return None


def install():
    """swap the shims into the globals date_time.py's functions read (idempotent): the two type aliases, every
    datetime/timedelta/tzinfo constant and the dateutil.tz module reference - found by scanning the live module,
    so a constant added later is covered too"""
    from yaql.standard_library import date_time as dtm
    if _SAVED:
        return
    for k, v in list(vars(dtm).items()):
        sv = shim_of(v)
        if sv is not None:
            _SAVED[k] = v
            setattr(dtm, k, sv)


def uninstall():
    from yaql.standard_library import date_time as dtm
    for k, v in _SAVED.items():
        setattr(dtm, k, v)
    _SAVED.clear()


def floats_as_reals():
    """CrossHair 0.0.110 models a float either as a z3 Real (98% of the iterations; such paths are capped at
    'unknown') or as an IEEE double (2%).  C20 states its float laws "up to float rounding": the unit conversions
    and timestamps are claimed as exact rationals only (ASSUMPTIONS), so the harness process pins the Real
    representation and accepts verdicts obtained under it."""
    from crosshair.libimpl import builtinslib
    from crosshair import statespace
    builtinslib._PYTYPE_TO_WRAPPER_TYPE[float] = ((builtinslib.RealBasedSymbolicFloat, 1.0),)
    statespace.StateSpace.cap_result_at_unknown = lambda self: None
