"""Binding of one call to one signature: real FunctionDefinition.map_args/get_delegate (through runner.call) vs
Python-signature binding with hidden parameters removed.  Signature catalogue + reference binder."""
import itertools

import yaql
from yaql.language import exceptions, specs, utils, yaqltypes

ENG = yaql.YaqlFactory().create()
ROOT = yaql.create_context()


def default_of(n):
    return 1000 + int(n[1:])


def make_payload(shape, hidden_at):
    """shape: list of (name, kind, has_default), kind in pos|kwonly|var|varkw; hidden_at: index in the positional
    list where a hidden `context` parameter is injected (None: no hidden parameter)"""
    params = []
    pos = [p for p in shape if p[1] == 'pos']
    for i, (n, k, d) in enumerate(pos):
        if hidden_at == i:
            params.append('context=None' if any(x[2] for x in pos[:i]) else 'context')
        params.append(n + ('=%r' % default_of(n) if d else ''))
    if hidden_at is not None and hidden_at >= len(pos):
        params.append('context=None' if any(x[2] for x in pos) else 'context')
    if any(p[1] == 'var' for p in shape):
        params.append('*rest')
    elif any(p[1] == 'kwonly' for p in shape):
        params.append('*')
    for n, k, d in shape:
        if k == 'kwonly':
            params.append(n + ('=%r' % default_of(n) if d else ''))
    if any(p[1] == 'varkw' for p in shape):
        params.append('**extra')
    src = 'def f(%s):\n    return dict((k, v) for k, v in locals().items() if k != "context")' % ', '.join(params)
    ns = {}
    exec(src, ns)
    return ns['f'], src.split('\n')[0]


def type_func(name):
    return specs._infer_parameter_type(name) or yaqltypes.PythonType(int, False, [lambda t: not isinstance(t, bool)])


def catalogue():
    out = []
    for npos in range(0, 4):
        for nd in range(0, npos + 1):
            for var in (False, True):
                for kwo in (None, False, True):       # no kw-only / required kw-only / defaulted kw-only
                    for varkw in (False, True):
                        shape = [('p%d' % i, 'pos', i >= npos - nd) for i in range(npos)]
                        if var:
                            shape.append(('rest', 'var', False))
                        if kwo is not None:
                            shape.append(('k0', 'kwonly', kwo))
                        if varkw:
                            shape.append(('extra', 'varkw', False))
                        for hidden in [None] + list(range(npos + 1)):
                            out.append((shape, hidden))
    return out


CATALOGUE = catalogue()
_CTX = {}


def context_for(idx):
    if idx not in _CTX:
        shape, hidden = CATALOGUE[idx]
        f, src = make_payload(shape, hidden)
        ctx = ROOT.create_child_context()
        ctx.register_function(specs.get_function_definition(f, name='f', parameter_type_func=type_func))
        _CTX[idx] = (ctx, src)
    return _CTX[idx]


def good(v):
    return isinstance(v, int) and not isinstance(v, bool)


def ref_bind(shape, args, kwargs):
    """-> dict of payload locals | None (no match) | 'UNSPEC' (empty slot + same name by keyword) |
    'SKIP-IN-VARARGS' (empty slot in the *args region)"""
    pos = [p for p in shape if p[1] == 'pos']
    kwo = [p for p in shape if p[1] == 'kwonly']
    has_var = any(p[1] == 'var' for p in shape)
    has_kw = any(p[1] == 'varkw' for p in shape)
    out = {}
    kwargs = dict(kwargs)
    if len(args) > len(pos) and not has_var:
        return None
    for i, (n, k, d) in enumerate(pos):
        if i < len(args) and args[i] is not utils.NO_VALUE:
            if n in kwargs:
                return None
            out[n] = args[i]
        elif i < len(args):
            if n in kwargs:
                return 'UNSPEC'
            if not d:
                return None
            out[n] = default_of(n)
        elif n in kwargs:
            out[n] = kwargs.pop(n)
        elif d:
            out[n] = default_of(n)
        else:
            return None
    if has_var:
        rest = args[len(pos):]
        if any(a is utils.NO_VALUE for a in rest):
            return 'SKIP-IN-VARARGS'
        out['rest'] = tuple(rest)
    for n, k, d in kwo:
        if n in kwargs:
            out[n] = kwargs.pop(n)
        elif d:
            out[n] = default_of(n)
        else:
            return None
    if kwargs:
        if not has_kw:
            return None
        out['extra'] = kwargs
    elif has_kw:
        out['extra'] = {}
    # type check: every bound value must be a non-boolean int
    flat = []
    for k, v in out.items():
        if k == 'rest':
            flat.extend(v)
        elif k == 'extra':
            flat.extend(v.values())
        else:
            flat.append(v)
    if not all(good(v) for v in flat):
        return None
    return out


def real_bind(idx, args, kwargs):
    ctx, _ = context_for(idx)
    try:
        got = ctx('f', ENG)(*args, **kwargs)
        got.pop('f', None)
        return got
    except exceptions.NoMatchingFunctionException:
        return None
    except Exception as e:
        return 'EXC ' + type(e).__name__ + ': ' + str(e)[:80]
