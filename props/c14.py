"""C14 - streaming operators consume only what they need from their source.

Real code run symbolically: dispatch (runner.call/choose_overload/map_args, yaqltypes.Iterable/Lambda converters,
utils.limit_iterable) and payloads of the streaming operators of queries.py / collections.py, utils.memorize, the
member projection operator, the short-circuit searches, evaluated with yaql.convertOutputData=False over an
instrumented ENDLESS source (0, 1, 2, ...) that counts pulls and raises a sentinel after its budget.
"""
import itertools
import resource

try:
    resource.setrlimit(resource.RLIMIT_AS, (8 << 30, 8 << 30))
except Exception:  # pragma: no cover
    pass

from vf import h as H
from vf import yq
from yaql.language import expressions as yexpr
from yaql.language import specs as yspecs
from yaql.language import utils as yutils

ID = 'C14'
KNOWN = set(H.P('known', ()))
MODE = H.P('mode', 'api')
BUDGET = H.P('budget', 12)               # pulls after which the source raises the sentinel
DMAX = H.P('dmax', 3)                    # results demanded: 0..DMAX
IMAX = H.P('imax', 2)                    # integer arguments: 0..IMAX
DEPTH = H.P('depth', 1)
KMAX = H.P('kmax')                       # lambda constants in -1..KMAX (None: unbounded)
SEQ = H.P('seq')                        # None: endless iterator source; n: in-memory sequence 0..n-1
ENTRY = H.P('entry', 'var')              # 'var': source is the context variable $s; 'data': the statement's data ($),
                                         # through convert_input_data; 'data@re': data, as a re-iterable host object
LIMIT = H.P('limit')                     # yaql.limitIterators of the engine (None: library default -1)
ENG = yq.ENG_RAW if LIMIT is None else yq.FACTORY.create(
    options={'yaql.convertOutputData': False, 'yaql.limitIterators': LIMIT})

FUNCTIONS_ENCODED = [
    'yaql.language.runner.call/choose_overload', 'yaql.language.specs.FunctionDefinition.map_args/get_delegate',
    'yaql.language.yaqltypes.Iterable/Lambda (check, convert, limit_iterable wrapper)', 'yaql.language.utils.memorize',
    'yaql.standard_library.queries: where select collection_attribution skip limit append distinct enumerate_ any_ all_ '
    'concat first select_many zip_ join take_while skip_while index_of index_where slice_ accumulate memorize',
    'yaql.standard_library.collections: delete replace iter_insert insert_many replace_many']
BOUNDS = {
    'quick': 'every operator of the list alone, and 2-operator pipelines: every operator as first, the second chosen '
             'by a symbolic selector among a VERIF_SEED-rotated seventh of the table (constants there in -1..3); source = endless counting iterator 0,1,2,... with budget 12; '
             'results demanded k in 0..3 (symbolic), integer arguments in 0..2 (symbolic), lambda constants unbounded '
             'symbolic ints restricted only by "the ideal pipeline terminates within the budget"; call API with counting '
             'Python lambdas; every single operator also as YAQL text with tick($) lambdas (budget 8, k<=2, ints<=1); '
             'every single operator and the pipelines that start with a memorized iterator (memorize, let-bound '
             'memorize, defaultIfEmpty, assert) also under an engine with yaql.limitIterators=50 (not reached)',
    'thorough': 'all 2-operator pipelines (call API and YAQL text), 3- and 4-operator pipelines with every later '
                'operator chosen by symbolic selectors (k in 0..2, ints in 0..1), budget 14'}
OUTSIDE = ['a yaql.limitIterators limit that is actually reached (C08)', 'operators that materialise by definition (orderBy, groupBy, reverse, last, splitAt, toList, ...)',
           "join's inner side", 'sources whose values are not the ascending integers (values are concrete, the demand, '
           'the integer arguments, the lambda constants and the pipeline shape are symbolic)',
           'pipelines longer than 4 operators']
ASSUMPTIONS = [
    'the ideal consumption is that of the same pipeline built from Python generators / itertools over an identical '
    'counting source; one extra pull / lambda application is allowed (property text: "plus one")',
    'a pipeline whose ideal version does not produce k results within the budget is outside the claim (precondition)',
    'values produced are not compared here (C13 does that); only pulls, lambda applications and termination']
EXPLANATION = ('Bounded symbolic execution (CrossHair+z3) of real yaql pipelines of streaming operators over an '
               'instrumented endless source with a pull budget: demand, integer arguments, lambda constants and the '
               'choice of operators are symbolic; pulls and lambda applications are compared with an ideal lazy '
               'pipeline of Python generators over an identical source; reaching the budget (non-termination) is an '
               'assertion failure. Short-circuit searches are also checked against their closed-form bound.')
TECHNIQUE = 'bounded symbolic execution (CrossHair+z3) of the real code over an instrumented endless source vs ideal lazy pipeline; replay on CPython'


K_INSERT = 'C14/insert-pulls-element-before-yielding-inserted-value'
PROBE = H.P('probe_key')


class Undefined(Exception):
    """the ideal pipeline hits an input on which an operator is not defined (accumulate of an empty input)"""


class Budget(Exception):
    """sentinel: the source was asked for more than its budget (stands for non-termination)"""


class Source:
    """endless one-shot iterator 0, 1, 2, ... (or {a: n} dictionaries) that counts pulls"""
    def __init__(self, budget, dicts=False, finite=None):
        self.pulls = 0
        self.budget = budget
        self.dicts = dicts
        self.finite = finite        # None: endless; n: the n values 0..n-1, then StopIteration

    def __iter__(self):
        return self

    def __next__(self):
        if self.finite is not None and self.pulls >= self.finite:
            raise StopIteration
        if self.pulls >= self.budget:
            raise Budget()
        v = self.pulls
        self.pulls += 1
        return yutils.FrozenDict(a=v) if self.dicts else v


class SeqSource(tuple):
    """in-memory sequence source (a tuple, so yaql sees a Sequence); its iterators count the elements handed out for
    the report only: list overloads may copy or index it, so the count is not compared"""
    pulls = 0

    def __iter__(self):
        for v in tuple.__iter__(self):
            self.pulls += 1
            yield v


class ReIterable:
    """host-supplied lazy collection: iterable, neither an iterator nor sized; hands out the one counting source"""

    def __init__(self, src):
        self.src = src

    def __iter__(self):
        return self.src


def make_source(budget, dicts, ideal):
    if SEQ is None:
        return Source(budget, dicts=dicts)
    if ideal:
        return Source(budget, dicts=dicts, finite=SEQ)
    return SeqSource(yutils.FrozenDict(a=v) if dicts else v for v in range(SEQ))


class Ticks:
    def __init__(self):
        self.n = 0

    def __call__(self, x=None):
        self.n += 1
        return x


def M(name, recv, *a, **kw):
    return yq.ROOT(name, ENG, recv, use_convention=True)(*a, **kw)


REAL_TICKS = Ticks()
CTX = yq.ROOT.create_child_context()


@yspecs.name('tick')
def _tick(value):
    REAL_TICKS.n += 1
    return value


CTX.register_function(_tick)


# ------------------------------------------------------------------------------------------------ operator table
class Op:
    def __init__(self, name, text, api, ideal, needs_int=True, out_int=True, terminal=False, uses=(), dict_src=False,
                 closed=None, wrap=None):
        self.name, self.text, self.api, self.ideal = name, text, api, ideal
        self.needs_int, self.out_int, self.terminal, self.uses = needs_int, out_int, terminal, uses
        self.dict_src = dict_src
        self.wrap = wrap            # first-stage only: text template around the source expression
        self.first_only = dict_src or wrap is not None
        self.closed = closed        # closed-form pull count on the raw source (searches)


def g_select_many(it, a):
    for x in it:
        a['T']()
        yield x
        yield a['k']


def g_distinct(it, keyf):
    seen = set()
    for x in it:
        key = keyf(x)
        if key not in seen:
            seen.add(key)
            yield x


def g_insert(it, pos, val):
    n = 0
    while True:
        if n == pos:
            yield val
        try:
            x = next(it)
        except StopIteration:
            break
        yield x
        n += 1
    if pos > n:
        yield val


def g_delete(it, pos, count):
    for n, x in enumerate(it):
        if not (pos <= n < pos + count):
            yield x


def g_replace(it, pos, val, count):
    n = 0
    done = False
    while True:
        if pos <= n < pos + count and not done:
            # an ideal implementation can emit the replacement as soon as it knows element `pos` exists
            try:
                next(it)
            except StopIteration:
                return
            n += 1
            done = True
            yield val
            continue
        try:
            x = next(it)
        except StopIteration:
            return
        if not (pos <= n < pos + count):
            yield x
        n += 1


def g_slice(it, size):
    while True:
        chunk = list(itertools.islice(it, size))
        if not chunk:
            return
        yield chunk


def g_accumulate(it, a):
    try:
        total = next(it)
    except StopIteration:
        raise Undefined()
    yield total
    for x in it:
        total = a['T'](total + x)
        yield total


def g_join(it, a):
    for x in it:
        for y in (1, 2):
            if a['T'](x) >= a['k']:
                yield [x, y]


def first_true(gen):
    """short-circuit any() (the builtin is replaced by CrossHair with a version that consumes its whole argument)"""
    for b in gen:
        if b:
            return True
    return False


def g_default_if_empty(it, a):
    """not on the property's list, used as a producer of memorized iterators: by its meaning (it returns either the
    collection or the default) it has to look at one element when it is called, so the ideal version does that too"""
    try:
        first = next(it)
    except StopIteration:
        return iter([0])
    return itertools.chain([first], it)


def tk(a, x):
    return a['T'](x)


OPS = [
    Op('select', 'select(tick($) + $k%d)', lambda x, a: M('select', x, lambda y: tk(a, y) + a['k']),
       lambda it, a: (tk(a, y) + a['k'] for y in it), uses=('k',)),
    Op('where', 'where(tick($) > $k%d)', lambda x, a: M('where', x, lambda y: tk(a, y) > a['k']),
       lambda it, a: (y for y in it if tk(a, y) > a['k']), uses=('k',)),
    Op('where.mod', 'where(tick($) mod 2 = $k%d)', lambda x, a: M('where', x, lambda y: tk(a, y) % 2 == a['k']),
       lambda it, a: (y for y in it if tk(a, y) % 2 == a['k']), uses=('k',)),
    Op('selectMany', 'selectMany([tick($), $k%d])', lambda x, a: M('selectMany', x, lambda y: (tk(a, y), a['k'])),
       g_select_many, uses=('k',)),
    Op('skip', 'skip($i%d)', lambda x, a: M('skip', x, a['i']), lambda it, a: itertools.islice(it, a['i'], None),
       needs_int=False, uses=('i',)),
    Op('take', 'take($i%d)', lambda x, a: M('take', x, a['i']), lambda it, a: itertools.islice(it, a['i']),
       needs_int=False, uses=('i',)),
    Op('takeWhile', 'takeWhile(tick($) < $k%d)', lambda x, a: M('takeWhile', x, lambda y: tk(a, y) < a['k']),
       lambda it, a: itertools.takewhile(lambda y: tk(a, y) < a['k'], it), uses=('k',)),
    Op('skipWhile', 'skipWhile(tick($) < $k%d)', lambda x, a: M('skipWhile', x, lambda y: tk(a, y) < a['k']),
       lambda it, a: itertools.dropwhile(lambda y: tk(a, y) < a['k'], it), uses=('k',)),
    Op('append', 'append($k%d)', lambda x, a: M('append', x, a['k']), lambda it, a: itertools.chain(it, [a['k']]),
       needs_int=False, uses=('k',)),
    Op('concat', 'concat($o)', lambda x, a: M('concat', x, a['o']), lambda it, a: itertools.chain(it, a['o']),
       needs_int=False, uses=('o',)),
    Op('distinct', 'distinct()', lambda x, a: M('distinct', x), lambda it, a: g_distinct(it, lambda y: y)),
    Op('distinct.key', 'distinct(tick($) / 2)', lambda x, a: M('distinct', x, lambda y: tk(a, y) // 2),
       lambda it, a: g_distinct(it, lambda y: tk(a, y) // 2)),
    Op('enumerate', 'enumerate($i%d)', lambda x, a: M('enumerate', x, a['i']),
       lambda it, a: ([n, y] for n, y in enumerate(it, a['i'])), needs_int=False, out_int=False, uses=('i',)),
    Op('zip', 'zip($o)', lambda x, a: M('zip', x, a['o']), lambda it, a: zip(it, a['o']), needs_int=False,
       out_int=False, uses=('o',)),
    Op('accumulate', 'accumulate(tick($1 + $2))', lambda x, a: M('accumulate', x, lambda p, q: tk(a, p + q)),
       g_accumulate),
    Op('insert', 'insert($i%d, $k%d)', lambda x, a: M('insert', x, a['i'], a['k']),
       lambda it, a: g_insert(it, a['i'], a['k']), needs_int=False, uses=('i', 'k')),
    Op('delete', 'delete($i%d, $j%d)', lambda x, a: M('delete', x, a['i'], a['j']),
       lambda it, a: g_delete(it, a['i'], a['j']), needs_int=False, uses=('i', 'j')),
    Op('replace', 'replace($i%d, $k%d, $j%d)', lambda x, a: M('replace', x, a['i'], a['k'], a['j']),
       lambda it, a: g_replace(it, a['i'], a['k'], a['j']), needs_int=False, uses=('i', 'j', 'k')),
    # default-argument forms of the streaming operators
    Op('enumerate.default', 'enumerate()', lambda x, a: M('enumerate', x), lambda it, a: ([n, y] for n, y in enumerate(it)),
       needs_int=False, out_int=False),
    Op('delete.default', 'delete($i%d)', lambda x, a: M('delete', x, a['i']), lambda it, a: g_delete(it, a['i'], 1),
       needs_int=False, uses=('i',)),
    Op('replace.default', 'replace($i%d, $k%d)', lambda x, a: M('replace', x, a['i'], a['k']),
       lambda it, a: g_replace(it, a['i'], a['k'], 1), needs_int=False, uses=('i', 'k')),
    Op('slice', 'slice($i%d + 1)', lambda x, a: M('slice', x, a['i'] + 1), lambda it, a: g_slice(it, a['i'] + 1),
       needs_int=False, out_int=False, uses=('i',)),
    Op('memorize', 'memorize()', lambda x, a: M('memorize', x), lambda it, a: it, needs_int=False),
    Op('join.outer', 'join([1, 2], tick($1) >= $k%d, [$1, $2])',
       lambda x, a: M('join', x, (1, 2), lambda p, q: tk(a, p) >= a['k'], lambda p, q: (p, q)), g_join,
       out_int=False, uses=('k',)),
    Op('insertMany', 'insertMany($i%d, [$k%d, $k%d])', lambda x, a: M('insertMany', x, a['i'], (a['k'], a['k'])),
       lambda it, a: g_insert_many(it, a['i'], a['k']), needs_int=False, uses=('i', 'k')),
    Op('replaceMany', 'replaceMany($i%d, [$k%d], $j%d)', lambda x, a: M('replaceMany', x, a['i'], (a['k'],), a['j']),
       lambda it, a: g_replace(it, a['i'], a['k'], a['j']), needs_int=False, uses=('i', 'j', 'k')),
    # operators that hand on a memorized iterator (utils.memorize): defaultIfEmpty, assert, a let-bound memorize
    Op('defaultIfEmpty', 'defaultIfEmpty([0])', lambda x, a: M('defaultIfEmpty', x, (0,)), g_default_if_empty,
       needs_int=False),
    Op('assert', 'assert(true)', lambda x, a: M('assert', x, lambda o: True), lambda it, a: it, needs_int=False),
    Op('memorize.let', '', lambda x, a: M('memorize', x), lambda it, a: it, needs_int=False,
       wrap='let(mm => %s.memorize()) -> $mm'),
    # member projection: only as first operator, over the dictionary source
    Op('projection', 'a', lambda x, a: yq.ROOT('#operator_.', ENG)(x, yexpr.KeywordConstant('a')),
       lambda it, a: (d['a'] for d in it), needs_int=False, dict_src=True),
    # short-circuit searches (terminal)
    Op('first', 'first()', lambda x, a: M('first', x), lambda it, a: next(it), needs_int=False, terminal=True,
       closed=lambda a: 1),
    Op('any', 'any(tick($) > $k%d)', lambda x, a: M('any', x, lambda y: tk(a, y) > a['k']),
       lambda it, a: first_true(tk(a, y) > a['k'] for y in it), terminal=True, uses=('k',),
       closed=lambda a: a['k'] + 2 if a['k'] >= 0 else 1),
    # default-argument forms of the searches
    Op('any.nopred', 'any()', lambda x, a: M('any', x), lambda it, a: first_true(True for y in it), needs_int=False,
       terminal=True, closed=lambda a: 1),
    Op('all.nopred', 'all()', lambda x, a: M('all', x), lambda it, a: not first_true(not y for y in it),
       terminal=True, closed=lambda a: 1),
    Op('first.default', 'first($k%d)', lambda x, a: M('first', x, a['k']), lambda it, a: next(it), needs_int=False,
       terminal=True, uses=('k',), closed=lambda a: 1),
    Op('all', 'all(tick($) < $k%d)', lambda x, a: M('all', x, lambda y: tk(a, y) < a['k']),
       lambda it, a: not first_true(not (tk(a, y) < a['k']) for y in it), terminal=True, uses=('k',),
       closed=lambda a: a['k'] + 1 if a['k'] >= 0 else 1),
    Op('indexOf', 'indexOf($k%d)', lambda x, a: M('indexOf', x, a['k']),
       lambda it, a: next(n for n, y in enumerate(it) if y == a['k']), terminal=True, uses=('k',),
       closed=lambda a: a['k'] + 1),
    Op('indexWhere', 'indexWhere(tick($) > $k%d)', lambda x, a: M('indexWhere', x, lambda y: tk(a, y) > a['k']),
       lambda it, a: next(n for n, y in enumerate(it) if tk(a, y) > a['k']), terminal=True, uses=('k',),
       closed=lambda a: a['k'] + 2 if a['k'] >= 0 else 1),
]


def g_insert_many(it, pos, val):
    n = 0
    while True:
        if n == pos:
            yield val
            yield val
        try:
            x = next(it)
        except StopIteration:
            break
        yield x
        n += 1
    if pos > n:
        yield val
        yield val


NOPS = len(OPS)
NAMES = [o.name for o in OPS]
STREAMING = [n for n, o in enumerate(OPS) if not o.terminal and not o.first_only]
LATER = [n for n, o in enumerate(OPS) if not o.first_only]          # what may follow a first operator
S_SETS = {}
for _d in (2, 3, 4):
    S_SETS[_d] = H.P('s%dset' % _d) or LATER


def valid(sels):
    """concrete well-formedness of a pipeline shape: searches only last, lambdas only over integer elements"""
    ints = True
    for pos, s in enumerate(sels):
        o = OPS[s]
        if o.first_only and pos != 0:
            return False
        if o.terminal and pos != len(sels) - 1:
            return False
        if o.needs_int and not ints:
            return False
        ints = ints and o.out_int
    return True


def finding_key(sels):
    """class of the listed finding: insert/insertMany as a non-first stage (its one-element read-ahead is then paid
    in source elements of the stages before it)"""
    for pos, s in enumerate(sels):
        if pos > 0 and OPS[s].name in ('insert', 'insertMany'):
            return K_INSERT
    return None


def stage_args(sels, ints, consts, ticks, budget):
    args = []
    others = []
    for pos, s in enumerate(sels):
        o = Source(budget)
        others.append(o)
        args.append({'i': ints[2 * pos], 'j': ints[2 * pos + 1], 'k': consts[pos], 'T': ticks, 'o': o})
    return args, others


def pull(result, sels, demand):
    """ask for exactly `demand` results (a search is evaluated by the call itself)"""
    if OPS[sels[-1]].terminal:
        return
    it = iter(result)
    for _ in range(demand):
        try:
            next(it)
        except StopIteration:
            return


def run_ideal(sels, demand, ints, consts, budget):
    ticks = Ticks()
    src = make_source(budget, OPS[sels[0]].dict_src, True)
    args, others = stage_args(sels, ints, consts, ticks, budget)
    try:
        x = src
        for pos, s in enumerate(sels):
            x = OPS[s].ideal(x, args[pos])
        pull(x, sels, demand)
    except Budget:
        return None
    except Undefined:
        return None
    except StopIteration:       # a search on a finite intermediate that finds nothing / first() of nothing: undefined
        return None
    return src.pulls, ticks.n, [o.pulls for o in others]


def pipe_text(sels):
    parts = ['$' if ENTRY != 'var' else ('$sd' if OPS[sels[0]].dict_src else '$s')]
    for pos, s in enumerate(sels):
        if OPS[s].wrap:
            parts = [OPS[s].wrap % parts[0]]
            continue
        t = OPS[s].text
        if '$o' in t:
            t = t.replace('$o', '$o%d' % (pos + 1))
        parts.append(t.replace('%d', str(pos + 1)))
    return '.'.join(parts)


def run_real(sels, demand, ints, consts, budget):
    src = make_source(budget, OPS[sels[0]].dict_src, False)
    if MODE == 'text':
        with H.NoTracing():
            text = pipe_text([int(s) for s in sels])
            REAL_TICKS.n = 0
        kw = {'sd' if OPS[sels[0]].dict_src else 's': src}
        data = yutils.NO_VALUE
        if ENTRY != 'var':
            kw, data = {}, (ReIterable(src) if ENTRY == 'data@re' else src)
        others = []
        for pos in range(len(sels)):
            o = Source(budget)
            others.append(o)
            kw['o%d' % (pos + 1)] = o
            kw['i%d' % (pos + 1)] = ints[2 * pos]
            kw['j%d' % (pos + 1)] = ints[2 * pos + 1]
            kw['k%d' % (pos + 1)] = consts[pos]
        try:
            res = yq.ev(text, data, eng=ENG, ctx=CTX, **kw)
            pull(res, sels, demand)
        except Exception as ex:
            return ('raised', type(ex).__name__, src.pulls)
        return src.pulls, REAL_TICKS.n, [o.pulls for o in others]
    ticks = Ticks()
    args, others = stage_args(sels, ints, consts, ticks, budget)
    try:
        x = src
        for pos, s in enumerate(sels):
            x = OPS[s].api(x, args[pos])
        pull(x, sels, demand)
    except Exception as ex:
        return ('raised', type(ex).__name__, src.pulls)
    return src.pulls, ticks.n, [o.pulls for o in others]


def in_domain(sels, demand, ints, consts):
    if not (0 <= demand <= DMAX):
        return False
    for pos, s in enumerate(sels):
        uses = OPS[s].uses
        # arguments an operator does not use are never touched, hence left unconstrained (no branching on them)
        for slot, name in ((2 * pos, 'i'), (2 * pos + 1, 'j')):
            if name in uses and not (0 <= ints[slot] <= IMAX):
                return False
        if 'k' in uses and KMAX is not None and not (-1 <= consts[pos] <= KMAX):
            return False
    with H.NoTracing():
        try:
            shape_ok = valid([int(s) for s in sels])
        except Exception:
            shape_ok = False
    if not shape_ok:
        return False
    with H.NoTracing():
        fk = finding_key([int(s) for s in sels])
    if PROBE:
        if fk != PROBE:
            return False
    elif fk is not None and fk in KNOWN:
        return False
    ideal = run_ideal(sels, demand, ints, consts, BUDGET - 2)
    return ideal is not None


def compare(real, ideal):
    if real[0] == 'raised':
        return False
    if real[1] > ideal[1] + 1:
        return False
    if SEQ is not None:
        # an in-memory sequence may be copied or indexed by list overloads (list.insert, list.delete, ...): reading
        # its elements has no effect, so only lambda applications, other sources and termination are compared there
        return all(a <= b + 1 for a, b in zip(real[2], ideal[2]))
    if real[0] > ideal[0] + 1:
        return False
    for a, b in zip(real[2], ideal[2]):
        if a > b + 1:
            return False
    return True


def check(sels, demand, ints, consts):
    real = run_real(sels, demand, ints, consts, BUDGET)
    ideal = run_ideal(sels, demand, ints, consts, BUDGET - 2)
    return compare(real, ideal), real, ideal


def selection(s2, s3, s4):
    sels = [H.P('s1', 0)]
    for d, s in ((2, s2), (3, s3), (4, s4)):
        if DEPTH >= d:
            sels.append(s)
    return sels


def sel_ok(s2, s3, s4):
    for d, s in ((2, s2), (3, s3), (4, s4)):
        if DEPTH >= d and s not in S_SETS[d]:
            return False
    return True


def ints_of(i1, j1, i2, j2, i3, j3, i4, j4):
    return [i1, j1, i2, j2, i3, j3, i4, j4]


def h_pipe(demand: int, s2: int, s3: int, s4: int, i1: int, j1: int, k1: int, i2: int, j2: int, k2: int,
           i3: int, j3: int, k3: int, i4: int, j4: int, k4: int) -> bool:
    """
    pre: sel_ok(s2, s3, s4)
    pre: in_domain(selection(s2, s3, s4), demand, ints_of(i1, j1, i2, j2, i3, j3, i4, j4), [k1, k2, k3, k4])
    pre: H.fresh(demand, s2, s3, s4, i1, j1, k1, i2, j2, k2, i3, j3, k3, i4, j4, k4)
    post: _
    """
    sels = selection(s2, s3, s4)
    return H.done(check(sels, demand, ints_of(i1, j1, i2, j2, i3, j3, i4, j4), [k1, k2, k3, k4])[0])


def h_search(k: int) -> bool:
    """
    pre: -2 <= k <= BUDGET - 4
    pre: k >= 0 or OPS[H.P('s1', 0)].name != 'indexOf'
    pre: H.fresh(k)
    post: _
    """
    # closed-form bound of a short-circuit search on the raw source: what the answer requires, plus one
    s = H.P('s1', 0)
    o = OPS[s]
    real = run_real([s], 0, [0] * 8, [k, 0, 0, 0], BUDGET)
    bound = o.closed({'k': k})
    ok = real[0] != 'raised' and real[0] <= bound + 1 and real[1] <= bound + 1
    return H.done(ok)


# ------------------------------------------------------------------------------------------------ conditions
def conditions(tier, seed):
    quick = tier == 'quick'
    out = []
    budget = 12 if quick else 14
    ntext = 0
    for s1, o in enumerate(OPS):
        for mode in ('api', 'text'):
            # YAQL-text evaluation costs ~1.5 s per path at the API bounds: quick uses budget 8, k<=2, ints<=1 there
            small = quick and mode == 'text'
            if mode == 'text' and not quick:
                prm = {'s1': s1, 'depth': 1, 'mode': mode, 'budget': 10, 'dmax': 3, 'imax': 2, 'kmax': 6}
            else:
                prm = {'s1': s1, 'depth': 1, 'mode': mode, 'budget': 8 if small else budget,
                       'dmax': 2 if small else (3 if quick else 4), 'imax': 1 if small else (2 if quick else 3)}
            out.append({'name': 'single[%s|%s]' % (o.name, mode), 'func': 'h_pipe', 'timeout': 200 if quick else 600,
                        'param': prm, 'twin': mode == 'api',
                        'bounds': '$s.%s over the endless counting source (budget %d): k in 0..%d, int arguments in '
                                  '0..%d, lambda constant symbolic; %s' % (
                                      o.text.replace('%d', ''), prm['budget'], prm['dmax'], prm['imax'],
                                      'call API, counting Python lambdas' if mode == 'api' else
                                      'YAQL text, lambdas go through tick()')})
        if o.closed is not None:
            for mode in ('api', 'text'):
                out.append({'name': 'search[%s|%s]' % (o.name, mode), 'func': 'h_search', 'timeout': 200,
                            'param': {'s1': s1, 'mode': mode, 'budget': 8 if (quick and mode == 'text') else budget},
                            'twin': mode == 'api',
                            'bounds': '$s.%s on the raw source: pulls and lambda applications <= closed form + 1, '
                                      'constant in -2..budget-4' % o.text.replace('%d', '')})
    if K_INSERT in KNOWN:
        out.append({'name': 'probe[insert-read-ahead]', 'func': 'h_pipe', 'timeout': 100, 'kind': 'probe',
                    'param': {'s1': NAMES.index('where.mod'), 'depth': 2, 'mode': 'api', 'budget': budget, 'dmax': 2,
                              'imax': 1, 's2set': [NAMES.index('insert'), NAMES.index('insertMany')],
                              'probe_key': K_INSERT},
                    'bounds': '$s.where(tick($) mod 2 = $k1).insert/insertMany($i2, ...) asked for k in 0..2 results'})
    # in-memory sequence source: a list must be consumed as lazily as an iterator (no pre-filtering, no copy through
    # the lambda); the ideal pipeline runs over an iterator of the same values
    for s1, o in enumerate(OPS):
        for mode in (('api',) if quick else ('api', 'text')):
            out.append({'name': 'seqsrc[%s|%s]' % (o.name, mode), 'func': 'h_pipe', 'timeout': 200 if quick else 600,
                        'twin': False,
                        'param': {'s1': s1, 'depth': 1, 'mode': mode, 'budget': budget, 'dmax': 2 if quick else 3,
                                  'imax': 1 if quick else 2, 'kmax': 3 if quick else 5, 'seq': 5 if quick else 7},
                        'bounds': '$s.%s with $s an in-memory tuple 0..%d whose iterators count: k in 0..%d, ints in '
                                  '0..%d, lambda constants in -1..%d; %s' % (
                                      o.text.replace('%d', ''), (5 if quick else 7) - 1, 2 if quick else 3,
                                      1 if quick else 2, 3 if quick else 5, mode)})
    # the source handed over as the statement's data (`$`, through convert_input_data) instead of a context variable:
    # as an iterator and as a re-iterable, unsized host object
    entry_ops = ['take', 'where', 'select', 'first', 'any.nopred', 'indexWhere'] if quick else NAMES
    for name in entry_ops:
        if OPS[NAMES.index(name)].first_only:
            continue
        for entry in ('data', 'data@re'):
            out.append({'name': 'entry[%s|%s]' % (name, entry), 'func': 'h_pipe', 'timeout': 200 if quick else 600,
                        'twin': False,
                        'param': {'s1': NAMES.index(name), 'depth': 1, 'mode': 'text', 'budget': 8, 'dmax': 2, 'imax': 1,
                                  'kmax': 2, 'entry': entry},
                        'bounds': '$.%s with the endless source given as evaluate(data=...) %s: k in 0..2, ints in 0..1, '
                                  'lambda constants in -1..2; YAQL text' % (
                                      OPS[NAMES.index(name)].text.replace('%d', ''),
                                      'as an iterator' if entry == 'data' else 'as a re-iterable unsized host object')})
    # a sparse producer followed by a bounded consumer, drained past its last result (k may exceed what the consumer
    # can deliver): a consumer that asks upstream for one result more than it hands on pays a whole scan for it
    sparse = [NAMES.index(x) for x in ('where', 'where.mod', 'skipWhile', 'distinct.key')]
    bounded = [NAMES.index(x) for x in ('take', 'takeWhile', 'slice', 'first', 'any', 'indexOf', 'delete')]
    for s1 in sparse:
        out.append({'name': 'sparse_bounded[%s]' % OPS[s1].name, 'func': 'h_pipe', 'timeout': 300 if quick else 900,
                    'param': {'s1': s1, 'depth': 2, 'mode': 'api', 'budget': budget, 'dmax': 3, 'imax': 2,
                              'kmax': 2 if quick else 5, 's2set': bounded},
                    'bounds': '$s.%s.<op2>, op2 by symbolic selector among %s; k in 0..3 (beyond what op2 can deliver), '
                              'ints in 0..2, lambda constants in -1..%d; call API'
                              % (OPS[s1].name, [NAMES[x] for x in bounded], 2 if quick else 5)})
    # 2-operator pipelines: first fixed, second by symbolic selector (thirds of the table)
    firsts = [n for n, o in enumerate(OPS) if not o.terminal]
    thirds = [LATER[t::3] for t in range(3)]
    if quick:
        for s1 in firsts:
            tn = (seed + s1) % 7
            seventh = LATER[tn::7]
            out.append({'name': 'pipe2[%s|seventh%d]' % (OPS[s1].name, tn), 'func': 'h_pipe', 'timeout': 200,
                        'param': {'s1': s1, 'depth': 2, 'mode': 'api', 'budget': budget, 'dmax': 2, 'imax': 1,
                                  'kmax': 3, 's2set': seventh},
                        'bounds': '$s.%s.<op2>, op2 by symbolic selector among %s (a VERIF_SEED-rotated seventh of the '
                                  'table); k in 0..2, ints in 0..1, lambda constants in -1..3; call API'
                                  % (OPS[s1].name, [NAMES[x] for x in seventh])})
    else:
        for s1 in firsts:
            for tn in range(3):
                out.append({'name': 'pipe2[%s|third%d|api]' % (OPS[s1].name, tn), 'func': 'h_pipe', 'timeout': 900,
                            'param': {'s1': s1, 'depth': 2, 'mode': 'api', 'budget': budget, 'dmax': 2, 'imax': 1,
                                      'kmax': 4, 's2set': thirds[tn]},
                            'bounds': '$s.%s.<op2>, op2 by symbolic selector among %s; k in 0..2, ints in 0..1, '
                                      'lambda constants in -1..4; call API' % (OPS[s1].name,
                                                                               [NAMES[x] for x in thirds[tn]])})
            seventh = LATER[s1 % 7::7]
            if s1 % 2 == 0:
                out.append({'name': 'pipe2[%s|seventh%d|text]' % (OPS[s1].name, s1 % 7), 'func': 'h_pipe', 'timeout': 900,
                        'param': {'s1': s1, 'depth': 2, 'mode': 'text', 'budget': 10, 'dmax': 2, 'imax': 1,
                                  'kmax': 2, 's2set': seventh},
                        'bounds': '$s.%s.<op2>, op2 by symbolic selector among %s; k in 0..2, ints in 0..1, lambda '
                                  'constants in -1..2; YAQL text, lambdas through tick()' % (
                                      OPS[s1].name, [NAMES[x] for x in seventh])})
        third_ops = [NAMES.index(x) for x in ('where', 'take', 'select', 'delete', 'first', 'any')]
        for s1 in [NAMES.index(x) for x in ('where', 'select', 'skip', 'projection')]:
            for s2 in [NAMES.index(x) for x in ('where', 'skip', 'select', 'distinct.key', 'takeWhile')]:
                out.append({'name': 'pipe3[%s|%s|*]' % (OPS[s1].name, OPS[s2].name), 'func': 'h_pipe', 'timeout': 900,
                            'param': {'s1': s1, 'depth': 3, 'mode': 'api', 'budget': budget, 'dmax': 2, 'imax': 1,
                                      'kmax': 2, 's2set': [s2], 's3set': third_ops},
                            'bounds': '3-operator pipelines $s.%s.%s.<op3>, op3 by symbolic selector among %s; k in '
                                      '0..2, ints in 0..1, lambda constants in -1..2'
                                      % (OPS[s1].name, OPS[s2].name, [NAMES[x] for x in third_ops])})
        t3 = [NAMES.index(x) for x in ('where', 'select', 'take')]
        t4 = [NAMES.index(x) for x in ('take', 'first', 'any')]
        for s1 in [NAMES.index(x) for x in ('where', 'select', 'skip')]:
            for s2 in [NAMES.index(x) for x in ('where', 'skip')]:
                out.append({'name': 'pipe4[%s|%s|*|*]' % (OPS[s1].name, OPS[s2].name), 'func': 'h_pipe',
                            'timeout': 900,
                            'param': {'s1': s1, 'depth': 4, 'mode': 'api', 'budget': budget, 'dmax': 1, 'imax': 1,
                                      'kmax': 1, 's2set': [s2], 's3set': t3, 's4set': t4},
                            'bounds': '4-operator pipelines $s.%s.%s.<op3>.<op4>, op3 among %s, op4 among %s by symbolic '
                                      'selectors; k in 0..1, ints in 0..1, lambda constants in -1..1'
                                      % (OPS[s1].name, OPS[s2].name, [NAMES[x] for x in t3], [NAMES[x] for x in t4])})
    # engine-option dimension: a configured yaql.limitIterators that is never reached must not change consumption
    memo = [NAMES.index(x) for x in ('memorize', 'memorize.let', 'defaultIfEmpty', 'assert')]
    for lim in ((50,) if quick else (50, 1000)):
        for s1, o in enumerate(OPS):
            out.append({'name': 'single[%s|api|limit=%d]' % (o.name, lim), 'func': 'h_pipe', 'timeout': 200,
                        'twin': False,
                        'param': {'s1': s1, 'depth': 1, 'mode': 'api', 'budget': budget, 'dmax': 3, 'imax': 2,
                                  'kmax': 4, 'limit': lim},
                        'bounds': '$s.%s under an engine with yaql.limitIterators=%d (never reached: budget %d): k in '
                                  '0..3, ints in 0..2, lambda constants in -1..4; call API' % (
                                      o.text.replace('%d', ''), lim, budget)})
        for s1 in memo:
            if quick:
                sets = [('seventh%d' % ((seed + s1) % 7), LATER[(seed + s1) % 7::7])]
            else:
                sets = [('third%d' % tn, thirds[tn]) for tn in range(3)]
            for label, s2set in sets:
                out.append({'name': 'pipe2[%s|%s|limit=%d]' % (OPS[s1].name, label, lim), 'func': 'h_pipe',
                            'timeout': 200 if quick else 900, 'twin': False,
                            'param': {'s1': s1, 'depth': 2, 'mode': 'api', 'budget': budget, 'dmax': 2, 'imax': 1,
                                      'kmax': 3, 's2set': s2set, 'limit': lim},
                            'bounds': 'memorized iterator handed to a second operator (%s, then op2 by symbolic selector '
                                      'among %s) under yaql.limitIterators=%d; k in 0..2, ints in 0..1, constants in '
                                      '-1..3; call API' % (OPS[s1].name, [NAMES[x] for x in s2set], lim)})
        letset = LATER[(seed + 3) % 7::7] if quick else LATER[::3]
        out.append({'name': 'pipe2[memorize.let|text|limit=%d]' % lim, 'func': 'h_pipe', 'timeout': 200 if quick else 900,
                    'twin': False,
                    'param': {'s1': NAMES.index('memorize.let'), 'depth': 2, 'mode': 'text', 'budget': 8, 'dmax': 2,
                              'imax': 1, 'kmax': 2, 's2set': letset, 'limit': lim},
                    'bounds': 'let(mm => $s.memorize()) -> $mm.<op2>, op2 by symbolic selector among %s, under '
                              'yaql.limitIterators=%d; YAQL text' % ([NAMES[x] for x in letset], lim)})
    if not quick:
        for s1 in firsts:
            if s1 in memo:
                continue
            seventh = LATER[(s1 + 3) % 7::7]
            out.append({'name': 'pipe2[%s|seventh%d|limit=1000]' % (OPS[s1].name, (s1 + 3) % 7), 'func': 'h_pipe',
                        'timeout': 900, 'twin': False,
                        'param': {'s1': s1, 'depth': 2, 'mode': 'api', 'budget': budget, 'dmax': 2, 'imax': 1,
                                  'kmax': 3, 's2set': seventh, 'limit': 1000},
                        'bounds': '$s.%s.<op2> under yaql.limitIterators=1000, op2 among %s; call API'
                                  % (OPS[s1].name, [NAMES[x] for x in seventh])})
    return out


def validate():
    """the ideal pipelines reproduce the pull counts recorded in DESIGN.md Appendix A (taken from the doc/test idioms)"""
    bad = []
    n = NAMES.index

    def ideal(sels, demand, ints, consts):
        ints = ints + [0] * (8 - len(ints))
        consts = consts + [0] * (4 - len(consts))
        r = run_ideal(sels, demand, ints, consts, 50)
        return r[0] if r else None
    table = [
        ([n('take')], 5, [3], [], 3),
        ([n('where'), n('take')], 5, [0, 0, 2], [2], 5),
        ([n('select'), n('skip'), n('take')], 5, [0, 0, 2, 0, 2, 0], [0], 4),
        ([n('takeWhile')], 9, [], [3], 4),
        ([n('skipWhile'), n('take')], 5, [0, 0, 1], [3], 4),
        ([n('distinct'), n('take')], 5, [0, 0, 2], [], 2),
        ([n('delete'), n('take')], 5, [1, 2, 3], [], 5),
        ([n('slice'), n('take')], 5, [1, 0, 2], [], 4),
        ([n('first')], 0, [], [], 1),
        ([n('any')], 0, [], [3], 5),
        ([n('all')], 0, [], [3], 4),
        ([n('indexOf')], 0, [], [4], 5),
        ([n('indexWhere')], 0, [], [4], 6),
        ([n('selectMany'), n('take')], 5, [0, 0, 3], [7], 2),
    ]
    for sels, demand, ints, consts, want in table:
        got = ideal(sels, demand, ints, consts)
        if got != want:
            bad.append('ideal pipeline %s pulls %r, recorded %r' % (pipe_text(sels), got, want))
    for s, o in enumerate(OPS):
        try:
            yq.stmt(pipe_text([s]), ENG)
        except Exception as ex:
            bad.append('text of %s does not parse: %r' % (o.name, ex))
    return bad[:6]


def replay(cond, args):
    vals = dict(args)
    func = cond['func']
    if func == 'h_search':
        s = H.P('s1', 0)
        k = vals['k']
        real = run_real([s], 0, [0] * 8, [k, 0, 0, 0], BUDGET)
        bound = OPS[s].closed({'k': k})
        bad = real[0] == 'raised' or real[0] > bound + 1 or real[1] > bound + 1
        if not bad or (k < 0 and OPS[s].name == 'indexOf'):
            return {'reproduced': False}
        return {'reproduced': True, 'key': 'C14/search/%s' % OPS[s].name,
                'what': '%s with k=%r on the endless source: %r (pulls, lambda calls), closed form %r + 1'
                        % (pipe_text([s]), k, real[:2], bound)}
    sels = selection(vals['s2'], vals['s3'], vals['s4'])
    ints = ints_of(*[vals[x] for x in ('i1', 'j1', 'i2', 'j2', 'i3', 'j3', 'i4', 'j4')])
    consts = [vals['k1'], vals['k2'], vals['k3'], vals['k4']]
    if not sel_ok(vals['s2'], vals['s3'], vals['s4']) or not in_domain(sels, vals['demand'], ints, consts):
        return {'reproduced': False, 'error': 'assignment outside the precondition'}
    ok, real, ideal = check(sels, vals['demand'], ints, consts)
    if ok:
        return {'reproduced': False}
    shape = '.'.join(OPS[s].name for s in sels)
    key = finding_key(sels) or 'C14/%s' % shape
    if real[0] == 'raised':
        obs = 'raised %s after %d pulls (budget %d)' % (real[1], real[2], BUDGET)
    else:
        obs = 'pulls %r lambda applications %r other sources %r' % (real[0], real[1], real[2])
    return {'reproduced': True, 'key': key,
            'what': '%s asked for %d results with ints=%r consts=%r: %s; ideal lazy pipeline: pulls %r lambda '
                    'applications %r other sources %r' % (pipe_text(sels), vals['demand'], ints, consts, obs,
                                                          ideal[0], ideal[1], ideal[2])}
