"""C12 helpers: live-registry enumeration, typed value corpus, spelling generator, reference binder.

Everything is derived from the LIVE registry (yaql.create_context()): parameter order, hidden parameters, defaults,
kinds.  The keyword name of a parameter is NOT read from the definition: it is recomputed from the declaration
(explicit alias given to @specs.parameter, else the python name with trailing underscores stripped and snake_case turned
into camelCase), so a definition that publishes another name is caught by the keyword spellings.
"""
import datetime
import re

import yaql
from yaql.language import specs
from yaql.language import utils
from yaql.language import yaqltypes

ROOT = yaql.create_context()


def all_definitions(ctx=None):
    out = []
    c = ctx or ROOT
    while c is not None:
        for name, s in c._functions.items():
            out.extend(s)
        c = c.parent
    return out


def explicit(fd):
    return fd.name[:1] not in ('#', '*')


def registry():
    """explicit definitions in a stable order, with a stable id `name#k`"""
    fds = sorted([fd for fd in all_definitions() if explicit(fd)],
                 key=lambda f: (f.name, f.payload.__module__, f.payload.__code__.co_firstlineno))
    out, seen = [], {}
    for fd in fds:
        k = seen.get(fd.name, 0)
        seen[fd.name] = k + 1
        out.append(('%s#%d' % (fd.name, k), fd))
    return out


def camel(name):
    """reference of the documented convention: trailing underscores stripped, snake_case -> camelCase"""
    name = name.rstrip('_')
    parts = name.split('_')
    out = parts[0]
    for i, p in enumerate(parts[1:]):
        if p == '':
            out += '_'
        elif out == '' and i == 0:
            out = '_' + p                         # leading underscore is kept
        else:
            out += p[0].upper() + p[1:]
    return out


def declared_alias(fd, p):
    """alias written in the decorator (kept on the payload's own definition), or None"""
    own = getattr(fd.payload, '__yaql_function__', None)
    if own is not None:
        for q in own.parameters.values():
            if q.name == p.name:
                return q.alias
    return None


def keyword_name(fd, p):
    return declared_alias(fd, p) or camel(p.name)


def hidden(p):
    return isinstance(p.value_type, yaqltypes.HiddenParameterType)


def lazy(p):
    return isinstance(p.value_type, yaqltypes.LazyParameterType)


class Sig:
    def __init__(self, fd):
        self.fd = fd
        ps = fd.parameters
        self.pos = sorted([p for k, p in ps.items() if p.position is not None and k != '*' and not hidden(p)],
                          key=lambda p: p.position)
        self.kwonly = [p for k, p in ps.items() if p.position is None and k != '**' and not hidden(p)]
        self.var = ps.get('*')
        self.varkw = ps.get('**')


# ------------------------------------------------------------------ typed corpus
LAMBDA_TEXT = {('aggregate', 'selector'): '$1 + $2', ('accumulate', 'selector'): '$1 + $2', ('reduce', 'selector'): '$1 + $2',
               ('generate', 'predicate'): '$ < 3', ('generate', 'producer'): '$ + 1', ('generateMany', 'producer'): '[]',
               ('join', 'predicate'): '$1 = $2', ('join', 'selector'): '[$1, $2]', ('def', 'func'): '$ + 1',
               ('mergeWith', 'listMerger'): '$1 + $2', ('mergeWith', 'itemMerger'): '$1', ('assert', 'condition'): '$ != 77',
               ('replaceBy', 'repl'): '$.value.toUpper()'}
TEXT_OVERRIDE = {('datetime', 'string'): '"2015-01-02T03:04:05"', ('format', 'format'): '"%Y-%m"',
                 ('regex', 'pattern'): '"a."', ('matches', 'regexp'): None, ('def', 'name'): 'foo',
                 ('call', 'name'): 'len', ('call', 'args'): '[[3, 1, 2]]', ('call', 'kwargs'): '{}',
                 ('datetime', 'format'): '"%Y-%m-%dT%H:%M:%S"', ('unpack', 'args'): None}
SUFFIX = {'let': ' -> [$1, $2, $zz]', 'with': ' -> [$1, $2]', 'def': ' -> foo(2)', 'unpack': ' -> [$x, $y, $z]'}
VAR_EXTRAS = {'unpack': ['x', 'y', 'z'], 'let': ['$i2', '$i3'], 'with': ['$i2', '$i3']}
NONDETERMINISTIC = ('now', 'random', 'localtz')


class Vars:
    """hands out harness variables $i0.., $s0.., $b0.."""

    def __init__(self):
        self.n = {'i': 0, 's': 0, 'b': 0}
        self.limit = {'i': 8, 's': 4, 'b': 12}

    def take(self, k):
        i = self.n[k]
        if i >= self.limit[k]:
            return None
        self.n[k] = i + 1
        return '$%s%d' % (k, i)


def corpus_text(fname, p, kw, vs):
    """YAQL text of a well-typed argument for parameter p, or None"""
    t = p.value_type
    if (fname, kw) in TEXT_OVERRIDE and TEXT_OVERRIDE[(fname, kw)] is not None:
        return TEXT_OVERRIDE[(fname, kw)]
    if isinstance(t, yaqltypes.Lambda):
        return LAMBDA_TEXT.get((fname, kw), '$')
    if isinstance(t, (yaqltypes.LazyParameterType, yaqltypes.Constant)):
        return None
    if isinstance(t, yaqltypes.String):
        return vs.take('s')
    if isinstance(t, (yaqltypes.Integer, yaqltypes.Number)):
        return vs.take('i')
    if isinstance(t, yaqltypes.DateTime):
        return 'datetime(2015, 1, 2)'
    if isinstance(t, yaqltypes.Iterator):
        return '[3, 1, 2].select($)'
    if isinstance(t, (yaqltypes.Iterable, yaqltypes.Sequence)):
        return '[3, 1, 2]'
    if type(t) is yaqltypes.PythonType:
        pt = t.python_type
        if pt is int:
            return vs.take('i')
        if pt is bool:
            return vs.take('b')
        if pt is object:
            return vs.take('i')
        if pt is utils.MappingType:
            return '{a => 1, b => 2}'
        if pt is utils.SetType:
            return 'set(1, 2)'
        if pt is datetime.timedelta:
            return 'timespan(hours => 1)'
        if pt is type(re.compile('a')):
            return 'regex("a.")'
        if isinstance(pt, type) and pt.__name__ == 'OrderingIterable':
            return '[3, 1, 2].orderBy($)'
        if isinstance(pt, type) and issubclass(utils.IteratorType, pt) or pt is utils.IteratorType:
            return '[3, 1, 2].select($)'
    return None


def literal(v):
    """YAQL literal of a default value, or None when it cannot be written"""
    if v is None:
        return 'null'
    if v is True:
        return 'true'
    if v is False:
        return 'false'
    if isinstance(v, int):
        return str(v) if v >= 0 else '(%d)' % v
    if isinstance(v, str) and all(c.isalnum() or c == ' ' for c in v):
        return '"%s"' % v
    if isinstance(v, datetime.timedelta) and v == datetime.timedelta(0):
        return 'timespan()'
    return None


class Arg:
    def __init__(self, p, kw, text, has_default, default_text, is_lazy):
        self.p, self.kw, self.text = p, kw, text
        self.has_default, self.default_text, self.lazy = has_default, default_text, is_lazy


def plan(fd):
    """corpus assignment for every explicit parameter, or None when the corpus cannot fill the function"""
    if fd.no_kwargs or fd.name in NONDETERMINISTIC:
        return None
    sig = Sig(fd)
    vs = Vars()
    args, kws = [], []
    for group, src in ((args, sig.pos), (kws, sig.kwonly)):
        for p in src:
            kw = keyword_name(fd, p)
            text = corpus_text(fd.name, p, kw, vs)
            if text is None:
                return None
            has_default = p.default is not specs.NO_DEFAULT
            dt = None
            if has_default and not lazy(p) and p.default is not utils.NO_VALUE:
                dt = literal(p.default)
            group.append(Arg(p, kw, text, has_default, dt, lazy(p)))
    extras, extra_kw = [], []
    if sig.var is not None:
        if fd.name in VAR_EXTRAS:
            extras = list(VAR_EXTRAS[fd.name])
        else:
            for _ in range(2):
                t = corpus_text(fd.name, sig.var, '*', vs)
                if t is None:
                    return None
                extras.append(t)
    if sig.varkw is not None:
        t = corpus_text(fd.name, sig.varkw, '**', vs)
        if t is None:
            return None
        extra_kw = [('zz', t)]
    return {'sig': sig, 'args': args, 'kwonly': kws, 'extras': extras, 'extra_kw': extra_kw,
            'extra_lazy': sig.var is not None and lazy(sig.var)}


# ------------------------------------------------------------------ spellings
def render(fname, form, pos, kw):
    """pos: list of texts (None = empty slot); kw: list of (name, text)"""
    suffix = SUFFIX.get(fname, '')
    if form == 'call':
        return 'call(%s, [%s], {%s})%s' % (fname, ', '.join(pos), ', '.join('%s => %s' % kv for kv in kw), suffix)
    parts = ['' if t is None else t for t in (pos[1:] if form == 'method' else pos)]
    parts += ['%s => %s' % kv for kv in kw]
    inner = ', '.join(parts)
    if form == 'method':
        return '%s.%s(%s)%s' % (pos[0], fname, inner, suffix)
    return '%s(%s)%s' % (fname, inner, suffix)


def spellings(fd, pl, cap=48, rnd=None):
    """-> list of groups; group = {'base': text, 'variants': [(label, text, expect)]}; expect 'same' or an
    exception class name"""
    name = fd.name
    args, kwonly, extras, extra_kw = pl['args'], pl['kwonly'], pl['extras'], pl['extra_kw']
    n = len(args)
    forms = (['func'] if fd.is_function else []) + (['method'] if fd.is_method and n >= 1 else [])
    if not forms:
        return []
    any_lazy = any(a.lazy for a in args + kwonly) or pl['extra_lazy']
    groups = []
    ko = [(a.kw, a.text) for a in kwonly]

    # G1: every parameter given, corpus values: positional / keyword split at every point, both forms, call()
    variants = []
    for form in forms:
        lo = 1 if form == 'method' else 0
        for k in range(n, lo - 1, -1):
            variants.append(('%s,split=%d' % (form, k),
                             render(name, form, [a.text for a in args[:k]], [(a.kw, a.text) for a in args[k:]] + ko),
                             'same'))
        if n - lo >= 2:       # keywords in reverse order
            variants.append(('%s,split=%d,reversed-keywords' % (form, lo),
                             render(name, form, [a.text for a in args[:lo]],
                                    list(reversed([(a.kw, a.text) for a in args[lo:]])) + ko), 'same'))
    if fd.is_function and not any_lazy and name != 'call':
        for k in sorted(set([n, 0, n // 2])):
            variants.append(('call(),split=%d' % k,
                             render(name, 'call', [a.text for a in args[:k]], [(a.kw, a.text) for a in args[k:]] + ko),
                             'same'))
    groups.append({'base': variants[0][1], 'variants': variants[1:], 'what': 'all given'})

    # G2: *args / **kwargs extras
    if extras or extra_kw:
        variants = []
        for form in forms:
            variants.append(('%s,extras' % form,
                             render(name, form, [a.text for a in args] + extras, ko + extra_kw), 'same'))
            if extra_kw and ko:
                variants.append(('%s,extras,keyword-order' % form,
                                 render(name, form, [a.text for a in args] + extras, extra_kw + ko), 'same'))
        if extras:
            form = forms[0]
            variants.append(('%s,extras,empty-slot-in-varargs' % form,
                             render(name, form, [a.text for a in args] + [None] + extras, ko + extra_kw), 'no-marker'))
        if fd.is_function and not any_lazy:
            variants.append(('call(),extras', render(name, 'call', [a.text for a in args] + extras, ko + extra_kw),
                             'same'))
        if len(variants) > 1:
            groups.append({'base': variants[0][1], 'variants': variants[1:], 'what': 'with *args/**kwargs'})

    # G3: defaulted parameters omitted / skipped with an empty slot / given explicitly (= their default) positionally
    # or by keyword, at every subset
    dflt = [i for i, a in enumerate(args) if a.has_default]
    kdflt = [i for i, a in enumerate(kwonly) if a.has_default]
    if dflt or kdflt:
        def val(a):
            return a.default_text if a.has_default else a.text
        req_ko = [(a.kw, a.text) for a in kwonly if not a.has_default]
        variants = []
        states = ['omit', 'slot', 'pos', 'kw']
        import itertools
        if len(dflt) <= 3:
            combos = list(itertools.product(states, repeat=len(dflt)))
        else:
            # many defaulted parameters: all-omitted, each single parameter in each state, and seeded samples
            combos = [tuple('omit' for _ in dflt)]
            for j in range(len(dflt)):
                for s_ in states[1:]:
                    combos.append(tuple(s_ if x == j else 'omit' for x in range(len(dflt))))
                    combos.append(tuple(s_ if x == j else ('pos' if x < j else 'omit') for x in range(len(dflt))))
            r2 = rnd or __import__('random').Random(0)
            for _ in range(40):
                combos.append(tuple(r2.choice(states) for _ in dflt))
            combos = list(dict.fromkeys(combos))
        kcombos = list(itertools.product(['omit', 'kw'], repeat=len(kdflt)))
        for form in forms:
            lo = 1 if form == 'method' else 0
            for combo in combos:
                st = dict(zip(dflt, combo))
                if any(s in ('pos', 'kw') and args[i].default_text is None for i, s in st.items()):
                    continue
                if any(s == 'slot' and i < lo for i, s in st.items()):
                    continue
                # positional prefix: required parameters and 'pos'/'slot' states, until the first 'omit'/'kw'
                pos, kw, okay, in_kw = [], [], True, False
                for i, a in enumerate(args):
                    s = st.get(i, 'pos')
                    if not in_kw and s in ('pos', 'slot'):
                        pos.append(None if s == 'slot' else val(a))
                    else:
                        in_kw = True
                        if s == 'slot':
                            okay = False
                            break
                        if s in ('pos', 'kw'):
                            if s == 'pos' and i in st:
                                okay = False       # 'pos' after the keyword part is the same spelling as 'kw'
                                break
                            kw.append((a.kw, val(a)))
                if not okay:
                    continue
                if not slots_grammatical(pos[lo:], bool(kw)):
                    continue
                for kc in kcombos:
                    kk = list(req_ko)
                    skip = False
                    for i, s in zip(kdflt, kc):
                        if s == 'kw':
                            if kwonly[i].default_text is None:
                                skip = True
                            else:
                                kk.append((kwonly[i].kw, kwonly[i].default_text))
                    if skip:
                        continue
                    label = '%s,%s%s' % (form, '/'.join('%s:%s' % (args[i].kw, s) for i, s in sorted(st.items())),
                                         ''.join(',%s:%s' % (kwonly[i].kw, s) for i, s in zip(kdflt, kc)))
                    variants.append((label, render(name, form, pos, kw + kk), 'same'))
        # base: everything omitted, first form
        base = None
        for v in variants:
            if all(':omit' in part or ':' not in part for part in v[0].split(',')[1:] for part in part.split('/')):
                base = v
                break
        if base is not None:
            rest = [v for v in variants if v is not base]
            if len(rest) > cap and rnd is not None:
                keep = [v for v in rest if v[0].count(':omit') >= len(dflt) + len(kdflt) - 1]
                others = [v for v in rest if v not in keep]
                rnd.shuffle(others)
                rest = keep[:cap] + others[:max(0, cap - len(keep))]
            groups.append({'base': base[1], 'variants': rest, 'what': 'defaults'})
    return groups


def slots_grammatical(inner, has_kw):
    """the argument grammar: an empty slot needs a value somewhere after it, except one single empty slot directly
    between a value and the keyword part (`f(1,, k => 2)`)"""
    t = 0
    while t < len(inner) and inner[len(inner) - 1 - t] is None:
        t += 1
    if t == 0:
        return True
    if not has_kw:
        return False
    return t == 1 and len(inner) >= 2


def kind_checks(fds_by_name):
    """name-level: method-only names are not callable as functions and vice versa"""
    out = {}
    for name, fds in fds_by_name.items():
        out[name] = (any(fd.is_function for fd in fds), any(fd.is_method for fd in fds))
    return out


# ------------------------------------------------------------------ reference binder (synthetic catalogue)
def make_payload(npos, ndef, has_var, kwonly, has_varkw, hidden_at):
    """python function with the given shape; hidden_at: index in the positional list where `context` is injected"""
    params = []
    defaults_started = False
    for i in range(npos):
        if hidden_at == i:
            params.append('context=None' if defaults_started else 'context')
        d = i >= npos - ndef
        defaults_started = defaults_started or d
        params.append('p%d%s' % (i, '=%d' % (1000 + i) if d else ''))
    if hidden_at is not None and hidden_at >= npos:
        params.append('context=None' if defaults_started else 'context')
    if has_var:
        params.append('*rest')
    elif kwonly:
        params.append('*')
    if kwonly == 'required':
        params.append('k0')
    elif kwonly == 'default':
        params.append('k0=2000')
    if has_varkw:
        params.append('**extra')
    src = 'def f(%s):\n    return dict((k, v) for k, v in locals().items() if k != "context")' % ', '.join(params)
    ns = {}
    exec(src, ns)
    return ns['f'], src


def ref_bind(npos, ndef, has_var, kwonly, has_varkw, args, kwargs):
    """reference: python-style binding on the signature WITHOUT the hidden parameter; an empty slot (NO_VALUE) stands for
    the parameter's default.  Returns the dict the payload must see, None for "no match", or a tag for the classes
    that are left unspecified / listed as a finding"""
    out = {}
    kwargs = dict(kwargs)
    if len(args) > npos and not has_var:
        return None
    for i in range(npos):
        n = 'p%d' % i
        d = i >= npos - ndef
        if i < len(args) and args[i] is not utils.NO_VALUE:
            if n in kwargs:
                return None
            out[n] = args[i]
        elif i < len(args):
            if n in kwargs:
                return 'UNSPEC'
            if not d:
                return None
            out[n] = 1000 + i
        elif n in kwargs:
            out[n] = kwargs.pop(n)
        elif d:
            out[n] = 1000 + i
        else:
            return None
    if has_var:
        rest = args[npos:]
        if any(a is utils.NO_VALUE for a in rest):
            return 'SKIP-IN-VARARGS'
        out['rest'] = tuple(rest)
    if kwonly:
        if 'k0' in kwargs:
            out['k0'] = kwargs.pop('k0')
        elif kwonly == 'default':
            out['k0'] = 2000
        else:
            return None
    if kwargs:
        if not has_varkw:
            return None
        out['extra'] = kwargs
    elif has_varkw:
        out['extra'] = {}
    return out
