"""C11 - arguments are evaluated once, in order; lazy ones only on demand.

A probe function tick(id, value) (registered in a child of the standard context) appends id to a log and returns
value.  Templates put a uniquely numbered probe in every operand position; the values the probes return are symbolic,
so which operand is selected, which overload matches and whether resolution fails are all decided by symbolic
values.  The log is compared with a reference evaluation-order model.

Real code run symbolically: expressions.Function.__call__, runner.call/choose_overload/translate_args,
specs.map_args/get_delegate, yaqltypes.Lambda/MappingRule/YaqlExpression, the payloads of boolean/branching/system/
queries/collections and (sweep) every explicit function of the live registry.
"""
from typing import List, Union

from vf import h as H
from vf import yq
from props import c11_lib as L
from yaql.language import utils as yutils

ID = 'C11'
Scalar = Union[None, bool, int, str]
KNOWN = set(H.P('known', ()))
TEXT = H.P('text', 'tick(1, $v1) + tick(2, $v2)')
MODEL = H.P('model', 'eager')
N = H.P('n', 2)

FUNCTIONS_ENCODED = [
    'yaql.language.expressions.Function.__call__/MappingRuleExpression.__call__/Statement.evaluate',
    'yaql.language.runner.call/choose_overload/translate_args',
    'yaql.language.specs.FunctionDefinition.map_args/get_delegate',
    'yaql.language.yaqltypes.Lambda/MappingRule/YaqlExpression/PythonType.check+convert',
    'yaql.standard_library.boolean.and_/or_', 'yaql.standard_library.branching.*',
    'yaql.standard_library.system.op_dot/elvis_operator/let/with_/def_/send_context/assert__',
    'yaql.standard_library.queries (every function with a lambda parameter)',
    'every explicit function/method of the live registry reachable with <= 4 probe arguments (sweep)']
BOUNDS = {
    'quick': 'probe values: Union[None,bool,int,str] with ints in [-3,4], str len <= 1, or List[int] len <= 3 with '
             'unbounded elements; templates: every operator of the live operator table, #list/#map/#indexer, every '
             'function of the live registry that has a lazy parameter (hand-written order model per function), nestings '
             'of depth 2, and a deterministic 1/6 sample of the registry sweep (every name x spelling x arity <= 4 x '
             'one keyword variant); functions of the regex/date_time modules get their values by symbolic selection '
             'from a concrete corpus',
    'thorough': 'same with the complete registry sweep'}
OUTSIDE = ['argument expressions that themselves raise (only the prefix of the trace up to the raising operand is '
           'asserted, in the nested templates)', 'nesting depth > 2',
           'the number of selector calls made by orderBy/thenBy (sort comparisons) - only that the receiver probe '
           'comes first and exactly once',
           'a method call whose receiver value is accepted by no overload: the remaining arguments are then not '
           'evaluated at all (resolution fails before evaluation); asserted as such, not as a violation']
ASSUMPTIONS = ['tick() itself is dispatched by the same machinery (its own arguments are a constant and a variable)',
               'yaql.limitIterators = 12 on the engine used, so endless generators end with an exception',
               'call-shape reference (arity/keyword names/constant-only parameters) written from the language '
               'reference decides whether any overload can bind; validated against the real binder at start-up']
EXPLANATION = ('Bounded symbolic execution (CrossHair+z3) of the real dispatch and payloads on expressions whose operand '
               'positions hold numbered probes returning symbolic values; on every path the probe log must equal the '
               'trace of a reference evaluation-order model (eager arguments once each, left to right, before the '
               'payload, whichever overload is chosen or none matches; lazy operands only when selected; per-element '
               'lambdas once per element consumed). Templates are generated from the live operator table and registry.')
TECHNIQUE = 'bounded symbolic execution (CrossHair+z3) of the real evaluator vs an evaluation-order reference; replay on CPython'


# ------------------------------------------------------------------ running a template
def run(text, **variables):
    """evaluate on the real engine; returns (log, raised exception class name or None)"""
    del L.LOG[:]
    st = yq.stmt(text, L.ENG)
    c = L.CTX.create_child_context()
    for k, v in variables.items():
        c[k] = v
    raised = None
    try:
        st.evaluate(context=c)
    except Exception as e:
        raised = type(e).__name__
    return list(L.LOG), raised


def small(v):
    if isinstance(v, str):
        return len(v) <= 1
    if isinstance(v, int):
        return -1 <= v <= 2
    return True


# ------------------------------------------------------------------ order models (from the property text / doc-strings)
def m_eager(v, n):
    return list(range(1, n + 1))


def m_and(v, n):
    return [1] if not v[1] else [1, 2]


def m_or(v, n):
    return [1] if v[1] else [1, 2]


def m_and_or(v, n):      # (1 and 2) or 3
    log = [1]
    r = v[1]
    if r:
        log.append(2)
        r = v[2]
    if not r:
        log.append(3)
    return log


def m_or_and(v, n):      # 1 or (2 and 3)
    log = [1]
    if not v[1]:
        log.append(2)
        if v[2]:
            log.append(3)
    return log


def m_not_and(v, n):     # not 1 and 2
    return [1, 2] if not v[1] else [1]


def m_elvis(v, n):       # 1?.m(2)
    return [1] if v[1] is None else [1, 2]


def m_switch(v, n):      # switch(1 => 2, 3 => 4)
    if v[1]:
        return [1, 2]
    return [1, 3, 4] if v[3] else [1, 3]


def m_select_case(v, n):
    log = []
    for i in range(1, n + 1):
        log.append(i)
        if v[i]:
            break
    return log


def m_coalesce(v, n):
    log = []
    for i in range(1, n + 1):
        log.append(i)
        if v[i] is not None:
            break
    return log


def m_assert_msg(v, n):  # 1.assert(2, 3): message is eager and typed String
    return [1, 3, 2] if isinstance(v[3], str) else [1, 3]


def m_def_twice(v, n):
    return [1, 1]


def m_def_unused(v, n):
    return [2]


def m_per_element(v, n):         # receiver, then the lambda once per element
    return [1] + [2] * len(v['l'])


def m_until_true(v, n):          # any / indexWhere: up to and including the first element with x > b
    log = [1]
    for x in v['l']:
        log.append(2)
        if x > v['b']:
            break
    return log


def m_until_false(v, n):         # all / takeWhile / skipWhile
    log = [1]
    for x in v['l']:
        log.append(2)
        if not x > v['b']:
            break
    return log


def m_pairs(v, n):               # toDict(key, value): key then value per element
    log = [1]
    for _ in v['l']:
        log += [2, 3]
    return log


def m_reduce(v, n):
    return [1] + [2] * max(len(v['l']) - 1, 0)


def m_reduce_seed(v, n):         # 1.aggregate(2, 3): seed is eager
    return [1, 3] + [2] * len(v['l'])


def m_take(v, n):                # 1.select(2).take(3): only the consumed elements
    return [1, 3] + [2] * min(len(v['l']), v['b'])


def m_first(v, n):               # 1.select(2).first(3)
    return [1, 3] + [2] * min(len(v['l']), 1)


def m_where_any(v, n):           # 1.where(2: $ > b).any()
    return m_until_true(v, n)


def m_join(v, n):                # 1.join(2, 3: $1 > $2, 4)
    log = [1, 2]
    for x in v['l']:
        for y in v['m']:
            log.append(3)
            if x > y:
                log.append(4)
    return log


def m_generate(v, n):            # generate(1, 2: $ < b, 3: $ + 1, 4: $)
    log = [1]
    x = v['a']
    while True:
        log.append(2)
        if not x < v['b']:
            break
        log.append(4)
        log.append(3)
        x += 1
    return log


def m_generate_select(v, n):     # generate(1, 2: $ < b, 3: $ + 1, 4: $).select(5: $): the producer runs on resumption
    log = [1]
    x = v['a']
    while True:
        log.append(2)
        if not x < v['b']:
            break
        log += [4, 5, 3]
        x += 1
    return log


def m_generate_take(v, n):       # generate(1, 2, 3, 4).take(5: 2): nothing is produced beyond the elements consumed
    log = [1, 5]
    x = v['a']
    got = 0
    while got < 2:
        if got:
            log.append(3)
            x += 1
        log.append(2)
        if not x < v['b']:
            break
        log.append(4)
        got += 1
    return log


def m_generate_first(v, n):      # generate(1, 2, 3, 4).first(5: null)
    return [1, 5, 2] + ([4] if v['a'] < v['b'] else [])


def m_generate_many(v, n):       # generateMany(1, 2: [$+1].where($ < b), 3: $)
    log = [1]
    x = v['a']
    while True:
        log += [3, 2]
        if not x + 1 < v['b']:
            break
        x += 1
    return log


MODELS = {k[2:]: f for k, f in list(globals().items()) if k.startswith('m_')}


# checkers for what the documentation leaves open (order inside one element, number of comparisons of a sort)
def c_weak(log, v, n, raised):
    """receiver probe first and once; everything else is the lambda probes"""
    return log[:1] == [1] and 1 not in log[1:]


def c_group_by(log, v, n, raised):   # 1.groupBy(2: key, 3: value, 4: aggregate)
    k = len(v['l'])
    if log[:1] != [1] or len(log) < 1 + 2 * k:
        return False
    for i in range(k):
        if sorted(log[1 + 2 * i: 3 + 2 * i]) != [2, 3]:
            return False
    groups = len(set(x > v['b'] for x in v['l']))
    return log[1 + 2 * k:] == [4] * groups


def c_merge_with(log, v, n, raised):  # {a=>1, b=>[..]}.mergeWith({a=>2, b=>[..]}, 3: list merger, 4: item merger)
    return log[:2] == [1, 2] and sorted(log[2:]) == [3, 4]


def c_nest(log, v, n, raised):       # an inner operator may fail: then only the prefix is asserted
    full = list(range(1, n + 1))
    if raised is None:
        return log == full
    return log == full or log == H.P('prefix')


def c_switch_case(log, v, n, raised):   # 1.switchCase(2, 3, 4)
    a = v[1]
    if isinstance(a, bool):
        return len(log) == 2 and log[0] == 1 and log[1] in (2, 3, 4)     # a boolean as index is not specified
    if isinstance(a, int):
        return log == [1, 2 + a if 0 <= a < 3 else 4]
    return log == [1]


CHECKS = {k[2:]: f for k, f in list(globals().items()) if k.startswith('c_')}


def verdict(log, raised, v, n):
    if MODEL in MODELS:
        return log == MODELS[MODEL](v, n)
    return CHECKS[MODEL](log, v, n, raised)


# ------------------------------------------------------------------ sweep cases (re-derived from the live registry)
SWEEP = H.P('sweep')          # {'name', 'spelling', 'nargs', 'kw': [...], 'first': 'scalar'|'list'|'dict'}
_SW = None


def sweep_info():
    global _SW
    if _SW is None and SWEEP:
        defs = L.all_definitions()
        cands = L.candidates(defs, SWEEP['name'], SWEEP['spelling'])
        mapped = [b for b in (L.shape_binding(fd, SWEEP['nargs'], SWEEP['kw']) for fd in cands) if b is not None]
        _SW = {'mapped': mapped}
    return _SW


def first_value(l):
    if H.P('first') == 'dict':
        return yutils.FrozenDict(('k%d' % i, x) for i, x in enumerate(l))
    return tuple(l)


def sweep_expected(v, n):
    """eager arguments once each, left to right; for a method call the receiver is evaluated first and the call is
    resolved against its value: when no overload accepts the receiver, resolution fails before the other arguments
    are evaluated"""
    if SWEEP and SWEEP['spelling'] == 'method':
        recv = v[1]
        ok = False
        for bound in sweep_info()['mapped']:
            if bound[0].value_type.check(recv, L.CTX, L.ENG):
                ok = True
                break
        if not ok:
            return [1]
    return list(range(1, n + 1))


MODELS['sweep'] = sweep_expected


# ------------------------------------------------------------------ harness functions
# One function per signature of symbolic values: S = Union[None,bool,int,str], I = int, L = List[int].  Operands whose
# value cannot influence the order (a branch value, the last alternative) are typed int to keep the path count down.
def ok(v, k=0):
    if k in H.P('nostr', ()) and isinstance(v, str):
        return False          # a symbolic string used as a dict key is enumerated value by value by the tool
    return small(v) if H.P('small', False) else True


def go(v):
    log, raised = run(TEXT, **{'v%s' % k: x for k, x in v.items() if k != 'l'})
    return H.done(verdict(log, raised, v, N))


def s1(v1: Scalar) -> bool:
    """
    pre: ok(v1, 1)
    pre: H.fresh(v1)
    post: _
    """
    return go({1: v1})


def s2(v1: Scalar, v2: Scalar) -> bool:
    """
    pre: ok(v1, 1) and ok(v2, 2)
    pre: H.fresh(v1, v2)
    post: _
    """
    return go({1: v1, 2: v2})


def ssi(v1: Scalar, v2: Scalar, v3: int) -> bool:
    """
    pre: ok(v1, 1) and ok(v2, 2) and ok(v3, 3)
    pre: H.fresh(v1, v2, v3)
    post: _
    """
    return go({1: v1, 2: v2, 3: v3})


def sii(v1: Scalar, v2: int, v3: int) -> bool:
    """
    pre: ok(v1, 1) and ok(v2, 2) and ok(v3, 3)
    pre: H.fresh(v1, v2, v3)
    post: _
    """
    return go({1: v1, 2: v2, 3: v3})


def iis(v1: int, v2: int, v3: Scalar) -> bool:
    """
    pre: ok(v1, 1) and ok(v2, 2) and ok(v3, 3)
    pre: H.fresh(v1, v2, v3)
    post: _
    """
    return go({1: v1, 2: v2, 3: v3})


def sss(v1: Scalar, v2: Scalar, v3: Scalar) -> bool:
    """
    pre: ok(v1, 1) and ok(v2, 2) and ok(v3, 3)
    pre: H.fresh(v1, v2, v3)
    post: _
    """
    return go({1: v1, 2: v2, 3: v3})


def sisi(v1: Scalar, v2: int, v3: Scalar, v4: int) -> bool:
    """
    pre: ok(v1, 1) and ok(v2, 2) and ok(v3, 3) and ok(v4, 4)
    pre: H.fresh(v1, v2, v3, v4)
    post: _
    """
    return go({1: v1, 2: v2, 3: v3, 4: v4})


def siii(v1: Scalar, v2: int, v3: int, v4: int) -> bool:
    """
    pre: ok(v1, 1) and ok(v2, 2) and ok(v3, 3) and ok(v4, 4)
    pre: H.fresh(v1, v2, v3, v4)
    post: _
    """
    return go({1: v1, 2: v2, 3: v3, 4: v4})


def ssii(v1: Scalar, v2: Scalar, v3: int, v4: int) -> bool:
    """
    pre: ok(v1, 1) and ok(v2, 2) and ok(v3, 3) and ok(v4, 4)
    pre: H.fresh(v1, v2, v3, v4)
    post: _
    """
    return go({1: v1, 2: v2, 3: v3, 4: v4})


def okl(l):
    """list elements are bounded too when the template can fail to resolve: the error message prints the receiver"""
    if not H.P('small', False):
        return True
    for x in l:
        if not small(x):
            return False
    return True


def l1(l: List[int]) -> bool:
    """
    pre: len(l) <= H.P('llen', 3) and okl(l)
    pre: H.fresh(l)
    post: _
    """
    return go({1: first_value(l), 'l': l})


def l2(l: List[int], v2: Scalar) -> bool:
    """
    pre: len(l) <= H.P('llen', 3) and ok(v2, 2) and okl(l)
    pre: H.fresh(l, v2)
    post: _
    """
    return go({1: first_value(l), 2: v2, 'l': l})


def lsi(l: List[int], v2: Scalar, v3: int) -> bool:
    """
    pre: len(l) <= H.P('llen', 2) and ok(v2, 2) and ok(v3, 3) and okl(l)
    pre: H.fresh(l, v2, v3)
    post: _
    """
    return go({1: first_value(l), 2: v2, 3: v3, 'l': l})


def lb(l: List[int], b: int) -> bool:
    """
    pre: len(l) <= H.P('llen', 3)
    pre: H.P('bmin', -10 ** 9) <= b <= H.P('bmax', 10 ** 9)
    pre: H.fresh(l, b)
    post: _
    """
    log, raised = run(TEXT, v1=tuple(l), b=b)
    return H.done(verdict(log, raised, {'l': l, 'b': b}, N))


def lmb(l: List[int], m: List[int]) -> bool:
    """
    pre: len(l) <= H.P('llen', 2) and len(m) <= H.P('mlen', 2)
    pre: H.fresh(l, m)
    post: _
    """
    log, raised = run(TEXT, v1=tuple(l), v2=tuple(m))
    return H.done(verdict(log, raised, {'l': l, 'm': m}, N))


def ab(a: int, b: int) -> bool:
    """
    pre: H.P('amin', -3) <= a <= H.P('amax', 4) and H.P('amin', -3) <= b <= H.P('amax', 4)
    pre: H.fresh(a, b)
    post: _
    """
    log, raised = run(TEXT, v1=a, b=b)
    return H.done(verdict(log, raised, {'a': a, 'b': b}, N))


_D = yutils.FrozenDict({'a': 1})
CORPUS = {1: [[None, True, 0, 2, '', 'a', (1, 2), _D]],
          2: [[None, 1, 'a', (1, 2), _D], [None, 1, 'a', (1, 2)]],
          3: [[None, 1, 'a', (1, 2), _D], [None, 1, 'a'], [None, 1, 'a']],
          4: [[None, 1, 'a', (1, 2)], [1, 'a'], [1, 'a'], [1, 'a']]}


def clen(k):
    return len(CORPUS[N][k]) if k < N else 1


def sel(i1: int, i2: int, i3: int, i4: int) -> bool:
    """
    pre: 0 <= i1 < clen(0) and 0 <= i2 < clen(1) and 0 <= i3 < clen(2) and 0 <= i4 < clen(3)
    post: _
    """
    with H.NoTracing():
        idx = [int(i) for i in (i1, i2, i3, i4)]
        v = {k + 1: CORPUS[N][k][idx[k]] for k in range(N)}
        log, raised = run(TEXT, **{'v%d' % k: x for k, x in v.items()})
        ok_ = verdict(log, raised, v, N)
    return H.done(ok_)


# ------------------------------------------------------------------ catalogue
def lazy_catalogue(quick=True):
    """(covered function names, name, func, text, model, n, extra-param) - hand-written order models, one per function
    of the live registry that has a lazy parameter (coverage of the registry is checked in conditions())"""
    p = lambda i, e: 'tick(%d, %s)' % (i, e)
    v = lambda i: p(i, '$v%d' % i)
    gt = p(2, '$ > $b')
    ll = 2 if quick else 3
    C = []
    add = lambda covers, name, func, text, model, n, **extra: C.append((covers, name, func, text, model, n, extra))
    add(['#operator_and'], 'and', 's2', '%s and %s' % (v(1), v(2)), 'and', 2)
    add(['#operator_or'], 'or', 's2', '%s or %s' % (v(1), v(2)), 'or', 2)
    add([], 'and-or', 'ssi' if quick else 'sss', '%s and %s or %s' % (v(1), v(2), v(3)), 'and_or', 3)
    add([], 'or-and', 'ssi' if quick else 'sss', '%s or %s and %s' % (v(1), v(2), v(3)), 'or_and', 3)
    add([], 'not-and', 's2', 'not %s and %s' % (v(1), v(2)), 'not_and', 2)
    add(['#operator_?.'], 'elvis', 's2', '%s?.probeMethod(%s)' % (v(1), v(2)), 'elvis', 2)
    add(['#operator_.'], 'dot-method', 'sii', '%s.probeMethod(%s, %s)' % (v(1), v(2), v(3)), 'eager', 3)
    add([], 'dot-method-kw', 'sii', '%s.probeMethod(%s, y => %s)' % (v(1), v(2), v(3)), 'eager', 3)
    add([], 'func-kw', 's2', 'probeFunc(%s, y => %s)' % (v(1), v(2)), 'eager', 2)
    add([], 'func-kw-only', 's2', 'probeFunc(y => %s, x => %s)' % (v(1), v(2)), 'eager', 2)
    add(['switch'], 'switch', 'sisi', 'switch(%s => %s, %s => %s)' % (v(1), v(2), v(3), v(4)), 'switch', 4)
    add(['switchCase'], 'switchCase', 'siii', '%s.switchCase(%s, %s, %s)' % (v(1), v(2), v(3), v(4)), 'switch_case', 4)
    add(['selectCase'], 'selectCase', 'ssi', 'selectCase(%s, %s, %s)' % (v(1), v(2), v(3)), 'select_case', 3)
    add(['selectCase'], 'selectCase.switchCase', 'ssii',
        'selectCase(%s, %s).switchCase(%s, %s, 0)' % (v(1), v(2), v(3), v(4)), 'sc_sw', 4)
    add(['selectAllCases'], 'selectAllCases', 'sii' if quick else 'ssi', 'selectAllCases(%s, %s, %s)' % (v(1), v(2), v(3)), 'eager', 3)
    add(['examine'], 'examine', 'sii' if quick else 'ssi', 'examine(%s, %s, %s)' % (v(1), v(2), v(3)), 'eager', 3)
    add(['coalesce'], 'coalesce', 'ssi', 'coalesce(%s, %s, %s)' % (v(1), v(2), v(3)), 'coalesce', 3)
    add(['assert'], 'assert', 's2', '%s.assert(%s)' % (v(1), v(2)), 'eager', 2)
    add(['assert'], 'assert-message', 'iis', '%s.assert(%s, %s)' % (v(1), v(2), v(3)), 'assert_msg', 3, small=True)
    add(['def'], 'def-called-twice', 's1', 'def(f, %s) -> [f(), f()]' % v(1), 'def_twice', 1)
    add(['def'], 'def-unused', 's2', 'def(f, %s) -> %s' % (v(1), v(2)), 'def_unused', 2)
    add(['#operator_->'], 'let-arrow', 's2', 'let(%s, x => %s) -> [%s, %s]' % (v(1), v(2), p(3, '$x'), p(4, '$1')),
        'eager', 4)
    add([], 'with-arrow', 's2', 'with(%s, %s) -> %s' % (v(1), v(2), p(3, '$2')), 'eager', 3)
    add([], 'unpack-arrow', 's2', '[%s, %s].unpack(x, y) -> %s' % (v(1), v(2), p(3, '$y')), 'eager', 3)
    # per-element lambdas: l symbolic list, b symbolic threshold so that the predicate's outcome is symbolic per element
    for name in ('where', 'filter', 'select', 'map', 'selectMany', 'distinct', 'lastIndexWhere', 'splitWhere',
                 'sliceWhere'):
        add([name], name, 'lb', '%s.%s(%s)' % (v(1), name, gt), 'per_element', 2, llen=ll)
    for name in ('any', 'indexWhere'):
        add([name], name, 'lb', '%s.%s(%s)' % (v(1), name, gt), 'until_true', 2, llen=ll)
    for name in ('all', 'takeWhile', 'skipWhile'):
        add([name], name, 'lb', '%s.%s(%s)' % (v(1), name, gt), 'until_false', 2, llen=ll)
    add(['any'], 'any-function-spelling', 'lb', 'any(%s, %s)' % (v(1), gt), 'until_true', 2, llen=ll)
    add(['toDict'], 'toDict', 'lb', '%s.toDict(%s, %s)' % (v(1), p(2, '$ > $b'), p(3, '$')), 'pairs', 3, llen=2)
    for name in ('aggregate', 'reduce'):
        add([name], name, 'lb', '%s.%s(%s)' % (v(1), name, p(2, '$1 + $2')), 'reduce', 2, llen=ll)
    add(['aggregate'], 'aggregate-seed', 'lb', '%s.aggregate(%s, %s)' % (v(1), p(2, '$1 + $2'), p(3, '$b')),
        'reduce_seed', 3, llen=ll)
    add(['accumulate'], 'accumulate', 'lb', '%s.accumulate(%s)' % (v(1), p(2, '$1 + $2')), 'reduce', 2, llen=ll)
    add(['accumulate'], 'accumulate-seed', 'lb', '%s.accumulate(%s, %s)' % (v(1), p(2, '$1 + $2'), p(3, '$b')),
        'reduce_seed', 3, llen=ll)
    for name in ('orderBy', 'orderByDescending'):
        add([name], name, 'lb', '%s.%s(%s)' % (v(1), name, gt), 'weak', 2, llen=2)
    for name in ('thenBy', 'thenByDescending'):
        add([name], name, 'lb', '%s.orderBy(%s).%s(%s)' % (v(1), gt, name, p(3, '$')), 'weak', 3, llen=2)
    add(['groupBy'], 'groupBy', 'lb', '%s.groupBy(%s, %s, %s)' % (v(1), gt, p(3, '$'), p(4, '$.len()')), 'group_by', 4,
        llen=2)
    add([], 'select.take', 'lb', '%s.select(%s).take(%s)' % (v(1), p(2, '$'), p(3, '$b')), 'take', 3, bmin=0, bmax=3,
        llen=ll)
    add([], 'select.first', 'lb', '%s.select(%s).first(%s)' % (v(1), p(2, '$'), p(3, '$b')), 'first', 3, llen=ll)
    add([], 'where.any', 'lb', '%s.where(%s).any()' % (v(1), gt), 'where_any', 2, llen=ll)
    add(['join'], 'join', 'lmb', '%s.join(%s, %s, %s)' % (v(1), v(2), p(3, '$1 > $2'), p(4, '[$1, $2]')), 'join', 4,
        llen=2, mlen=1 if quick else 2)
    add(['generate'], 'generate', 'ab', 'generate(%s, %s, %s, %s)' % (v(1), p(2, '$ < $b'), p(3, '$ + 1'), p(4, '$')),
        'generate', 4, amin=0, amax=3 if quick else 5)
    gen = 'generate(%s, %s, %s, %s)' % (v(1), p(2, '$ < $b'), p(3, '$ + 1'), p(4, '$'))
    add([], 'generate.select', 'ab', '%s.select(%s)' % (gen, p(5, '$')), 'generate_select', 5, amin=0, amax=3)
    add([], 'generate.take', 'ab', '%s.take(%s)' % (gen, p(5, '2')), 'generate_take', 5, amin=0, amax=3)
    add([], 'generate.first', 'ab', '%s.first(%s)' % (gen, p(5, 'null')), 'generate_first', 5, amin=0, amax=3)
    add(['generateMany'], 'generateMany', 'ab',
        'generateMany(%s, %s, %s)' % (v(1), p(2, '[$ + 1].where($ < $b)'), p(3, '$')), 'generate_many', 3,
        amin=0, amax=2 if quick else 4)
    add(['mergeWith'], 'mergeWith', 's2',
        '{a => %s, b => [1]}.mergeWith({a => %s, b => [2]}, %s, %s)' % (v(1), v(2), p(3, '$1 + $2'), p(4, '$2')),
        'merge_with', 4)
    add(['search'], 'search', 'sel', "regex('a').search('aXa', %s)" % v(1), 'eager', 1)
    add(['searchAll'], 'searchAll', 'sel', "regex('a').searchAll('aXa', %s)" % v(1), 'def_twice', 1)
    add(['replaceBy'], 'replaceBy', 'sel', "regex('a').replaceBy('aXa', %s)" % p(1, "'b'"), 'def_twice', 1)
    add(['replaceBy'], 'replaceBy-string-receiver', 'sel', "'aXa'.replaceBy(regex('a'), %s)" % p(1, "'b'"),
        'def_twice', 1)
    return C


def m_sc_sw(v, n):       # selectCase(1, 2).switchCase(3, 4, 0)
    if v[1]:
        return [1, 3]
    if v[2]:
        return [1, 2, 4]
    return [1, 2]


MODELS['sc_sw'] = m_sc_sw


def eager_catalogue():
    """operators from the live operator table, literal constructors, nestings"""
    v = lambda i: 'tick(%d, $v%d)' % (i, i)
    C = []
    defs = L.all_definitions()
    special = {'.', '?.', '->', '=>', '[]', '{}'}
    for rec in yq.FACTORY.operators:
        if not rec or rec[0] in special:
            continue
        sym, kind = rec[0], rec[1]
        alias = rec[2] if len(rec) > 2 else None
        if kind == 'PREFIX_UNARY':
            fname = '*' + alias if alias else '#unary_operator_' + sym
            text, n, func = '%s %s' % (sym, v(1)), 1, 's1'
        elif kind.startswith('BINARY'):
            fname = '*' + alias if alias else '#operator_' + sym
            text, n, func = '%s %s %s' % (v(1), sym, v(2)), 2, 's2'
        else:
            continue
        lazy = any(L.is_lazy(p) for fd in defs.get(fname, []) for p in fd.parameters.values())
        if lazy:
            if sym in ('and', 'or'):
                continue                       # exact models in the lazy catalogue
            model = 'weak'
        else:
            model = 'eager'
        if any(fd.payload.__module__ in SEL_MODULES for fd in defs.get(fname, [])) and sym in ('=~', '!~'):
            func = 'sel'
        C.append(('op[%s%s]' % (sym, '' if n == 2 else ' unary'), func, text, model, n, {'small': True}))
        if n == 2 and model == 'eager' and sym in ('+', '*', 'in', '='):
            # collection overloads of the same operator: list operand on the left
            C.append(('op[%s list]' % sym, 'l2', text, 'eager', 2, {'small': True, 'llen': 2}))
    C.append(('#list', 'ssi', '[%s, %s, %s]' % (v(1), v(2), v(3)), 'eager', 3, {}))
    C.append(('#list nested', 'ssi', '[%s, [%s, %s]]' % (v(1), v(2), v(3)), 'eager', 3, {}))
    C.append(('#map', 'siii', '{%s => %s, %s => %s}' % (v(1), v(2), v(3), v(4)), 'eager', 4,
              {'small': True, 'nostr': [1, 3]}))
    C.append(('#map in #list', 'iis', '[%s, {%s => %s}]' % (v(1), v(3), v(2)), 'map_in_list', 3,
              {'small': True, 'nostr': [3]}))
    C.append(('dict()', 'sisi', 'dict(%s => %s, %s => %s)' % (v(1), v(2), v(3), v(4)), 'eager', 4,
              {'small': True, 'nostr': [1, 3]}))
    C.append(('#indexer list', 'l2', '%s[%s]' % (v(1), v(2)), 'eager', 2, {'small': True}))
    C.append(('#indexer dict', 'l2', '%s[%s]' % (v(1), v(2)), 'eager', 2, {'first': 'dict', 'llen': 2}))
    C.append(('#indexer dict default', 'lsi', '%s[%s, %s]' % (v(1), v(2), v(3)), 'eager', 3,
              {'first': 'dict', 'llen': 2}))
    C.append(('#indexer scalar', 's2', '%s[%s]' % (v(1), v(2)), 'eager', 2, {}))
    C.append(('nest (1+2)*3', 'ssi', '(%s + %s) * %s' % (v(1), v(2), v(3)), 'nest', 3,
              {'prefix': [1, 2], 'small': True}))
    C.append(('nest 1*(2+3)', 'iis', '%s * (%s + %s)' % (v(1), v(2), v(3)), 'nest', 3,
              {'prefix': [1, 2, 3], 'small': True}))
    C.append(('nest [1, 2 > 3]', 'iis', '[%s, %s > %s]' % (v(1), v(2), v(3)), 'nest', 3, {'prefix': [1, 2, 3]}))
    C.append(('nest probeFunc(1 + 2, 3)', 'ssi', 'probeFunc(%s + %s, %s)' % (v(1), v(2), v(3)), 'nest', 3,
              {'prefix': [1, 2]}))
    C.append(('nest 1.probeMethod(2).probeMethod(3)', 'sii', '%s.probeMethod(%s).probeMethod(%s)' % (v(1), v(2), v(3)),
              'eager', 3, {}))
    return C


def m_map_in_list(v, n):      # [1, {3 => 2}]: key before value
    return [1, 3, 2]


MODELS['map_in_list'] = m_map_in_list
SAMPLES = {'list': (1, 2), 'dict': yutils.FrozenDict({'a': 1})}
SEL_MODULES = ('yaql.standard_library.regex', 'yaql.standard_library.date_time')
SKIP_NAMES = {'tick', 'probeMethod', 'probeFunc'}
SEL_NAMES = {'int', 'float', 'str', 'random'}    # string<->number conversions / random source: values by selection


def sweep_catalogue():
    """every explicit function x spelling x arity (<= 4 probes) x {no keyword, last parameter by keyword} for which
    the call-shape reference says some overload can bind and no probe sits in a lazy position.
    <= 2 probes: symbolic values (first operand scalar, list or dict as the overloads accept); 3-4 probes and the
    regex/date_time modules: values selected by symbolic indices from a concrete corpus."""
    from yaql.language import utils
    defs = L.all_definitions()
    out = []
    for name in defs:
        if name in SKIP_NAMES or not utils.is_keyword(name):
            continue
        for spelling in ('function', 'method'):
            cands = L.candidates(defs, name, spelling)
            if not cands:
                continue
            for total in range(1, 5):
                for nkw in (0, 1):
                    nargs = total - nkw
                    if nargs < (1 if spelling == 'method' else 0):
                        continue
                    kwsets = [[]]
                    if nkw:
                        kwsets = []
                        for fd in cands:
                            pos, var, kwonly, varkw = L.visible(fd)
                            if fd.no_kwargs:
                                continue
                            names = [(p.alias or p.name) for p in pos[nargs:nargs + 1]] + sorted(kwonly)
                            for k in names[:1]:
                                if [k] not in kwsets:
                                    kwsets.append([k])
                    for kw in kwsets:
                        mapped = [(fd, b) for fd, b in ((fd, L.shape_binding(fd, nargs, kw)) for fd in cands)
                                  if b is not None]
                        if not mapped:
                            continue
                        if any(L.is_lazy(p) for fd, b in mapped for p in b):
                            continue
                        firsts = ['scalar']
                        for kind, sample in SAMPLES.items():
                            if any(b[0].value_type.check(sample, L.CTX, L.ENG) for fd, b in mapped):
                                firsts.append(kind)
                        use_sel = total >= 3 or name in SEL_NAMES or any(fd.payload.__module__ in SEL_MODULES for fd, b in mapped)
                        for first in firsts:
                            if use_sel and first != 'scalar':
                                continue
                            case = {'name': name, 'spelling': spelling, 'nargs': nargs, 'kw': kw}
                            text = L.spell(name, spelling, nargs, kw)
                            func = 'sel' if use_sel else ('s%d' if first == 'scalar' else 'l%d') % total
                            out.append(('sweep[%s]' % text.replace('tick', '').replace(' ', '') +
                                        ('' if first == 'scalar' else '/' + first),
                                        func, text, 'sweep', total,
                                        {'sweep': case, 'first': first, 'small': True, 'llen': 2 if total == 1 else 1}))
    return out


# ------------------------------------------------------------------ a selected operand that raises: the error propagates,
# nothing else is evaluated (no retry with another operand, no second evaluation)
BOOM_EXC = [IndexError, KeyError, ValueError, TypeError, AttributeError, ZeroDivisionError]
BOOM_TEXTS = [      # (text, ids evaluated before the raising probe)
    ('0.switchCase(boom({n}, $e), tick(90, 1), tick(91, 2))', []),
    ('1.switchCase(tick(90, 0), boom({n}, $e), tick(91, 2))', []),
    ('7.switchCase(tick(90, 0), tick(91, 1), boom({n}, $e))', []),
    ('(-1).switchCase(tick(90, 0), tick(91, 1), boom({n}, $e))', []),
    ('switch(tick(1, true) => boom({n}, $e), tick(90, true) => tick(91, 1))', [1]),
    ('switch(boom({n}, $e) => tick(90, 1), tick(91, true) => tick(92, 2))', []),
    ('switch(tick(1, false) => tick(90, 1), tick(2, true) => boom({n}, $e))', [1, 2]),
    ('coalesce(boom({n}, $e), tick(90, 1))', []),
    ('coalesce(tick(1, null), boom({n}, $e), tick(90, 1))', [1]),
    ('tick(1, true) and boom({n}, $e)', [1]),
    ('tick(1, false) or boom({n}, $e)', [1]),
    ('boom({n}, $e) and tick(90, true)', []),
    ('selectCase(tick(1, false), boom({n}, $e), tick(90, true))', [1]),
    ('[tick(1, 1), tick(2, 2)].select(boom({n}, $e)).toList()', [1, 2]),
    ('[tick(1, 1), tick(2, 2)].where(boom({n}, $e)).toList()', [1, 2]),
    ('tick(1, 5).examine(boom({n}, $e), tick(90, 1))', [1]) if False else ('tick(1, null)?.boom({n}, $e)', [1]),
]
BTBOX = [(i,) for i in range(len(BOOM_TEXTS))]


def _boom(id, exc):
    L.LOG.append(id)
    raise exc('boom %r' % (id,))


L.CTX.register_function(_boom, name='boom')


def raising_operand(t: int, e: int) -> bool:
    """
    pre: 0 <= t < len(BOOM_TEXTS) and 0 <= e < len(BOOM_EXC)
    post: _
    """
    tmpl, before = BOOM_TEXTS[BTBOX[t][0]]
    exc = BOOM_EXC[BTBOX[e][0]]
    with H.NoTracing():
        del L.LOG[:]
        text = tmpl.replace('{n}', '50')
        c = L.CTX.create_child_context()
        c['e'] = exc
        try:
            r = ('ok', yq.stmt(text, L.ENG).evaluate(context=c))
        except Exception as x:
            r = ('err', type(x).__name__)
        log = list(L.LOG)
        if tmpl.startswith('tick(1, null)?.'):
            ok = r == ('ok', None) and log == [1]              # ?. on null never evaluates its right side
        else:
            ok = r == ('err', exc.__name__) and log == before + [50]
    return H.done(ok)


# ------------------------------------------------------------------ lazy parameters passed by their public keyword name,
# and lazy receivers handed through functions that must not materialise them
LAZY_KW = [
    ("[].distinct(keySelector => tick(7, $))", []),
    ("[1, 2].distinct(keySelector => tick($, $))", [1, 2]),
    ("[].toDict($, valueSelector => tick(7, $))", []),
    ("[1, 2].toDict($, valueSelector => tick($, $))", [1, 2]),
    ("[1, 2].toDict(keySelector => tick($, $), valueSelector => tick($ + 10, $))", [1, 11, 2, 12]),
    ("[3].groupBy($, valueSelector => tick($ + 10, $)).toList()", [13]),
    ("[].groupBy(keySelector => tick(7, $), valueSelector => tick(8, $)).toList()", []),
    ("{a => [1]}.mergeWith({a => [2]}, listMerger => tick(5, $1 + $2))", [5]),
    ("{a => 1}.mergeWith({b => 2}, itemMerger => tick(5, $1))", []),
    ("[1, 2, 3, 4].select(tick($, $ * 10)).assert($.first() > 0).first()", [1]),
    ("[1, 2, 3, 4].select(tick($, $)).defaultIfEmpty([0]).first()", [1]),
    ("[1, 2, 3, 4].select(tick($, $)).memorize().take(2).toList()", [1, 2]),
    ("let(m => [1, 2, 3].select(tick($, $)).memorize()) -> [$m.first(), $m.first()]", [1]),
    # method of a yaqlized host object: positional then keyword arguments, left to right, before the body
    ("$o.combine(tick(1, 2), tick(2, 3), scale => tick(3, 10), offset => tick(4, 1))", [1, 2, 3, 4, 'body']),
    ("$o?.combine(tick(1, 2), offset => tick(2, 1))", [1, 2, 'body']),
    ("$o.combine(scale => tick(1, 10), offset => tick(2, 1))", [1, 2, 'body']),
]
LKBOX = [(i,) for i in range(len(LAZY_KW))]


class _Host:
    def combine(self, a=0, b=0, scale=1, offset=0):
        L.LOG.append('body')
        return (a + b) * scale + offset


from yaql import yaqlization as _yz
HOST_OBJ = _yz.yaqlize(_Host())


def lazy_keyword(t: int) -> bool:
    """
    pre: 0 <= t < len(LAZY_KW)
    post: _
    """
    text, want = LAZY_KW[LKBOX[t][0]]
    with H.NoTracing():
        del L.LOG[:]
        try:
            c = L.CTX.create_child_context()
            c['o'] = HOST_OBJ
            yq.stmt(text, L.ENG).evaluate(context=c)
            ok = list(L.LOG) == want
        except Exception:
            ok = False
    return H.done(ok)


def conditions(tier, seed):
    quick = tier == 'quick'
    t = 90 if quick else 400
    out = [{'name': 'lazy_keyword', 'func': 'lazy_keyword', 'timeout': 100,
            'bounds': '%d expressions: lambdas passed by the convention-translated keyword of a multi-word lazy parameter '
                      '(keySelector, valueSelector, listMerger, itemMerger) and lazy receivers passed through assert / defaultIfEmpty / '
                      'memorize: the probe trace is exactly the per-element demand (selectors)' % len(LAZY_KW)},
           {'name': 'raising_operand', 'func': 'raising_operand', 'timeout': 200,
            'bounds': '%d templates of short-circuit / branching / per-element functions whose SELECTED operand raises one of %d '
                      'exception classes: the error propagates, the trace is the prefix up to the raising probe (selectors)' % (
                          len(BOOM_TEXTS), len(BOOM_EXC))}]
    covered = set()
    for covers, name, func, text, model, n, extra in lazy_catalogue(quick):
        covered.update(covers)
        out.append({'name': 'lazy[%s]' % name, 'func': func, 'timeout': t,
                    'param': dict({'text': text, 'model': model, 'n': n}, **extra),
                    'bounds': '%s ; model %s ; harness %s %s' % (text, model, func, extra or '')})
    for name, func, text, model, n, extra in eager_catalogue():
        out.append({'name': name, 'func': func, 'timeout': t, 'param': dict({'text': text, 'model': model, 'n': n}, **extra),
                    'bounds': '%s ; model %s ; harness %s %s' % (text, model, func, extra or '')})
    # registry coverage: a function with a lazy parameter that has no hand-written model gets the weak law
    defs = L.all_definitions()
    for name, fds in defs.items():
        if name in covered or name in SKIP_NAMES:
            continue
        for fd in fds:
            pos, var, kwonly, varkw = L.visible(fd)
            if any(L.is_lazy(p) for p in pos + ([var] if var else []) + list(kwonly.values())):
                if name.startswith('#') or name.startswith('*'):
                    continue
                n = min(max(len(pos) + (1 if var else 0), 1), 4)
                spelling = 'method' if fd.is_method else 'function'
                text = L.spell(name, spelling, n, [])
                out.append({'name': 'lazy-unmodelled[%s/%d]' % (name, n), 'func': 'sel', 'timeout': t,
                            'param': {'text': text, 'model': 'weak', 'n': n},
                            'bounds': '%s ; a lazy function without a hand-written order model: weak law only, values '
                                      'selected from a concrete corpus' % text})
                break
    for name, func, text, model, n, extra in sweep_catalogue():
        if quick:
            k = 4 if func == 'sel' else 16
            if (L.stable_hash(name) + seed) % k != 0:
                continue
        out.append({'name': name, 'func': func, 'timeout': t, 'param': dict({'text': text, 'model': model, 'n': n}, **extra),
                    'bounds': '%s ; %s' % (text, 'values selected by symbolic indices from a concrete corpus of %s per '
                                           'position' % '/'.join(str(len(c)) for c in CORPUS[n]) if func == 'sel'
                                           else 'first operand %s, others Union[None,bool,int,str]' % extra.get('first'))})
    return out


def validate():
    """(1) the call-shape reference agrees with the real binder on every sweep template (concrete neutral values):
    a template predicted bindable must log every probe (or only the receiver, for a method whose receiver is rejected);
    (2) the order models agree with yaql on the expressions of the repo's own lazy-evaluation tests."""
    bad = []
    saved = (TEXT, MODEL, N)
    for name, func, text, model, n, extra in sweep_catalogue():
        if extra['first'] != 'scalar':
            continue
        vals = {'v%d' % i: None for i in range(1, n + 1)}
        log, raised = run(text, **vals)
        full = list(range(1, n + 1))
        if log != full and not (extra['sweep']['spelling'] == 'method' and log == [1]):
            bad.append('shape reference predicts that %s binds, probes logged %r (%s)' % (text, log, raised))
    # a few shapes the reference must reject: nothing may be logged
    for text in ('len(tick(1, $v1), tick(2, $v2))', 'tick(1, $v1).len(tick(2, $v2))', 'abs(x => tick(1, $v1))'):
        log, raised = run(text, v1=(1,), v2=1)
        if log not in ([], [1]):
            bad.append('unbindable call %s logged %r' % (text, log))
    return bad[:5]


def replay(cond, args):
    import props.c11 as me
    fn = getattr(me, cond['func'])
    vals = dict(args)
    try:
        ok = fn(**vals)
    except Exception as e:
        return {'reproduced': True, 'key': 'C11/exception/%s' % type(e).__name__,
                'what': '%s%r raised %r' % (cond['name'], vals, e)}
    if ok:
        return {'reproduced': False}
    if cond['func'] == 'lazy_keyword':
        return {'reproduced': True, 'key': 'C11/lazy-keyword',
                'what': '%s: probe trace %r, expected %r' % (LAZY_KW[vals['t']][0], list(L.LOG), LAZY_KW[vals['t']][1])}
    if cond['func'] == 'raising_operand':
        return {'reproduced': True, 'key': 'C11/raising-operand',
                'what': '%s with boom raising %s: trace %r - the selected operand\'s error must propagate and nothing else be '
                        'evaluated' % (BOOM_TEXTS[vals['t']][0], BOOM_EXC[vals['e']].__name__, list(L.LOG))}
    text = cond['param'].get('text')
    return {'reproduced': True, 'key': 'C11/order/%s' % cond['name'],
            'what': '%s with %r: probe log %r differs from the reference order (model %s)' % (
                text, vals, list(L.LOG), cond['param'].get('model'))}
