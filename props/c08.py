"""C08 - iterator limit and memory quota bound every evaluation.

Real code run symbolically: utils.limit_iterable / limit_memory_usage / convert_output_data, yaqltypes.Iterable.convert
and SmartType.convert, runner.call, the '#iter' and '#finalize' functions of yaql/__init__.py, the repetition
operators of strings.py / collections.py, and - in the registry sweep - the payload of every library function that
accepts an iterator, reached through the real dispatch, with the limit N / quota Q / demand symbolic.
"""
import resource

try:        # endless sources are around: never let a runaway allocation take the machine down
    resource.setrlimit(resource.RLIMIT_AS, (8 << 30, 8 << 30))
except Exception:       # pragma: no cover
    pass

import sys

from vf import h as H
from vf import yq
from props import c08_sweep as W

import yaql
from yaql.language import exceptions as yexc
from yaql.language import expressions, utils, yaqltypes, specs

ID = 'C08'
KNOWN = set(H.P('known', ()))
REAL = bool(H.P('replaying')) or bool(H.P('driver'))

FUNCTIONS_ENCODED = [
    'yaql.language.utils.limit_iterable', 'yaql.language.utils.limit_memory_usage',
    'yaql.language.utils.convert_output_data', 'yaql.language.yaqltypes.Iterable.convert / SmartType.convert',
    'yaql.__init__ #iter / #finalize', 'yaql.language.runner.call (result quota check)',
    'yaql.standard_library.strings.string_by_int/int_by_string', 'yaql.standard_library.collections.list_by_int/int_by_list',
    'every FunctionDefinition reachable from yaql.create_context() that accepts an iterator (live registry sweep), '
    'through runner.call/choose_overload or FunctionDefinition.get_delegate']
BOUNDS = {
    'quick': 'limit_iterable/#iter/Iterable.convert: N in [-1,5], source length in [0,6], demand in [0,8], 11 source '
             'kinds; finalisation: nested shapes depth 2, lengths in [0,4], N in [-1,4]; registry sweep: N in [0,4], '
             'lambda threshold k in [0,3], a VERIF_SEED-rotated third of the (definition, parameter) cases plus all '
             'expression templates, element kinds int (iterator) and str (re-iterable unsized host object); quota: Q in [-1,400], counts in [-3,40], sizes in [0,200]',
    'thorough': 'same ranges; every (definition, parameter) case with all five element kinds and optional parameters '
                'filled as well; growth chains up to 4 steps'}
OUTSIDE = ['total (as opposed to per-value) memory; sizes of nested structures (sys.getsizeof is shallow: that is the '
           'documented estimate)', 'wall-clock time', 'chains of more than one library call fed by an endless source '
           'beyond the listed expression templates', 'N > 5, Q > 400 (the code compares with N and Q only through '
           '<, <=: larger values take the same paths)',
           'the sweep selects concrete argument values from a typed corpus: only N, k, the predicate choice, Q and the '
           'counts/sizes are symbolic there']
ASSUMPTIONS = ['instrumented endless source: yields 0,1,2,... (or strings/pairs/lists/dicts built from the index), counts '
               'pulls, raises a sentinel after 12 pulls (N <= 4: N + 8) so that non-termination is an assertion failure',
               'RLIMIT_AS = 8 GB in every harness process',
               'sys.getsizeof is stubbed inside yaql.language.utils by a table of symbolic sizes (contract: size >= 0) '
               'for the quota unit conditions; the repetition conditions use the real getsizeof on concrete operands',
               'lambda arguments of the sweep are Python callables: constant true, or `$ > k`']
EXPLANATION = ('Symbolic execution (CrossHair+z3) of the real limiter/quota code and of every library function that accepts '
               'an iterator, with the limit N, the quota Q, the demand and lambda thresholds symbolic; sources are '
               'instrumented endless iterators with a pull budget. The solver decides over all N/Q/demand in range that '
               'no more than N+1 items are pulled, no collection longer than N is returned and oversize values are '
               'refused; counterexamples are replayed on plain CPython through the public API.')
TECHNIQUE = 'bounded symbolic execution (CrossHair+z3) of limiter/quota code and a live-registry sweep with instrumented sources'

FACTORY = yq.FACTORY
ENG0 = yq.ENG
ROOT = yq.ROOT


def engine_with(**opts):
    return ENG0.copy({'yaql.' + k: v for k, v in opts.items()})


def evaluate(text, eng, **variables):
    """parse once (concretely), evaluate under the given engine (options may hold symbolic values)"""
    st = yq.stmt(text)
    c = ROOT.create_child_context()
    for k, v in variables.items():
        c[k] = v
    return expressions.Statement(st.expression, eng).evaluate(context=c)


# =============================================================== 1. limit_iterable / #iter / Iterable.convert
SIZED_KINDS = ['tuple', 'list', 'set', 'frozenset', 'dict', 'frozendict', 'keys', 'items']
LAZY_KINDS = ['values', 'generator', 'map', 'reiterable']


def make_sized(kind, n):
    items = list(range(n))
    if kind == 'tuple':
        return tuple(items)
    if kind == 'list':
        return items
    if kind == 'set':
        return set(items)
    if kind == 'frozenset':
        return frozenset(items)
    if kind == 'dict':
        return {i: i for i in items}
    if kind == 'frozendict':
        return utils.FrozenDict((i, i) for i in items)
    if kind == 'keys':
        return {i: i for i in items}.keys()
    if kind == 'items':
        return {i: i for i in items}.items()
    raise ValueError(kind)


class Counted:
    """finite or endless instrumented iterator with a symbolic length"""

    def __init__(self, length, budget=16):
        self.length = length          # None: endless
        self.pulls = 0
        self.budget = budget
        self.blown = False

    def __iter__(self):
        return self

    def __next__(self):
        if self.pulls >= self.budget:
            self.blown = True
            raise W.BudgetExhausted()
        self.pulls += 1
        if self.length is not None and self.pulls > self.length:
            raise StopIteration
        return self.pulls - 1


class ReIterable:
    """host-supplied lazy collection: iterable, but neither an iterator nor sized (a result-set / stream object)"""

    def __init__(self, src):
        self.src = src

    def __iter__(self):
        return self.src


def make_lazy(kind, src):
    if kind == 'reiterable':
        return ReIterable(src)
    if kind == 'generator':
        return (x for x in src)
    if kind == 'map':
        return map(lambda x: x, src)
    return src


def apply_limit(how, obj, n):
    """the three entry points of the same mechanism"""
    if how == 'limit_iterable':
        return utils.limit_iterable(obj, n)
    eng = engine_with(limitIterators=n)
    if how == 'limit_iterable_engine':
        return utils.limit_iterable(obj, eng)
    if how == '#iter':
        return ROOT('#iter', eng)(obj)
    if how == 'Iterable.convert':
        return yaqltypes.Iterable().convert(obj, None, ROOT, None, eng)
    raise ValueError(how)


def limit_sized(n: int, length: int) -> bool:
    """
    pre: -1 <= n <= 5 and 0 <= length <= 6
    pre: H.fresh(n, length)
    post: _
    """
    kind, how = H.P('kind'), H.P('how')
    with H.NoTracing():
        obj = make_sized(kind, int(H.deep_realize(length)))
    try:
        res = apply_limit(how, obj, n)
        got = 'same' if res is obj else 'other'
    except yexc.CollectionTooLargeException:
        got = 'toolarge'
    except yexc.ArgumentValueException:
        got = 'badarg'
    except yexc.NoMatchingFunctionException:
        got = 'nomatch'
    if how in ('#iter', 'Iterable.convert') and kind in ('dict', 'frozendict'):
        exp = 'nomatch' if how == '#iter' else 'badarg'     # mappings are not iterables for yaql (iterableDicts off)
        return H.done(got == exp)
    exp = 'toolarge' if 0 <= n < length else 'same'
    return H.done(got == exp)


def limit_lazy(n: int, length: int, endless: bool, demand: int) -> bool:
    """
    pre: -1 <= n <= 5 and 0 <= length <= H.P('lmax', 6) and 0 <= demand <= 8
    pre: H.fresh(n, length, endless, demand)
    post: _
    """
    kind, how = H.P('kind'), H.P('how')
    src = Counted(None if endless else length)
    if kind == 'values':
        # a dict values view is neither Sequence, Set nor Mapping: it is limited lazily, element by element
        with H.NoTracing():
            L = int(H.deep_realize(length))
            obj = {i: i for i in range(L)}.values()
        endless = False
        src = None
    else:
        obj = make_lazy(kind, src)
    delivered, raised = 0, False
    try:
        out = apply_limit(how, obj, n)
        it = iter(out)
        for _ in range(demand):
            try:
                next(it)
            except StopIteration:
                break
            delivered += 1
    except yexc.CollectionTooLargeException:
        raised = True
    avail = demand if endless else min(demand, length)           # items the consumer would get without a limit
    if raised:
        # refusing is right exactly when the sequence as a whole exceeds the limit (a sized view may be refused up
        # front, an iterator only once element N+1 shows up); nothing beyond N elements was handed on
        ok = n >= 0 and (endless or length > n) and delivered <= n
    else:
        ok = delivered == avail and (n < 0 or avail <= n)
    if src is not None:
        ok = ok and not src.blown and (n < 0 or src.pulls <= n + 1)
    return H.done(ok)


# =============================================================== 2. finalisation of nested shapes around the limit
SHAPES = ['tuple', 'list', 'frozenset', 'frozendict-values', 'frozendict-keys', 'generator', 'items', 'values']


def build_shape(kind, inner_items):
    """container of the given kind holding the given (hashable unless stated) items"""
    if kind == 'tuple':
        return tuple(inner_items)
    if kind == 'list':
        return list(inner_items)
    if kind == 'frozenset':
        return frozenset(inner_items)
    if kind == 'frozendict-values':
        return utils.FrozenDict((i, v) for i, v in enumerate(inner_items))
    if kind == 'frozendict-keys':
        return utils.FrozenDict((v, i) for i, v in enumerate(inner_items))
    if kind == 'generator':
        return (v for v in inner_items)
    if kind == 'items':
        return {i: v for i, v in enumerate(inner_items)}.items()
    if kind == 'values':
        return {i: v for i, v in enumerate(inner_items)}.values()
    raise ValueError(kind)


HASHABLE_INNER = ['tuple']          # sets / mappings as set elements or dict keys: finalisation cannot hash them (C10, F5)


def limited_lengths(v):
    """reference: lengths of all collections that finalisation passes through the limiter (consumes generators)"""
    import collections.abc as abc
    if isinstance(v, abc.Mapping):
        out = [len(v)]
        for key, val in v.items():
            out += limited_lengths(key) + limited_lengths(val)
        return out
    if isinstance(v, (str, int, float, type(None))):
        return []
    if isinstance(v, abc.Iterable):
        items = list(v)
        out = [len(items)]
        for x in items:
            out += limited_lengths(x)
        return out
    return []


def finalize_nested(n: int, outer_len: int, inner_len: int) -> bool:
    """
    pre: -1 <= n <= H.P('nmax', 3) and 0 <= outer_len <= H.P('maxlen', 3) and 0 <= inner_len <= H.P('maxlen', 3)
    pre: H.fresh(n, outer_len, inner_len)
    post: _
    """
    outer, inner = H.P('outer'), H.P('inner')
    with H.NoTracing():
        lo, li = int(H.deep_realize(outer_len)), int(H.deep_realize(inner_len))

        def build():
            # inner collections of length inner_len with distinct content, outer of length outer_len
            return build_shape(outer, [build_shape(inner, [j * 10 + i for i in range(li)]) for j in range(lo)])
        value = build()
        longest = max(limited_lengths(build()))
    eng = engine_with(limitIterators=n, convertSetsToLists=True, convertTuplesToLists=False)
    try:
        res = evaluate('$v', eng, v=value)
        got = 'ok'
        with H.NoTracing():
            mx = W.census_max_len(res)
    except yexc.CollectionTooLargeException:
        got, mx = 'toolarge', 0
    if n >= 0 and longest > n:
        return H.done(got == 'toolarge')
    return H.done(got == 'ok' and mx == longest)


# =============================================================== 2b. histories: the limit belongs to the engine of THIS evaluation
def limit_history(n1: int, n2: int, length: int) -> bool:
    """
    pre: -1 <= n1 <= 4 and -1 <= n2 <= 4 and H.P('len', 3) == length
    pre: H.fresh(n1, n2, length)
    post: _
    """
    # one context (its own '#iter' finaliser) and two functions with their own parameter-type objects are used first by
    # an engine with limit n1, then by an engine with limit n2: the second evaluation obeys n2, whatever n1 was.
    # Everything that could remember something is created per path, so the symbolic run and the replay see the same
    # history.
    with H.NoTracing():
        ctx = yaql.create_context()

        @specs.parameter('seq', yaqltypes.Iterable())
        def via_iterable(seq):
            return seq

        @specs.parameter('seq', yaqltypes.Iterator())
        def via_iterator(seq):
            return seq
        ctx.register_function(via_iterable, name='viaIterable')
        ctx.register_function(via_iterator, name='viaIterator')
    ok = True
    for text in ('viaIterable($s)', 'viaIterator($s)', '$s'):
        for n in (n1, n2):
            src = Counted(length)
            c = ctx.create_child_context()
            c['s'] = src
            st = yq.stmt(text)
            try:
                res = expressions.Statement(st.expression, engine_with(limitIterators=n)).evaluate(context=c)
                raised = False
            except yexc.CollectionTooLargeException:
                raised, res = True, None
            ok = ok and raised == (0 <= n < length) and not src.blown and (n < 0 or src.pulls <= n + 1)
            if not raised:
                ok = ok and len(res) == length
    return H.done(ok)


# =============================================================== 2c. option levels: engine creation vs per statement
LEVEL_LIMITS = [(None,), (-1,), (0,), (2,), (3,), (100,)]
LEVEL_QUOTAS = [(None,), (-1,), (2000,), (1000000,)]
QUOTA_TEXT = 'x' * 4000
_LEVEL_ENGINES = {}


def level_engine(lim, quota):
    """engine created by the real factory with creation-time options (built once per combination, concretely)"""
    with H.NoTracing():
        key = (lim, quota)
        if key not in _LEVEL_ENGINES:
            o = {}
            if lim is not None:
                o['yaql.limitIterators'] = lim
            if quota is not None:
                o['yaql.memoryQuota'] = quota
            _LEVEL_ENGINES[key] = FACTORY.create(options=o)
        return _LEVEL_ENGINES[key]


_UNIQ = [0]
SMALLBOX = [(0,), (1,), (2,), (3,)]


def limit_levels(ie: int, has_s: bool, n_s: int, iq: int, has_q: bool, q_s: int, how: int, prior: int = 0) -> bool:
    """
    pre: 0 <= ie < len(LEVEL_LIMITS) and 0 <= iq < len(LEVEL_QUOTAS) and -1 <= n_s <= 5 and 0 <= how < 2
    pre: q_s in (-1, 3000, 500000)
    pre: (iq == 0 and not has_q and q_s == -1) if H.P('part') == 'limit' else (ie == 0 and not has_s and n_s == -1)
    pre: 0 <= prior < 3
    pre: H.fresh(ie, has_s, n_s, iq, has_q, q_s, how, prior)
    post: _
    """
    # the two protection options given when the engine is created and again for one statement: the statement's win;
    # an option given at neither level has its default (-1: unlimited).  What the same engine evaluated before is an
    # input too: the same texts may have been evaluated with no options (prior 1) or with lax ones (prior 2).  Every
    # path uses texts of its own (padded with blanks), so nothing but the stated history is shared between paths.
    how, prior = SMALLBOX[how][0], SMALLBOX[prior][0]
    with H.NoTracing():
        _UNIQ[0] += 1
        pad = ' ' * _UNIQ[0]
    t_s, t_q = '$s' + pad, '$t + $t' + pad
    n_e, q_e = LEVEL_LIMITS[ie][0], LEVEL_QUOTAS[iq][0]
    eng = level_engine(n_e, q_e)
    so = {}
    if has_s:
        so['yaql.limitIterators'] = n_s
    if has_q:
        so['yaql.memoryQuota'] = q_s
    n = n_s if has_s else (-1 if n_e is None else n_e)
    quota = q_s if has_q else (-1 if q_e is None else q_e)
    length = 4
    src = Counted(length)
    c = ROOT.create_child_context()
    c['s'] = src
    c['t'] = QUOTA_TEXT
    if prior:
        lax = {} if prior == 1 else {'yaql.limitIterators': 1000, 'yaql.memoryQuota': 10 ** 8}
        with H.NoTracing():
            for text in (t_s, t_q):
                pc = ROOT.create_child_context()
                pc['s'], pc['t'] = iter(()), 'x'
                try:
                    (eng(text, options=lax) if how == 0 else eng.copy(lax)(text)).evaluate(context=pc)
                except Exception:
                    pass
    st = eng(t_s, options=so) if how == 0 else eng.copy(so)(t_s)
    try:
        res = st.evaluate(context=c)
        raised = False
    except yexc.CollectionTooLargeException:
        raised, res = True, None
    ok = raised == (0 <= n < length) and not src.blown and (n < 0 or src.pulls <= n + 1)
    if not raised:
        ok = ok and len(res) == length
    st = eng(t_q, options=so) if how == 0 else eng.copy(so)(t_q)
    try:
        st.evaluate(context=c)
        over = False
    except yexc.MemoryQuotaExceededException:
        over = True
    ok = ok and over == (0 < quota < 8000)
    return H.done(ok)


# =============================================================== 3. registry sweep with an instrumented endless source
def classify(label_or_text):
    """root-cause class (stable key) of a sweep case / expression template"""
    s = label_or_text
    if 'len<queries.count_>' in s or '.len()' in s or 'len($' in s:
        return 'C08/len-iterator-unlimited'
    if 'generateMany' in s:
        return 'C08/generateMany-producer-unbounded'
    return None


_CASES = None


def all_cases():
    global _CASES
    if _CASES is None:
        with H.NoTracing():
            _CASES = W.cases(ROOT, ENG0)
    return _CASES


def case_ok(r, n):
    return r is None or (not r['blown'] and r['pulls'] <= n + 1 and r['maxlen'] <= n)


def make_lambda(pred, k):
    if pred:
        return lambda *a, **kw: True
    return lambda *a, **kw: (a[0] > k) if (a and isinstance(a[0], int) and not isinstance(a[0], bool)) else False


def run_group(labels, kinds, n, k, pred, fill_optional, only_known=None):
    """-> list of (label, kind, mode, result) that break the bound"""
    eng = engine_with(limitIterators=n)
    lam = make_lambda(pred, k)
    bad = []
    by_label = {c['label']: c for c in all_cases()}
    for label in labels:
        case = by_label.get(label)
        if case is None:
            continue
        cls = classify(label)
        if only_known is None and cls in KNOWN:
            continue
        if only_known is not None and cls != only_known:
            continue
        for kind in kinds:
            r = W.run_case(case, ROOT, eng, kind, lam, fill_optional)
            mode = 'dispatch'
            if r is not None and r['outcome'] == 'nomatch':
                r2 = W.run_case(case, ROOT, eng, kind, lam, fill_optional, direct=True)
                if not case_ok(r, n):
                    bad.append((label, kind, mode, r))
                r, mode = r2, 'direct'
            if not case_ok(r, n):
                bad.append((label, kind, mode, r))
    return bad


def sweep(n: int, k: int, pred: bool) -> bool:
    """
    pre: 0 <= n <= 4 and 0 <= k <= 3
    pre: H.fresh(n, k, pred)
    post: _
    """
    bad = run_group(H.P('labels'), H.P('kinds', ['int']), n, k, pred, H.P('fill', False))
    return H.done(not bad)


TEMPLATES = [
    '$s', '[$s]', '{a => $s}', '[[$s]]', '$s.len()', 'len($s)', '$s?.len()', '$s.select($).len()', '$s.cycle().len()',
    '$s.select($ + 1)', '$s.where($ > $k)', '$s.where($ > $k).select([$, $])', '$s.toList()', 'list($s)', '$s.sum()',
    '$s.orderBy($)', '$s.orderBy($).thenBy(-$)', '$s.distinct()', '$s.groupBy($ mod 2)', '$s.reverse()', '$s.last()',
    '$s.zip([1])', '$s.take(2)', '$s.skip(1).first()', '$s.takeWhile($ < $k)', '$s.skipWhile($ < $k).first()',
    'let(x => $s) -> $x.len()', '$s -> $.len()', 'generateMany(1, $s)', 'generateMany(1, $s).take(3)',
    '$s.selectMany([$, $])', '$s.memorize()', '$s.memorize().len()', '$s.indexOf(50)', '50 in $s', '$s.contains(50)',
    '$s.max()', '$s.accumulate($1 + $2)', '$s.aggregate($1 + $2)', '$s.join([1, 2], true, [$1, $2])',
    '$s.toDict($, $)', 'dict($s.select([$, $]))', '$s.toSet()', 'set($s)', '$s.splitAt(2)', '$s.slice(2)',
    '$s.append(1)', '$s + [1]', '[1] + $s', '$s.flatten()', '[$s].flatten()', '$s.concat([1])', '$s.any($ > $k)',
    '$s.all($ < $k)', '$s.first()', '$s.single()', '$s.count()', '$s.sliceWhere($ > $k)', '$s.splitWhere($ > $k)',
    '$s.insert(1, 9)', '$s.insertMany(1, [9])', '$s.replace(1, 9)', '$s.replaceMany(1, [9])', '$s.delete(1)',
    '$s.limit(2)', '$s.defaultIfEmpty([1])', 'isList($s)', 'bool($s)', 'str($s)', 'isIterable($s)',
    'sequence().len()', '[1].cycle().len()', 'range(5, 100000).len()', 'sequence().select($).len()',
    'sequence()', 'list(sequence())', 'sequence().toList()', '[1].cycle()', 'repeat(1)', 'repeat(1).len()',
    'range(100000)', 'range(100000).toList()', 'generate(0, true, $ + 1)', 'generate(0, true, $ + 1).len()',
    'generateMany(0, [$ + 1])', 'generateMany(1, sequence())', 'generateMany(1, sequence()).take(3)',
]


def template_outcome(text, n, k):
    """evaluate one template with a fresh instrumented source; -> (ok, detail)"""
    src = W.Source('int', budget=W.BUDGET)
    eng = engine_with(limitIterators=n)
    maxlen, outcome = 0, 'ok'
    guard = Guard(src)
    try:
        with guard:
            res = evaluate(text, eng, s=src, k=k)
        with H.NoTracing():
            maxlen = W.census_max_len(res)
    except yexc.CollectionTooLargeException:
        outcome = 'toolarge'
    except W.BudgetExhausted:
        outcome = 'budget'
    except Exception as e:
        outcome = 'exc:' + type(e).__name__
    ok = (not src.blown) and (not guard.blown) and src.pulls <= n + 1 and maxlen <= n
    return ok, {'pulls': src.pulls, 'blown': src.blown or guard.blown, 'outcome': outcome, 'maxlen': maxlen}


class Guard:
    """the templates that use yaql's own endless generators (sequence(), cycle, repeat, generate) have no
    instrumented source: inside the block the library's itertools.count/cycle/repeat references are replaced by
    budgeted equivalents, so that a missing limit becomes a BudgetExhausted instead of a hang"""

    def __init__(self, src):
        self.blown = False

    def __enter__(self):
        import itertools
        from yaql.standard_library import queries
        guard = self
        budget = 10 * W.BUDGET

        def budgeted(it):
            for i, x in enumerate(it):
                if i >= budget:
                    guard.blown = True
                    raise W.BudgetExhausted('library-made endless iterator')
                yield x

        class IT:
            def __getattr__(s, name):
                return getattr(itertools, name)

            @staticmethod
            def count(*a):
                return budgeted(itertools.count(*a))

            @staticmethod
            def cycle(x):
                return budgeted(itertools.cycle(x))

            @staticmethod
            def repeat(*a):
                return budgeted(itertools.repeat(*a)) if len(a) < 2 else itertools.repeat(*a)
        self.saved = queries.itertools
        queries.itertools = IT()
        return self

    def __exit__(self, *a):
        from yaql.standard_library import queries
        queries.itertools = self.saved
        return False


def templates(n: int, k: int) -> bool:
    """
    pre: 0 <= n <= 4 and 0 <= k <= 3
    pre: H.fresh(n, k)
    post: _
    """
    ok = True
    for text in H.P('texts'):
        if classify(text) in KNOWN:
            continue
        t_ok, _ = template_outcome(text, n, k)
        ok = ok and t_ok
    return H.done(ok)


def probe_sweep(n: int, k: int, pred: bool) -> bool:
    """
    pre: 0 <= n <= 4 and 0 <= k <= 3
    post: _
    """
    key = H.P('probe_key')
    labels = [c['label'] for c in all_cases() if classify(c['label']) == key]
    bad = run_group(labels, ['int'], n, k, pred, False, only_known=key)
    ok = not bad
    for text in TEMPLATES:
        if classify(text) == key and '$s' in text:
            t_ok, _ = template_outcome(text, n, k)
            ok = ok and t_ok
    return H.done(ok)


# =============================================================== 4. memory quota
class StubSys:
    """stands in for the module `sys` inside yaql.language.utils: getsizeof answers from a table keyed by identity"""

    def __init__(self, sizes):
        self.sizes = sizes
        self.asked = []

    def getsizeof(self, obj, default=0):
        self.asked.append(obj)
        for o, s in self.sizes:
            if o is obj:
                return s
        if type(obj) is LoggedTuple:
            return sys.getsizeof(tuple(obj))         # the size of the plain tuple a host would pass
        return sys.getsizeof(obj, default)

    def __getattr__(self, name):
        return getattr(sys, name)


class Marker:
    def __init__(self, name):
        self.name = name

    def __repr__(self):
        return 'Marker(%s)' % self.name


class IntMarker(int):
    """a number: Python integers are unbounded, so the quota applies to them like to any other value"""


class FloatMarker(float):
    pass


MARKER_KIND = H.P('marker', 'object')


def make_marker():
    if MARKER_KIND == 'int':
        return IntMarker(5)
    if MARKER_KIND == 'float':
        return FloatMarker(2.5)
    return Marker('m')


def quota_unit(q: int, c1: int, s1: int, c2: int, s2: int, via_engine: bool) -> bool:
    """
    pre: -1 <= q <= 400 and -3 <= c1 <= 40 and -3 <= c2 <= 40 and 0 <= s1 <= 200 and 0 <= s2 <= 200
    pre: H.fresh(q, c1, s1, c2, s2, via_engine)
    post: _
    """
    a, b = Marker('a'), Marker('b')
    stub = StubSys([(a, s1), (b, s2)])
    saved = utils.sys
    utils.sys = stub
    try:
        try:
            utils.limit_memory_usage(engine_with(memoryQuota=q) if via_engine else q, (c1, a), (c2, b))
            raised = False
        except yexc.MemoryQuotaExceededException:
            raised = True
    finally:
        utils.sys = saved
    t1 = c1 * s1
    exp = q > 0 and (t1 > q or t1 + c2 * s2 > q)
    return H.done(raised == exp)


class LoggedTuple(tuple):
    """sequence operand that logs when it is actually repeated"""
    log = None

    def __mul__(self, n):
        LoggedTuple.log.append(('mul', n))
        return tuple.__mul__(self, n)
    __rmul__ = __mul__


def rep_operand_len(length):
    """operand lengths: strings 0, 4, 8, 12 (the estimate is exact per character); sequences 0, 1, 2, 3, 4"""
    return (4 if H.P('what', 'str') == 'str' else 1) * length


def rep_class(q, right, length):
    """listed class: sequence repetition whose pre-allocation estimate - computed by list_by_int with the header
    size of a *list* although the operand is a tuple - stays within the quota while the product does not"""
    if H.P('what', 'str') == 'str':
        return None
    L = rep_operand_len(length)
    true = sys.getsizeof(()) + 8 * L * (right if right > 0 else 0)
    est = sys.getsizeof([]) + right * (sys.getsizeof(()) + 8 * L - sys.getsizeof([]))
    if q > 0 and true > q and est <= q:
        return 'C08/list-repetition-underestimated'
    return None


def repetition(q: int, right: int, length: int, swap: bool) -> bool:
    """
    pre: H.P('qlo', -1) <= q <= 400 and H.P('lenlo', 0) <= length <= H.P('maxlen', 3)
    pre: H.P('rlo', -3) <= right <= H.P('rhi', 40)
    pre: rep_class(q, right, length) not in KNOWN
    pre: H.fresh(q, right, length, swap)
    post: _
    """
    return H.done(repetition_ok(q, right, length, swap))


def probe_repetition(q: int, right: int, length: int, swap: bool) -> bool:
    """
    pre: 1 <= q <= 400 and 1 <= length <= 4 and -3 <= right <= 40
    pre: rep_class(q, right, length) == H.P('probe_key')
    post: _
    """
    return H.done(repetition_ok(q, right, length, swap))


def repetition_ok(q, right, length, swap):
    what = H.P('what', 'str')
    with H.NoTracing():
        L = rep_operand_len(int(H.deep_realize(length)))
        if what == 'str':
            left = 'x' * L
            true_size = lambda r: sys.getsizeof('') + (max(r, 0) * L)          # ASCII: 1 byte per character
        else:
            left = LoggedTuple(range(L))
            LoggedTuple.log = []
            true_size = lambda r: sys.getsizeof(()) + 8 * (max(r, 0) * L)
    eng = engine_with(memoryQuota=q)
    text = '$b * $a' if swap else '$a * $b'
    stub = StubSys([])            # answers with the real sizes, logs which objects were measured
    saved = utils.sys
    utils.sys = stub
    try:
        try:
            res = evaluate(text, eng, a=left, b=right)
            raised = False
        except yexc.MemoryQuotaExceededException:
            raised, res = True, None
    finally:
        utils.sys = saved
    size = true_size(right)
    ok = True
    if q > 0 and size > q:
        ok = raised                                   # refused ...
        if what != 'str':                             # ... before the product was built:
            ok = ok and not LoggedTuple.log             # the operand was never multiplied
        else:                                         # (strings are copied by String.convert, so no wrapper survives:)
            for o in stub.asked:                      # no string longer than the operand was ever measured
                if isinstance(o, str) and len(o) > L:
                    ok = False
    if not raised:
        with H.NoTracing():
            r = H.deep_realize(res)
            n_r = int(H.deep_realize(right))
            ok_val = (r == left * n_r) if what == 'str' else (tuple(r) == tuple(left) * n_r)
            rsize = sys.getsizeof(r)
        ok = ok and ok_val and (q <= 0 or rsize <= q)      # what is returned fits the quota
    return ok


def _quota_context():
    """child of the standard context with: mk() -> the marker object, use(x) -> logs that it ran"""
    ctx = ROOT.create_child_context()
    state = {'marker': make_marker(), 'used': 0}

    def mk():
        return state['marker']

    def use(x):
        state['used'] += 1
        return 1

    @specs.parameter('x', yaqltypes.PythonType((Marker, IntMarker, FloatMarker), nullable=False))
    def use_typed(x):
        state['used'] += 1
        return 1

    def passthrough(x):
        state['used'] += 1
        return x

    @specs.method
    def consume(x):
        state['used'] += 1
        return 1
    ctx.register_function(consume)
    ctx.register_function(mk)
    ctx.register_function(use)
    ctx.register_function(use_typed, name='useTyped')
    ctx.register_function(passthrough)
    return ctx, state


QUOTA_EXPRS = {'result': 'mk()', 'arg-of-function': 'use(mk())', 'variable-as-arg': 'use($m)',
               'typed-arg': 'useTyped($m)', 'passed-through': 'passthrough($m)', 'in-list': '[mk()]',
               'lambda-result': '[1].select(mk()).toList()', 'let-binding': 'let(x => mk()) -> 1', 'method-receiver': '$m.consume()',
               'constant-arg': 'use("%s")' % ('x' * 200)}


def quota_flow(q: int, size: int) -> bool:
    """
    pre: -1 <= q <= 400 and 0 <= size <= 500
    pre: H.fresh(q, size)
    post: _
    """
    which = H.P('expr')
    ctx, state = _quota_context()
    stub = StubSys([(state['marker'], size)])
    eng = engine_with(memoryQuota=q, convertOutputData=False)
    st = yq.stmt(QUOTA_EXPRS[which])
    c = ctx.create_child_context()
    c['m'] = state['marker']
    saved = utils.sys
    utils.sys = stub
    try:
        try:
            expressions.Statement(st.expression, eng).evaluate(context=c)
            raised = False
        except yexc.MemoryQuotaExceededException:
            raised = True
    finally:
        utils.sys = saved
    if which == 'constant-arg':
        size = sys.getsizeof('x' * 200)          # a literal is handed to the payload without any function call
    over = q > 0 and size > q
    # only this direction is claimed: an oversize value is refused, and never reaches the next payload.  (Other
    # values of the evaluation - small ints, lists - have their real sizes, so tiny quotas refuse them as well.)
    ok = (not over) or (raised and state['used'] == 0)
    if q <= 0:
        ok = ok and not raised
    return H.done(ok)


# growth chains: every payload of the standard context is wrapped (in this process) to record the largest argument
_WRAPPED = {'done': False, 'max': 0, 'where': None}
SIZED_TYPES = (str, tuple, list, dict, set, frozenset, utils.FrozenDict, int)


def _wrap_payloads():
    if _WRAPPED['done']:
        return
    _WRAPPED['done'] = True
    for c in W.all_contexts(ROOT):
        for name, fds in (getattr(c, '_functions', None) or {}).items():
            for fd in fds:
                fd.payload = _recording(fd.payload, name)


def _recording(payload, name):
    import functools

    @functools.wraps(payload)
    def wrapper(*args, **kwargs):
        with H.NoTracing():
            for v in list(args) + list(kwargs.values()):
                if isinstance(v, SIZED_TYPES):
                    try:
                        sz = sys.getsizeof(v, 0)
                    except Exception:
                        continue
                    if sz > _WRAPPED['max']:
                        _WRAPPED['max'], _WRAPPED['where'] = sz, name
        return payload(*args, **kwargs)
    return wrapper


CHAINS = {
    'str+': ('"abcdefghij"', ' + "abcdefghij"'), 'list+': ('[1,2,3,4,5,6,7,8]', ' + [1,2,3,4,5,6,7,8]'),
    'str*': ('"abcdefghij"', ' * 3'), 'list*': ('[1,2,3,4]', ' * 3'),
    'join': ('"abcdefghij"', '.replace("a", "aaaa")'), 'dict.set': ('{a => 1}', '.set(k%d, "v")'),
    'join-list': ('[abcdefgh]', '.select($ + $).toList()'), 'append': ('[1,2,3,4]', '.append(1,2,3,4,5,6,7,8)'),
    'int*': ('999999999999999999999999999999999999999999999999999999999999999999999999999999999999999999999999999999999999999999999999', ' * 999999999999999999999999999999999999999999999999999999999999999999999999999999999999999999999999999999999999999999999999'),
    'str-join': ('[abcd, efgh]', '.select($.join([$, $]))'), 'dict+': ('{a => 1}', ' + {k%d => 1, j%d => 2, l%d => 3}'),
}


def growth_chain(q: int, steps: int) -> bool:
    """
    pre: 60 <= q <= 400 and 0 <= steps <= 4
    pre: H.fresh(q, steps)
    post: _
    """
    name = H.P('chain')
    with H.NoTracing():
        _wrap_payloads()
        n = int(H.deep_realize(steps))
        head, step = CHAINS[name]
        text = head + ''.join((step % ((i,) * step.count('%d'))) if '%d' in step else step for i in range(n))
        _WRAPPED['max'], _WRAPPED['where'] = 0, None
    eng = engine_with(memoryQuota=q, convertOutputData=False)
    try:
        res = evaluate(text, eng)
        raised = False
    except yexc.MemoryQuotaExceededException:
        raised, res = True, None
    with H.NoTracing():
        seen = _WRAPPED['max']
        rsize = 0
        if not raised and isinstance(res, SIZED_TYPES):
            rsize = sys.getsizeof(res, 0)
    return H.done(seen <= q and rsize <= q)


# =============================================================== validation of the reference pieces
def validate():
    bad = []
    # size formulas used as the "true size of the product" in the repetition conditions
    for n in (0, 1, 4, 8, 40, 400):
        if sys.getsizeof('x' * n) != sys.getsizeof('') + n:
            bad.append('str size model wrong for length %d' % n)
        if sys.getsizeof(tuple(range(n))) != sys.getsizeof(()) + 8 * n:
            bad.append('tuple size model wrong for length %d' % n)
    # reference census against hand-computed cases
    if limited_lengths(utils.FrozenDict({'a': (1, 2, 3), 'b': frozenset([1])})) != [2, 3, 1]:
        bad.append('limited_lengths reference wrong on a mapping')
    if sorted(limited_lengths({1: 'x'}.items())) != [1, 2]:
        bad.append('limited_lengths reference wrong on an items view')
    if W.census_max_len({'a': [1, 2, (3, 4, 5)], 'b': {1, 2}}) != 3:
        bad.append('census_max_len wrong')
    # instrumented source and the observations of DESIGN.md appendix A (limitIterators = 10) that hold on every tree
    eng = engine_with(limitIterators=10)
    for text, want in [('$s.take(3)', [0, 1, 2]), ('[$s].flatten().take(3)', [0, 1, 2]), ('5 in $s', True), ('$h.len()', 20)]:
        src = W.Source('int', budget=40)
        try:
            got = evaluate(text, eng, s=src, h=tuple(range(20)))
        except Exception as e:
            got = e
        if got != want:
            bad.append('limitIterators=10: %s -> %r, expected %r' % (text, got, want))
        if src.pulls > 11:
            bad.append('limitIterators=10: %s pulled %d items' % (text, src.pulls))
    for text in ['$s', 'list($s)', '$s.toList()', '$s.sum()', '$s.orderBy($)', '[range(11)]', '{a => range(11)}']:
        src = W.Source('int', budget=40)
        try:
            evaluate(text, eng, s=src)
            bad.append('limitIterators=10: %s did not raise CollectionTooLargeException' % text)
        except yexc.CollectionTooLargeException:
            pass
        except Exception as e:
            bad.append('limitIterators=10: %s raised %r' % (text, e))
    if len(all_cases()) < 100:
        bad.append('registry sweep found only %d (definition, parameter) cases' % len(all_cases()))
    return bad[:5]


# =============================================================== conditions
def conditions(tier, seed):
    q = tier == 'quick'
    out = []

    def add(name, func, bounds, timeout, **param):
        out.append({'name': name, 'func': func, 'timeout': timeout, 'param': param, 'bounds': bounds})
    t = 90 if q else 400
    hows = ['limit_iterable', '#iter', 'Iterable.convert'] if q else ['limit_iterable', 'limit_iterable_engine', '#iter',
                                                                    'Iterable.convert']
    for how in hows:
        for kind in SIZED_KINDS:
            if q and how != 'limit_iterable' and kind in ('list', 'set', 'keys'):
                continue
            add('limit_sized[%s,%s]' % (how, kind), 'limit_sized', 'N in [-1,5], len in [0,6]; %s via %s' % (kind, how),
                t, kind=kind, how=how)
        for kind in LAZY_KINDS:
            lmax = 4 if (q and kind == 'values') else 6
            add('limit_lazy[%s,%s]' % (how, kind), 'limit_lazy',
                'N in [-1,5], source length in [0,%d] or endless, demand in [0,8]; %s via %s' % (lmax, kind, how), t,
                kind=kind, how=how, lmax=lmax)
    for outer in SHAPES:
        for inner in SHAPES:
            if outer == 'frozendict-keys' and inner not in HASHABLE_INNER:
                continue
            if outer == 'frozenset' and inner not in ('tuple', 'frozenset', 'frozendict-values'):
                continue        # unhashable inputs cannot be built
            core = (outer, inner) in (('frozendict-keys', 'tuple'), ('tuple', 'frozendict-keys'), ('generator', 'frozendict-values'))
            if q and not core and (SHAPES.index(outer) + SHAPES.index(inner) + seed) % 3 != 0:
                continue
            mx = 2 if q else 3
            add('finalize_nested[%s,%s]' % (outer, inner), 'finalize_nested',
                'N in [-1,%d], outer/inner lengths in [0,%d]; %s of %s through $v and #finalize' % (mx, mx, outer, inner),
                t if q else 900, outer=outer, inner=inner, nmax=mx, maxlen=mx)
    for ln in ([3] if q else [0, 1, 3, 5]):
        add('limit_history[len%d]' % ln, 'limit_history', 'two evaluations on one context and on functions with their own '
            'Iterable()/Iterator() type objects, engine limits n1 then n2 in [-1,4], source length %d' % ln, 240 if q else 600, len=ln)
    add('limit_levels[limitIterators]', 'limit_levels', 'yaql.limitIterators absent or one of -1,0,2,3,100 at engine creation '
        '(symbolic selector) and absent or any value in [-1,5] per statement, through engine(expr, options=...) and '
        'engine.copy: a 4-element lazy result obeys the statement level, else the engine level, else the default', 240 if q else 600,
        part='limit')
    add('limit_levels[memoryQuota]', 'limit_levels', 'yaql.memoryQuota absent/-1/2000/10^6 at engine creation and '
        'absent/-1/3000/500000 per statement, both routes: an 8000-character concatenation is refused exactly when the '
        'effective quota is 2000 or 3000', 240 if q else 600, part='quota')
    # registry sweep
    cases = all_cases()
    labels = [c['label'] for c in cases]
    if q:
        labels = [l for i, l in enumerate(labels) if (i + seed) % 3 == 0 or classify(l)]
    gsize = 6
    kinds = ['int', 'str@re'] if q else W.ELEMENT_KINDS + ['int@re', 'pair@re']
    for gi in range(0, len(labels), gsize):
        grp = labels[gi:gi + gsize]
        add('sweep[%03d:%s]' % (gi, grp[0].split('<')[0]), 'sweep',
            'N in [0,4], k in [0,3], predicate true | $>k; element kinds %s; cases: %s' % (','.join(kinds), '; '.join(grp)),
            150 if q else 600, labels=grp, kinds=kinds, fill=False)
    if not q:
        for gi in range(0, len(labels), gsize):
            grp = labels[gi:gi + gsize]
            add('sweep-optional[%03d:%s]' % (gi, grp[0].split('<')[0]), 'sweep',
                'as sweep, optional parameters filled from the corpus; cases: ' + '; '.join(grp), 600,
                labels=grp, kinds=['int', 'pair'], fill=True)
    tsize = 6
    for gi in range(0, len(TEMPLATES), tsize):
        grp = TEMPLATES[gi:gi + tsize]
        add('templates[%03d]' % gi, 'templates', 'N in [0,4], k in [0,3]; expressions: ' + ' | '.join(grp),
            300 if q else 900, texts=grp)
    # quota
    add('quota_unit', 'quota_unit', 'Q in [-1,400], counts in [-3,40], stubbed sizes in [0,200], quota as int or engine', t)
    for what in ('str', 'tuple'):
        unit = 4 if what == 'str' else 1
        lo, hi = (-1, 6) if q else (-3, 40)
        lens = ([1, 2] if q else [0, 1, 2, 3]) if what == 'str' else ([1, 2, 3, 4] if q else [0, 1, 2, 3, 4])
        for ln in lens:
            add('repetition[%s,small,len%d]' % (what, unit * ln), 'repetition',
                'Q in [-1,400], count in [%d,%d], operand length %d, both orders' % (lo, hi, unit * ln),
                150 if q else 900, what=what, rlo=lo, rhi=hi, lenlo=ln, maxlen=ln)
        lo = 9999 if q else 9990
        add('repetition[%s,huge]' % what, 'repetition', 'Q in [1,400], count in [%d,10000], operand lengths %s, both orders'
            % (lo, ','.join(str(unit * x) for x in lens)), 150 if q else 900, what=what, rlo=lo, rhi=10000,
            lenlo=min(lens), maxlen=max(lens), qlo=1)
    for which in QUOTA_EXPRS:
        add('quota_flow[%s]' % which, 'quota_flow', 'Q in [-1,400], stubbed size of the value in [0,500]; ' + QUOTA_EXPRS[which],
            t, expr=which)
    for kind in ('int', 'float'):
        for which in (('result', 'arg-of-function', 'passed-through') if q else [w for w in QUOTA_EXPRS if w != 'constant-arg']):
            add('quota_flow[%s,%s]' % (which, kind), 'quota_flow', 'Q in [-1,400], stubbed size in [0,500] of a value that is a '
                'number (%s subclass instance; Python integers are unbounded); %s' % (kind, QUOTA_EXPRS[which]), t, expr=which,
                marker=kind)
    for name in CHAINS:
        if q and name not in ('str+', 'list+', 'dict.set', 'append', 'int*'):
            continue
        add('growth_chain[%s]' % name, 'growth_chain', 'Q in [60,400], steps in [0,4]; %s%s...' % CHAINS[name], 150 if q else 600,
            chain=name)
    if 'C08/list-repetition-underestimated' in KNOWN:
        out.append({'name': 'probe[list-repetition-underestimated]', 'func': 'probe_repetition', 'timeout': 120,
                    'kind': 'probe', 'param': {'probe_key': 'C08/list-repetition-underestimated', 'what': 'tuple'},
                    'bounds': 'Q in [1,400], count in [-3,40], sequence operand lengths 1..4, inside the class'})
    for key in sorted(KNOWN):
        if key in ('C08/len-iterator-unlimited', 'C08/generateMany-producer-unbounded'):
            out.append({'name': 'probe[%s]' % key.split('/')[1], 'func': 'probe_sweep', 'timeout': 120, 'kind': 'probe',
                        'param': {'probe_key': key}, 'bounds': 'N in [0,4]; sweep cases and templates of class ' + key})
    return out


# =============================================================== replay
def replay(cond, args):
    import props.c08 as me
    f, p = cond['func'], cond.get('param') or {}
    vals = dict(args)
    if f in ('sweep', 'probe_sweep'):
        n, k, pred = vals['n'], vals['k'], vals['pred']
        if f == 'sweep':
            bad = run_group(p['labels'], p.get('kinds', ['int']), n, k, pred, p.get('fill', False))
        else:
            key = p['probe_key']
            bad = run_group([c['label'] for c in all_cases() if classify(c['label']) == key], ['int'], n, k, pred, False,
                            only_known=key)
            for text in TEMPLATES:
                if classify(text) == key and '$s' in text:
                    t_ok, d = template_outcome(text, n, k)
                    if not t_ok:
                        bad.append((text, 'int', 'expression', d))
        if not bad:
            return {'reproduced': False}
        label, kind, mode, r = bad[0]
        return {'reproduced': True, 'key': classify(label) or 'C08/sweep/' + label,
                'what': 'limitIterators=%d: %s fed an endless source (%s elements, %s): %d pulls, budget %s, outcome %s, '
                        'largest collection %d; expected <= %d pulls and CollectionTooLargeException'
                        % (n, label, kind, mode, r['pulls'], 'EXHAUSTED' if r['blown'] else 'ok', r['outcome'], r['maxlen'], n + 1)}
    if f == 'templates':
        n, k = vals['n'], vals['k']
        for text in p['texts']:
            if classify(text) in KNOWN:
                continue
            t_ok, d = template_outcome(text, n, k)
            if not t_ok:
                return {'reproduced': True, 'key': classify(text) or 'C08/expr/' + text,
                        'what': 'limitIterators=%d: %s over an endless source: %d pulls, budget %s, outcome %s, largest '
                                'collection %d' % (n, text, d['pulls'], 'EXHAUSTED' if d['blown'] else 'ok', d['outcome'], d['maxlen'])}
        return {'reproduced': False}
    fn = getattr(me, f)
    try:
        ok = fn(**vals)
        err = None
    except Exception as e:
        ok, err = False, e
    if ok:
        return {'reproduced': False}
    if f == 'finalize_nested':
        def build():
            return build_shape(p['outer'], [build_shape(p['inner'], [j * 10 + i for i in range(vals['inner_len'])])
                                            for j in range(vals['outer_len'])])
        try:
            got = 'returns %r' % (evaluate('$v', engine_with(limitIterators=vals['n'], convertSetsToLists=True,
                                                              convertTuplesToLists=False), v=build()),)
        except Exception as e:
            got = 'raises %s' % type(e).__name__
        return {'reproduced': True, 'key': 'C08/finalize_nested/%s/%s' % (p['outer'], p['inner']),
                'what': 'limitIterators=%d: result %s of %s (lengths %d, %d; collections of lengths %r pass the finaliser): %s; '
                        'expected %s' % (vals['n'], p['outer'], p['inner'], vals['outer_len'], vals['inner_len'],
                                         sorted(limited_lengths(build())), got,
                                         'CollectionTooLargeException' if 0 <= vals['n'] < max(limited_lengths(build())) else 'the value')}
    if f == 'limit_levels':
        n_e, q_e = LEVEL_LIMITS[vals['ie']][0], LEVEL_QUOTAS[vals['iq']][0]
        return {'reproduced': True, 'key': 'C08/limit_levels',
                'what': 'engine created with limitIterators=%r memoryQuota=%r, statement options %s through %s: a 4-element lazy '
                        'sequence / an 8000-character concatenation do not obey the statement-level (else engine-level, else '
                        'default) values%s%s'
                        % (n_e, q_e, dict(([('limitIterators', vals['n_s'])] if vals['has_s'] else []) +
                                          ([('memoryQuota', vals['q_s'])] if vals['has_q'] else [])),
                           'engine(expr, options=...)' if vals['how'] == 0 else 'engine.copy(options)',
                           ['', '; the engine evaluated the same texts without options before',
                            '; the engine evaluated the same texts with lax options before'][vals.get('prior', 0)],
                           ' (%r)' % err if err else '')}
    if f == 'limit_history':
        return {'reproduced': True, 'key': 'C08/limit_history',
                'what': 'a context and functions declared with Iterable()/Iterator() used first with limitIterators=%d, then with '
                        'limitIterators=%d on a %d-element lazy sequence: the second evaluation does not obey its own limit%s'
                        % (vals['n1'], vals['n2'], vals['length'], ' (%r)' % err if err else '')}
    if f in ('repetition', 'probe_repetition'):
        key = rep_class(vals['q'], vals['right'], vals['length'])
        L = rep_operand_len(vals['length'])
        left = ('x' * L) if p.get('what', 'str') == 'str' else list(range(L))
        text = '$a * $b' if not vals['swap'] else '$b * $a'
        try:
            got = 'returns a value of %d bytes' % sys.getsizeof(evaluate(text, engine_with(memoryQuota=vals['q']),
                                                                           a=tuple(left) if L or True else left, b=vals['right']))
        except Exception as e:
            got = 'raises %s' % type(e).__name__
        return {'reproduced': True, 'key': key or 'C08/repetition',
                'what': 'memoryQuota=%d: %r * %d (%s): the product (%d bytes) is %s; %s'
                        % (vals['q'], left, vals['right'], text, (sys.getsizeof('') + max(vals['right'], 0) * L)
                           if isinstance(left, str) else (sys.getsizeof(()) + 8 * L * max(vals['right'], 0)),
                           'built before the quota check refuses it' if err is None else 'mishandled', got)}
    return {'reproduced': True, 'key': 'C08/%s' % cond['name'].split('[')[0],
            'what': '%s fails for %r%s' % (cond['name'], vals, ' (%r)' % err if err else '')}
