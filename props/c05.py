"""C05 - overload resolution follows the documented resolution rules.

Units run symbolically (real code):
  selection  runner.choose_overload/_is_specialization_of/translate_args with contract-constrained candidate stubs
  binding    FunctionDefinition.map_args/get_delegate on real definitions built from a signature catalogue
  layering   runner.call + ContextBase.collect_functions + Context.get_functions on real contexts
"""
from typing import Optional, Union

from vf import h as H
from props import c05_sel as X

ID = 'C05'
KNOWN = set(H.P('known', ()))
LAYERS = H.P('layers', [0, 0, 0])
SHARD_RECV = H.P('recv')
FUNCTIONS_ENCODED = ['yaql.language.runner.call', 'yaql.language.runner.choose_overload',
                     'yaql.language.runner._is_specialization_of', 'yaql.language.runner.translate_args',
                     'yaql.language.specs.FunctionDefinition.map_args', 'yaql.language.specs.FunctionDefinition.get_delegate',
                     'yaql.language.contexts.ContextBase.collect_functions', 'yaql.language.contexts.Context.get_functions',
                     'yaql.language.yaqltypes.PythonType.check/is_specialization_of']
BOUNDS = {'quick': 'selection: 3 candidates, <=3 layers, 1 position (2 with receiver; one 2-position condition); binding: '
                   'catalogue of signatures with <=3 positional parameters, hidden parameter at every position, <=4 call '
                   'arguments, <=2 keywords; layering: <=3 contexts, 3 overloads',
          'thorough': 'same with longer budgets and the 2-position selection condition in every layer pattern'}
OUTSIDE = ['more than 3 simultaneous candidates', 'parameter lists longer than 3', 'Super/Delegate re-entry',
           'an empty slot combined with the same parameter by keyword (unspecified)']
ASSUMPTIONS = ['stub contract: specialization answers form a strict partial order per position',
               'map_args/get_delegate answers of the stubs are arbitrary booleans (over-approximation of real definitions)',
               'reference: first layer with a match wins; in it the unique match that specializes all others wins, else '
               'ambiguous; differing lazy positions or no_kwargs among visible candidates is ambiguous; no match -> no matching']
EXPLANATION = ('The real selection loop is executed with symbolic candidate answers and compared per path with a reference '
               'written from the property text and extending_yaql.rst; eager argument expressions must be evaluated exactly '
               'once and shared. The real binder (map_args/get_delegate) is executed on real FunctionDefinitions for symbolic '
               'call shapes and compared with Python-signature binding. Counterexamples are rebuilt with real overloads.')
TECHNIQUE = 'bounded symbolic execution (CrossHair+z3) of choose_overload / map_args / get_delegate / collect_functions vs reference models; replay with real overloads'


def pre_sel(S, lazy, recv):
    if SHARD_RECV is not None and recv != SHARD_RECV:
        return False
    for M in S:
        if not X.strict_po(M):
            return False
    if recv and any(row[0] for row in lazy):
        return False
    return True


def fam1(s01, s02, s10, s12, s20, s21, m0, m1, m2, d0, d1, d2, z0, z1, z2, k0, k1, k2, recv):
    npos = 2 if recv else 1
    z = [z0, z1, z2]
    if recv:
        S = [X.mat3(False, False, False, False, False, False), X.mat3(s01, s02, s10, s12, s20, s21)]
        lazy = [[False, z[i]] for i in range(3)]
    else:
        S = [X.mat3(s01, s02, s10, s12, s20, s21)]
        lazy = [[z[i]] for i in range(3)]
    return (3, npos, S, [m0, m1, m2], [d0, d1, d2], lazy, [k0, k1, k2], list(LAYERS))


def agree(fam, recv, kwmode=False):
    order = X.PERMS3[0]
    got, log = X.run(*fam, order, recv, kwmode)
    exp, expect_eval = X.reference(*fam, order, recv)
    if isinstance(exp, tuple):
        exp_ok = (got == exp)
    else:
        exp_ok = (got == exp)
    lazy_row = None
    n, npos, S, maps, deleg, lazy = fam[:6]
    mapped = [i for i in range(n) if maps[i]]
    lazy_row = lazy[mapped[0]] if mapped else [False] * npos
    return exp_ok and X.evals_ok(log, npos, lazy_row, recv, expect_eval)


def select_core(s01: bool, s02: bool, s10: bool, s12: bool, s20: bool, s21: bool,
                m0: bool, m1: bool, m2: bool, d0: bool, d1: bool, d2: bool, recv: bool) -> bool:
    """
    pre: pre_sel([X.mat3(s01, s02, s10, s12, s20, s21)], [[False]], recv)
    pre: H.fresh(s01, s02, s10, s12, s20, s21, m0, m1, m2, d0, d1, d2, recv)
    post: _
    """
    fam = fam1(s01, s02, s10, s12, s20, s21, m0, m1, m2, d0, d1, d2, False, False, False, False, False, False, recv)
    return H.done(agree(fam, recv))


def select_flags(m0: bool, m1: bool, m2: bool, d0: bool, d1: bool, d2: bool,
                 z0: bool, z1: bool, z2: bool, k0: bool, k1: bool, k2: bool, recv: bool) -> bool:
    """
    pre: pre_sel([], [[z0], [z1], [z2]] if not recv else [[False]], recv)
    pre: H.fresh(m0, m1, m2, d0, d1, d2, z0, z1, z2, k0, k1, k2, recv)
    post: _
    """
    fam = fam1(False, False, False, False, False, False, m0, m1, m2, d0, d1, d2, z0, z1, z2, k0, k1, k2, recv)
    return H.done(agree(fam, recv))


def select_2pos(a01: bool, a02: bool, a10: bool, a12: bool, a20: bool, a21: bool,
                b01: bool, b02: bool, b10: bool, b12: bool, b20: bool, b21: bool, d2: bool) -> bool:
    """
    pre: X.strict_po(X.mat3(a01, a02, a10, a12, a20, a21)) and X.strict_po(X.mat3(b01, b02, b10, b12, b20, b21))
    pre: H.fresh(a01, a02, a10, a12, a20, a21, b01, b02, b10, b12, b20, b21, d2)
    post: _
    """
    S = [X.mat3(a01, a02, a10, a12, a20, a21), X.mat3(b01, b02, b10, b12, b20, b21)]
    fam = (3, 2, S, [True, True, True], [True, True, d2], [[False, False]] * 3, [False] * 3, list(LAYERS))
    return H.done(agree(fam, False, bool(H.P('kwmode'))))


# ------------------------------------------------------------------ binding of one call to one signature
SIGS = H.P('sigs', [])
KWNAMES = [None, 'p0', 'p1', 'p2', 'k0', 'zz']
BADS = [None, 'pos-str', 'kw-null', 'kw-bool']


def build_call(nargs, mask, ka, kb, bad):
    from yaql.language import utils
    args = []
    for i in range(nargs):
        args.append(utils.NO_VALUE if (mask >> i) & 1 else 11 + i)
    kwargs = {}
    for j, k in enumerate((ka, kb)):
        if k:
            kwargs[KWNAMES[k]] = 21 + j
    if bad == 1 and args and args[0] is not utils.NO_VALUE:
        args[0] = 'x'
    if bad in (2, 3) and kwargs:
        first = sorted(kwargs)[0]
        kwargs[first] = None if bad == 2 else True
    return args, kwargs


def bind_outcome(si, nargs, mask, ka, kb, bad):
    from props import c05_bind as B
    shape, hidden = B.CATALOGUE[si]
    args, kwargs = build_call(nargs, mask, ka, kb, bad)
    exp = B.ref_bind(shape, args, kwargs)
    got = B.real_bind(si, args, kwargs)
    return exp, got, args, kwargs


NM = [(n, m) for n in range(4) for m in range(2 ** n)]                      # 15 (nargs, empty-slot mask) pairs
KK = [(ka, kb) for ka in range(6) for kb in range(6) if ka < kb or kb == 0]   # 16 keyword pairs
SIGBOX = [(i,) for i in SIGS]
N4 = [(i,) for i in range(4)]


def bind_check(si, nargs, mask, ka, kb, bad):
    exp, got, args, kwargs = bind_outcome(si, nargs, mask, ka, kb, bad)
    if exp == 'UNSPEC':
        return True
    if exp == 'SKIP-IN-VARARGS':
        return True if 'C05/empty-slot-in-varargs-leaks-marker' in KNOWN else (got is None)
    return got == exp


def bind_shape(s: int, n: int, k: int) -> bool:
    """
    pre: 0 <= s < len(SIGBOX) and 0 <= n < len(NM) and 0 <= k < len(KK)
    post: _
    """
    si, nm, kk = SIGBOX[s][0], NM[n], KK[k]     # small tables of tuples indexed under tracing: one path per combination
    with H.NoTracing():
        ok = bind_check(si, nm[0], nm[1], kk[0], kk[1], 0)
    return H.done(ok)


def bind_bad(s: int, n: int, k: int, b: int) -> bool:
    """
    pre: 0 <= s < len(SIGBOX) and 0 <= n < 4 and 0 <= k < len(KK) and 1 <= b < 4
    post: _
    """
    si, nargs, kk, bad = SIGBOX[s][0], N4[n][0], KK[k], N4[b][0]
    with H.NoTracing():
        ok = bind_check(si, nargs, 0, kk[0], kk[1], bad)
    return H.done(ok)


BOX = [(i,) for i in range(8)]


def probe_skip_in_varargs(x: int) -> bool:
    """
    pre: 0 <= x < 2
    post: _
    """
    from props import c05_bind as B
    from yaql.language import utils
    shape = [('p0', 'pos', False), ('rest', 'var', False)]
    idx = [i for i, (sh, hid) in enumerate(B.CATALOGUE) if sh == shape and hid is None][0]
    with H.NoTracing():
        got = B.real_bind(idx, [1, utils.NO_VALUE, 3] if BOX[x][0] == 0 else [1, 2, utils.NO_VALUE], {})
    return H.done(got is None)


# ------------------------------------------------------------------ kind filter and layering on real contexts
def layering(f0: bool, m0: bool, f1: bool, m1: bool, f2: bool, m2: bool,
             e0: bool, e1: bool, e2: bool, recv: bool) -> bool:
    """
    pre: (f0 or m0) and (f1 or m1) and (f2 or m2)
    post: _
    """
    from yaql.language import contexts, exceptions, specs, utils
    from props import c05_bind as B
    isf, ism, excl = [f0, f1, f2], [m0, m1, m2], [e0, e1, e2]
    layers = list(LAYERS)
    nl = max(layers) + 1
    chain = []
    parent = B.ROOT
    for lv in range(nl - 1, -1, -1):          # farthest layer first
        parent = contexts.Context(parent)
        chain.insert(0, parent)
    for i in range(3):
        def payload(x, _i=i):
            return ('ran', _i)
        fd = specs.get_function_definition(payload, name='f')
        fd.is_function, fd.is_method = isf[i], ism[i]
        chain[layers[i]].register_function(fd, exclusive=excl[layers[i]])
    try:
        if recv:
            got = chain[0]('f', B.ENG, receiver=1)()
        else:
            got = chain[0]('f', B.ENG)(1)
    except (exceptions.NoFunctionRegisteredException, exceptions.NoMethodRegisteredException,
            exceptions.AmbiguousFunctionException, exceptions.AmbiguousMethodException) as e:
        got = type(e).__name__
    # reference: documented rules 1, 2, 6, 7
    visible = []
    for lv in range(nl):
        vis = [i for i in range(3) if layers[i] == lv and (ism[i] if recv else isf[i])]
        if vis:
            visible.append(vis)
        if any(excl[lv] for i in range(3) if layers[i] == lv):
            break
    if not visible:
        exp = 'NoMethodRegisteredException' if recv else 'NoFunctionRegisteredException'
    elif len(visible[0]) == 1:
        exp = ('ran', visible[0][0])
    else:
        exp = 'AmbiguousMethodException' if recv else 'AmbiguousFunctionException'
    return H.done(got == exp)


# ------------------------------------------------------------------ the real specialization relation of PythonType
def _spec_types():
    import collections.abc as abc
    import numbers

    class Shape:
        pass

    class Circle:
        pass
    import abc as _abc
    ShapeABC = _abc.ABCMeta('ShapeABC', (), {})
    ShapeABC.register(Circle)

    class Sub(Circle):
        pass
    return [int, bool, object, str, numbers.Number, numbers.Integral, float, tuple, list, abc.Sequence, abc.Iterable,
            abc.Mapping, dict, ShapeABC, Circle, Sub, Shape, (int, str)]


SPEC_TYPES = _spec_types()
SPEC_BOX = [(i,) for i in range(len(SPEC_TYPES))]


def spec_relation(i: int, j: int, via_smart: bool) -> bool:
    """
    pre: 0 <= i < len(SPEC_TYPES) and 0 <= j < len(SPEC_TYPES)
    post: _
    """
    # "more specific" between declared python types is the strict subclass relation (virtual subclasses included);
    # tuples of types and non-PythonType smart types are never comparable
    from yaql.language import yaqltypes
    a, b = SPEC_TYPES[SPEC_BOX[i][0]], SPEC_TYPES[SPEC_BOX[j][0]]
    with H.NoTracing():
        ta = yaqltypes.PythonType(a)
        tb = yaqltypes.Lambda() if via_smart else yaqltypes.PythonType(b)
        try:
            got = ta.is_specialization_of(tb)
        except Exception as e:
            got = 'raised %s' % type(e).__name__
        if via_smart or isinstance(a, tuple) or isinstance(b, tuple):
            exp = False
        else:
            exp = issubclass(a, b) and not issubclass(b, a)
        ok = (got == exp) and (via_smart or not (got is True and tb.is_specialization_of(ta)))
    return H.done(ok)


# ------------------------------------------------------------------ keyword names under a naming convention
def _alias_context():
    import yaql
    from yaql.language import conventions, specs, yaqltypes
    ctx = yaql.create_context(convention=conventions.CamelCaseConvention())
    log = []

    def tick():
        log.append('tick')
        return 5

    def s_int(some_val):
        return 'int'

    def s_obj(some_val_):
        return 'obj'

    def g(first_arg, item_filter, call_it=False):
        return item_filter() if call_it else 'not-called'

    def outer(the_predicate):
        return 'outer'

    def inner(the_predicate_):
        return 'inner'
    fd = specs.get_function_definition(s_int, name='s', convention=ctx.convention)
    fd.set_parameter('some_val', yaqltypes.PythonType(int, False, [lambda t: not isinstance(t, bool)]), overwrite=True)
    fd.parameters['some_val'].alias = 'someVal'
    ctx.register_function(fd)
    ctx.register_function(s_obj, name='s')
    fdg = specs.get_function_definition(g, name='g', convention=ctx.convention)
    fdg.set_parameter('item_filter', yaqltypes.Lambda(), overwrite=True)
    fdg.parameters['item_filter'].alias = 'itemFilter'
    ctx.register_function(fdg)
    ctx.register_function(tick, name='tick')
    ctx.register_function(outer, name='p')
    child = ctx.create_child_context()
    child.register_function(inner, name='p')

    # one decorated payload registered under two conventions, in both orders: each registration carries the keyword
    # spelling of its own context (nearest layer typed, outer layer **kwargs)
    from yaql.language import contexts

    @specs.parameter('item_filter', yaqltypes.PythonType(int, False, [lambda t: not isinstance(t, bool)]))
    def near_f(item_filter=0):
        return 'near'

    @specs.parameter('item_filter', yaqltypes.PythonType(int, False, [lambda t: not isinstance(t, bool)]))
    def near_h(item_filter=0):
        return 'near'

    def far(**kwargs):
        return 'far'
    chains = {}
    for first, second, payload, fname in (('camel', 'python', near_f, 'f'), ('python', 'camel', near_h, 'h')):
        for conv in (first, second):
            c = conventions.CamelCaseConvention() if conv == 'camel' else conventions.PythonConvention()
            outer_l = chains.get(conv)
            if outer_l is None:
                outer_l = chains[conv] = (contexts.Context(yaql.create_context(convention=c), convention=c),)
                outer_l[0].register_function(far, name='f')
                outer_l[0].register_function(far, name='h')
                chains[conv] = (outer_l[0], outer_l[0].create_child_context())
            chains[conv][1].register_function(payload, name=fname)
    CONV_CTX['python'], CONV_CTX['camel'] = chains['python'][1], chains['camel'][1]
    return child, log


CONV_CTX = {}
if not H.P('driver'):
    ALIAS_CTX, ALIAS_LOG = _alias_context()


def alias_kw(v: Union[int, str], which: int, bykw: bool, call_it: bool) -> bool:
    """
    pre: 0 <= which < 7 and (isinstance(v, int) or len(v) <= 1)
    post: _
    """
    from vf import yq
    del ALIAS_LOG[:]
    if which >= 3:
        # f: registered under camelCase first, python second; h: the other way round.  The keyword spelled in the
        # context's own convention reaches the typed nearest overload, the other spelling only the outer **kwargs one
        fname, conv = [('f', 'python'), ('f', 'camel'), ('h', 'python'), ('h', 'camel')][which - 3]
        own = 'item_filter' if conv == 'python' else 'itemFilter'
        other = 'itemFilter' if conv == 'python' else 'item_filter'
        text = '%s(%s => $v)' % (fname, own if bykw else other)
        exp = ('ok', 'near' if (bykw and isinstance(v, int) and not isinstance(v, bool)) else 'far')
        return H.done(yq.outcome(text, ctx=CONV_CTX[conv], v=v) == exp)
    if which == 0:       # two overloads distinguished by the type of a parameter passed by its convention-translated keyword
        text = 's(someVal => $v)' if bykw else 's($v)'
        exp = ('ok', 'int' if (isinstance(v, int) and not isinstance(v, bool)) else 'obj')
        exp_log = []
    elif which == 1:     # a lazy parameter passed by keyword is evaluated only if the payload asks for it
        text = ('g(1, itemFilter => tick(), callIt => %s)' if bykw else 'g(1, tick(), %s)') % ('true' if call_it else 'false')
        exp = ('ok', 5 if call_it else 'not-called')
        exp_log = ['tick'] if call_it else []
    else:                # nearest layer wins although the two layers spell the python name differently
        text = 'p(thePredicate => $v)' if bykw else 'p($v)'
        exp = ('ok', 'inner')
        exp_log = []
    got = yq.outcome(text, ctx=ALIAS_CTX, v=v)
    return H.done(got == exp and ALIAS_LOG == exp_log)


KTRI = [(None,), (True,), (False,)]


def kind_registration(deco: int, fn: int, mt: int, recv: bool, how: int) -> bool:
    """
    pre: 0 <= deco < 3 and 0 <= fn < 3 and 0 <= mt < 3 and 0 <= how < 2
    post: _
    """
    # the call kinds an overload answers to, as declared when it is registered: decorator (none / @method /
    # @extension_method) and the explicit function= / method= arguments of register_function / get_function_definition
    # (None: keep, True / False: set).  An outer layer answers to both kinds, so a filtered-out overload is visible as
    # 'outer' rather than as an error.
    from yaql.language import contexts, specs
    from props import c05_bind as B
    d, f, m = KTRI[deco][0], KTRI[fn][0], KTRI[mt][0]
    recv, how = KTRI[1 if recv else 2][0], [(0,), (1,)][how][0]
    with H.NoTracing():
        def payload(x):
            return 'near'

        def outer(x):
            return 'outer'
        if d is True:
            payload = specs.method(payload)
        elif d is False:
            payload = specs.extension_method(payload)
        base = {None: (True, False), True: (False, True), False: (True, True)}[d]
        is_f = base[0] if f is None else f
        is_m = base[1] if m is None else m
        far = contexts.Context(B.ROOT)
        far.register_function(specs.extension_method(outer), name='f')
        near = far.create_child_context()
        if how == 0:
            near.register_function(payload, name='f', function=f, method=m)
        else:
            near.register_function(specs.get_function_definition(payload, name='f', function=f, method=m))
        got = near('f', B.ENG, receiver=1)() if recv else near('f', B.ENG)(1)
        ok = got == ('near' if (is_m if recv else is_f) else 'outer')
    return H.done(ok)


PATTERNS = [[0, 0, 0], [0, 0, 1], [0, 1, 1], [0, 1, 2]]


def conditions(tier, seed):
    out = []
    t = 150 if tier == 'quick' else 600
    for layers in PATTERNS:
        for recv in (False, True):
            tag = '[layers=%s,recv=%s]' % (''.join(map(str, layers)), recv)
            out.append({'name': 'select_core' + tag, 'func': 'select_core', 'timeout': t,
                        'param': {'recv': recv, 'layers': layers},
                        'bounds': '3 candidates in layers %s, symbolic strict partial order, symbolic map/delegate answers' % layers})
            out.append({'name': 'select_flags' + tag, 'func': 'select_flags', 'timeout': t,
                        'param': {'recv': recv, 'layers': layers},
                        'bounds': '3 candidates in layers %s, symbolic map/delegate/lazy/no_kwargs answers' % layers})
    from props import c05_bind as B
    import random
    rnd = random.Random(seed)
    def find(npos, nd, var, kwo, varkw, hidden):
        for i, (sh, hid) in enumerate(B.CATALOGUE):
            pos = [q for q in sh if q[1] == 'pos']
            kw = [q for q in sh if q[1] == 'kwonly']
            if (len(pos) == npos and sum(1 for q in pos if q[2]) == nd and any(q[1] == 'var' for q in sh) == var
                    and ((kw[0][2] if kw else None) == kwo) and any(q[1] == 'varkw' for q in sh) == varkw and hid == hidden):
                return i
        raise LookupError((npos, nd, var, kwo, varkw, hidden))
    # feature-covering core: defaulted positional + defaulted keyword-only, hidden parameter first/middle/last, *args with a
    # required keyword-only, **kwargs, all-defaulted, no positional at all
    core = [find(2, 1, False, True, False, None), find(2, 1, False, True, False, 1), find(2, 1, True, False, True, 0),
            find(3, 2, False, None, True, 2), find(1, 0, True, True, False, None), find(2, 2, False, None, False, 2),
            find(0, 0, True, False, True, 0), find(3, 0, False, None, False, 1)]
    rest = [i for i in range(len(B.CATALOGUE)) if i not in core]
    rnd.shuffle(rest)
    chosen = core[:8] + rest[:(4 if tier == 'quick' else 172)]
    per = 4
    for g in range(0, len(chosen), per):
        sigs = chosen[g:g + per]
        for fn in ('bind_shape', 'bind_bad'):
            out.append({'name': '%s[sigs=%s]' % (fn, ','.join(map(str, sigs))), 'func': fn, 'timeout': 400,
                        'param': {'sigs': sigs},
                        'bounds': 'signatures %s of the catalogue (%s ...); calls with <=3 positional arguments, any of '
                                  'them an empty slot, <=2 keywords from p0,p1,p2,k0,zz, one ill-typed value; selectors '
                                  'only: each path is one concrete call' % (sigs, B.context_for(sigs[0])[1])})
    if 'C05/empty-slot-in-varargs-leaks-marker' in KNOWN:
        out.append({'name': 'probe[empty-slot-in-varargs]', 'func': 'probe_skip_in_varargs', 'timeout': 60, 'kind': 'probe',
                    'param': {'probe_key': 'C05/empty-slot-in-varargs-leaks-marker'}, 'bounds': 'f(1,,3) and f(1,2,) against def f(p0, *rest)'})
    out.append({'name': 'spec_relation', 'func': 'spec_relation', 'timeout': t,
                'bounds': 'PythonType.is_specialization_of on every ordered pair of %d declared types (builtins, ABCs with '
                          'registered/virtual subclasses, a tuple of types) and against a non-python smart type' % len(SPEC_TYPES)})
    out.append({'name': 'alias_kw', 'func': 'alias_kw', 'timeout': t,
                'bounds': 'functions registered under the CamelCase convention with multi-word / trailing-underscore parameter '
                          'names, called positionally and by the convention-translated keyword; value int or str(len<=1); lazy '
                          'parameter by keyword; two layers'})
    out.append({'name': 'kind_registration', 'func': 'kind_registration', 'timeout': t,
                'bounds': 'one overload declared plain / @method / @extension_method and registered with function= and method= '
                          'each None / True / False (symbolic), through register_function and get_function_definition, called '
                          'with and without receiver over an outer layer that answers to both kinds'})
    for layers in PATTERNS:
        out.append({'name': 'layering[layers=%s]' % ''.join(map(str, layers)), 'func': 'layering', 'timeout': t,
                    'param': {'layers': layers},
                    'bounds': '3 overloads in real contexts (layers %s) with symbolic function/method/extension kinds, '
                              'symbolic exclusive flags per layer, call with or without receiver' % layers})
    for layers in (PATTERNS[:1] if tier == 'quick' else PATTERNS):
      for kwmode in (False, True):
        out.append({'name': 'select_2pos[layers=%s%s]' % (''.join(map(str, layers)), ',kw' if kwmode else ''), 'func': 'select_2pos',
                    'timeout': 2 * t, 'param': {'layers': layers, 'kwmode': kwmode},
                    'bounds': '3 matching candidates, 2 argument positions with independent symbolic strict partial orders'})
    return out


def replay(cond, args):
    a = dict(args)
    f = cond['func']
    if f in ('select_core', 'select_flags'):
        recv = a['recv']
        for k in ('s01', 's02', 's10', 's12', 's20', 's21', 'z0', 'z1', 'z2', 'k0', 'k1', 'k2'):
            a.setdefault(k, False)
        fam = fam1(**a)
    elif f == 'select_2pos':
        recv = False
        S = [X.mat3(a['a01'], a['a02'], a['a10'], a['a12'], a['a20'], a['a21']),
             X.mat3(a['b01'], a['b02'], a['b10'], a['b12'], a['b20'], a['b21'])]
        fam = (3, 2, S, [True, True, True], [True, True, a['d2']], [[False, False]] * 3, [False] * 3, list(LAYERS))
        if H.P('kwmode') and agree(fam, recv):
            return {'reproduced': not agree(fam, recv, True), 'key': 'C05/selection-by-keyword-differs',
                    'what': 'choose_overload with the second argument passed by keyword differs from the rules for %r' % (a,)}
    elif f in ('bind_shape', 'bind_bad'):
        from props import c05_bind as B
        si = SIGS[a['s']]
        if f == 'bind_shape':
            (nargs, mask), (ka, kb), bad = NM[a['n']], KK[a['k']], 0
        else:
            nargs, mask, (ka, kb), bad = a['n'], 0, KK[a['k']], a['b']
        exp, got, cargs, ckw = bind_outcome(si, nargs, mask, ka, kb, bad)
        src = B.context_for(si)[1]
        shown = ['_' if x is B.utils.NO_VALUE else x for x in cargs]
        if exp == 'UNSPEC' or got == exp:
            return {'reproduced': False}
        if exp == 'SKIP-IN-VARARGS':
            return {'reproduced': got is not None, 'key': 'C05/empty-slot-in-varargs-leaks-marker',
                    'what': '%s called with %r %r: empty slot in the *args region reaches the payload as %r' % (src, shown, ckw, got)}
        return {'reproduced': True, 'key': 'C05/binding/%s' % src,
                'what': '%s called with positional %r keywords %r: yaql binds %r, python-signature binding gives %r' % (
                    src, shown, ckw, got, exp)}
    elif f == 'spec_relation':
        ok = spec_relation(**a)
        return {'reproduced': not ok, 'key': 'C05/python-type-specialization',
                'what': 'PythonType(%r).is_specialization_of(PythonType(%r)) differs from the strict subclass relation (or raises); '
                        'two overloads declared with these types that both match a call make resolution fail with a '
                        'non-resolution error' % (SPEC_TYPES[a['i']], SPEC_TYPES[a['j']])}
    elif f == 'alias_kw':
        ok = alias_kw(**a)
        return {'reproduced': not ok, 'key': 'C05/keyword-alias-binding',
                'what': 'call by convention-translated keyword differs from the positional call / evaluates a lazy argument '
                        'in the resolver: %r' % (a,)}
    elif f == 'kind_registration':
        ok = kind_registration(**a)
        return {'reproduced': not ok, 'key': 'C05/kind-registration',
                'what': 'an overload declared %s and registered with function=%r method=%r (%s) %s although its declared kinds say '
                        'otherwise' % (['plain', '@method', '@extension_method'][a['deco']], KTRI[a['fn']][0], KTRI[a['mt']][0],
                                       'register_function' if a['how'] == 0 else 'get_function_definition',
                                       'is not the one chosen / is chosen for a call %s receiver' % ('with' if a['recv'] else 'without'))}
    elif f == 'layering':
        ok = layering(**a)
        return {'reproduced': not ok, 'key': 'C05/layering', 'what': 'kind filter / layering differs from the rules for %r layers %r' % (a, LAYERS)}
    elif f == 'probe_skip_in_varargs':
        from props import c05_bind as B
        from yaql.language import utils
        shape = [('p0', 'pos', False), ('rest', 'var', False)]
        idx = [i for i, (sh, hid) in enumerate(B.CATALOGUE) if sh == shape and hid is None][0]
        got = B.real_bind(idx, [1, utils.NO_VALUE, 3] if a['x'] == 0 else [1, 2, utils.NO_VALUE], {})
        return {'reproduced': got is not None, 'key': 'C05/empty-slot-in-varargs-leaks-marker',
                'what': 'def f(p0, *rest) called as f(1,,3): payload receives %r' % (got,)}
    else:
        return {'reproduced': False, 'error': 'no replay for ' + f}
    order = X.PERMS3[0]
    if agree(fam, recv):
        return {'reproduced': False, 'note': 'stub level agrees with the reference on CPython'}
    exp, _ = X.reference(*fam, order, recv)
    call, desc = X.build_real(*fam, order, recv)
    got = call()
    got_n = tuple(got) if isinstance(got, list) else got
    if got_n == exp:
        # the stub-level disagreement is about evaluation counts or is not realisable with real overloads
        stub_got, log = X.run(*fam, order, recv)
        return {'reproduced': stub_got == exp, 'key': 'C05/argument-evaluation-count',
                'what': 'choose_overload evaluates eager arguments %r for family %s' % (log, desc)} if stub_got == exp \
            else {'reproduced': False, 'note': 'real overloads agree with the reference: %r' % (got,)}
    key = 'C05/selection-differs-from-rules'
    if isinstance(exp, tuple) and 'Ambiguous' in str(got):
        key = 'C06/winner-depends-on-enumeration-order'
    return {'reproduced': True, 'key': key,
            'what': 'overloads %s (enumerated in this order): real resolution gives %r, the rules give %r' % (
                '; '.join(desc), got, exp)}
