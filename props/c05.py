"""C05 - overload resolution follows the documented resolution rules.

Units run symbolically (real code):
  selection  runner.choose_overload/_is_specialization_of/translate_args with contract-constrained candidate stubs
  binding    FunctionDefinition.map_args/get_delegate on real definitions built from a signature catalogue
  layering   runner.call + ContextBase.collect_functions + Context.get_functions on real contexts
"""
from typing import Optional, Union

from vf import h as H
from props import c05_sel as X

ID = 'C05'
KNOWN = set(H.P('known', ()))
LAYERS = H.P('layers', [0, 0, 0])
SHARD_RECV = H.P('recv')
FUNCTIONS_ENCODED = ['yaql.language.runner.call', 'yaql.language.runner.choose_overload',
                     'yaql.language.runner._is_specialization_of', 'yaql.language.runner.translate_args',
                     'yaql.language.specs.FunctionDefinition.map_args', 'yaql.language.specs.FunctionDefinition.get_delegate',
                     'yaql.language.contexts.ContextBase.collect_functions', 'yaql.language.contexts.Context.get_functions',
                     'yaql.language.yaqltypes.PythonType.check/is_specialization_of']
BOUNDS = {'quick': 'selection: 3 candidates, <=3 layers, 1 position (2 with receiver; one 2-position condition); binding: '
                   'catalogue of signatures with <=3 positional parameters, hidden parameter at every position, <=4 call '
                   'arguments, <=2 keywords; layering: <=3 contexts, 3 overloads',
          'thorough': 'same with longer budgets and the 2-position selection condition in every layer pattern'}
OUTSIDE = ['more than 3 simultaneous candidates', 'parameter lists longer than 3', 'Super/Delegate re-entry',
           'an empty slot combined with the same parameter by keyword (unspecified)']
ASSUMPTIONS = ['stub contract: specialization answers form a strict partial order per position',
               'map_args/get_delegate answers of the stubs are arbitrary booleans (over-approximation of real definitions)',
               'reference: first layer with a match wins; in it the unique match that specializes all others wins, else '
               'ambiguous; differing lazy positions or no_kwargs among visible candidates is ambiguous; no match -> no matching']
EXPLANATION = ('The real selection loop is executed with symbolic candidate answers and compared per path with a reference '
               'written from the property text and extending_yaql.rst; eager argument expressions must be evaluated exactly '
               'once and shared. The real binder (map_args/get_delegate) is executed on real FunctionDefinitions for symbolic '
               'call shapes and compared with Python-signature binding. Counterexamples are rebuilt with real overloads.')
TECHNIQUE = 'bounded symbolic execution (CrossHair+z3) of choose_overload / map_args / get_delegate / collect_functions vs reference models; replay with real overloads'


def pre_sel(S, lazy, recv):
    if SHARD_RECV is not None and recv != SHARD_RECV:
        return False
    for M in S:
        if not X.strict_po(M):
            return False
    if recv and any(row[0] for row in lazy):
        return False
    return True


def fam1(s01, s02, s10, s12, s20, s21, m0, m1, m2, d0, d1, d2, z0, z1, z2, k0, k1, k2, recv):
    npos = 2 if recv else 1
    z = [z0, z1, z2]
    if recv:
        S = [X.mat3(False, False, False, False, False, False), X.mat3(s01, s02, s10, s12, s20, s21)]
        lazy = [[False, z[i]] for i in range(3)]
    else:
        S = [X.mat3(s01, s02, s10, s12, s20, s21)]
        lazy = [[z[i]] for i in range(3)]
    return (3, npos, S, [m0, m1, m2], [d0, d1, d2], lazy, [k0, k1, k2], list(LAYERS))


def agree(fam, recv):
    order = X.PERMS3[0]
    got, log = X.run(*fam, order, recv)
    exp, expect_eval = X.reference(*fam, order, recv)
    if isinstance(exp, tuple):
        exp_ok = (got == exp)
    else:
        exp_ok = (got == exp)
    lazy_row = None
    n, npos, S, maps, deleg, lazy = fam[:6]
    mapped = [i for i in range(n) if maps[i]]
    lazy_row = lazy[mapped[0]] if mapped else [False] * npos
    return exp_ok and X.evals_ok(log, npos, lazy_row, recv, expect_eval)


def select_core(s01: bool, s02: bool, s10: bool, s12: bool, s20: bool, s21: bool,
                m0: bool, m1: bool, m2: bool, d0: bool, d1: bool, d2: bool, recv: bool) -> bool:
    """
    pre: pre_sel([X.mat3(s01, s02, s10, s12, s20, s21)], [[False]], recv)
    pre: H.fresh(s01, s02, s10, s12, s20, s21, m0, m1, m2, d0, d1, d2, recv)
    post: _
    """
    fam = fam1(s01, s02, s10, s12, s20, s21, m0, m1, m2, d0, d1, d2, False, False, False, False, False, False, recv)
    return H.done(agree(fam, recv))


def select_flags(m0: bool, m1: bool, m2: bool, d0: bool, d1: bool, d2: bool,
                 z0: bool, z1: bool, z2: bool, k0: bool, k1: bool, k2: bool, recv: bool) -> bool:
    """
    pre: pre_sel([], [[z0], [z1], [z2]] if not recv else [[False]], recv)
    pre: H.fresh(m0, m1, m2, d0, d1, d2, z0, z1, z2, k0, k1, k2, recv)
    post: _
    """
    fam = fam1(False, False, False, False, False, False, m0, m1, m2, d0, d1, d2, z0, z1, z2, k0, k1, k2, recv)
    return H.done(agree(fam, recv))


def select_2pos(a01: bool, a02: bool, a10: bool, a12: bool, a20: bool, a21: bool,
                b01: bool, b02: bool, b10: bool, b12: bool, b20: bool, b21: bool, d2: bool) -> bool:
    """
    pre: X.strict_po(X.mat3(a01, a02, a10, a12, a20, a21)) and X.strict_po(X.mat3(b01, b02, b10, b12, b20, b21))
    pre: H.fresh(a01, a02, a10, a12, a20, a21, b01, b02, b10, b12, b20, b21, d2)
    post: _
    """
    S = [X.mat3(a01, a02, a10, a12, a20, a21), X.mat3(b01, b02, b10, b12, b20, b21)]
    fam = (3, 2, S, [True, True, True], [True, True, d2], [[False, False]] * 3, [False] * 3, list(LAYERS))
    return H.done(agree(fam, False))


PATTERNS = [[0, 0, 0], [0, 0, 1], [0, 1, 1], [0, 1, 2]]


def conditions(tier, seed):
    out = []
    t = 150 if tier == 'quick' else 600
    for layers in PATTERNS:
        for recv in (False, True):
            tag = '[layers=%s,recv=%s]' % (''.join(map(str, layers)), recv)
            out.append({'name': 'select_core' + tag, 'func': 'select_core', 'timeout': t,
                        'param': {'recv': recv, 'layers': layers},
                        'bounds': '3 candidates in layers %s, symbolic strict partial order, symbolic map/delegate answers' % layers})
            out.append({'name': 'select_flags' + tag, 'func': 'select_flags', 'timeout': t,
                        'param': {'recv': recv, 'layers': layers},
                        'bounds': '3 candidates in layers %s, symbolic map/delegate/lazy/no_kwargs answers' % layers})
    for layers in (PATTERNS[:1] if tier == 'quick' else PATTERNS):
        out.append({'name': 'select_2pos[layers=%s]' % ''.join(map(str, layers)), 'func': 'select_2pos', 'timeout': 2 * t,
                    'param': {'layers': layers},
                    'bounds': '3 matching candidates, 2 argument positions with independent symbolic strict partial orders'})
    return out


def replay(cond, args):
    a = dict(args)
    f = cond['func']
    if f in ('select_core', 'select_flags'):
        recv = a['recv']
        for k in ('s01', 's02', 's10', 's12', 's20', 's21', 'z0', 'z1', 'z2', 'k0', 'k1', 'k2'):
            a.setdefault(k, False)
        fam = fam1(**a)
    elif f == 'select_2pos':
        recv = False
        S = [X.mat3(a['a01'], a['a02'], a['a10'], a['a12'], a['a20'], a['a21']),
             X.mat3(a['b01'], a['b02'], a['b10'], a['b12'], a['b20'], a['b21'])]
        fam = (3, 2, S, [True, True, True], [True, True, a['d2']], [[False, False]] * 3, [False] * 3, list(LAYERS))
    else:
        return {'reproduced': False, 'error': 'no replay for ' + f}
    order = X.PERMS3[0]
    if agree(fam, recv):
        return {'reproduced': False, 'note': 'stub level agrees with the reference on CPython'}
    exp, _ = X.reference(*fam, order, recv)
    call, desc = X.build_real(*fam, order, recv)
    got = call()
    got_n = tuple(got) if isinstance(got, list) else got
    if got_n == exp:
        # the stub-level disagreement is about evaluation counts or is not realisable with real overloads
        stub_got, log = X.run(*fam, order, recv)
        return {'reproduced': stub_got == exp, 'key': 'C05/argument-evaluation-count',
                'what': 'choose_overload evaluates eager arguments %r for family %s' % (log, desc)} if stub_got == exp \
            else {'reproduced': False, 'note': 'real overloads agree with the reference: %r' % (got,)}
    key = 'C05/selection-differs-from-rules'
    if isinstance(exp, tuple) and 'Ambiguous' in str(got):
        key = 'C06/winner-depends-on-enumeration-order'
    return {'reproduced': True, 'key': key,
            'what': 'overloads %s (enumerated in this order): real resolution gives %r, the rules give %r' % (
                '; '.join(desc), got, exp)}
