"""C04 helper: program fragment (AST, breadth-first decoder from an integer code, renderer) and the reference interpreter.

AST (tuples):
  ('lit', v)  ('var', name)  ('list', [e..])  ('map', [(key, e)..])  ('idx', e, e)  ('mem', e, key)
  ('bin', op, e, e)  ('select', e, body)  ('where', e, body)  ('sum', e)  ('len', e)
  ('let', [(name, e)..], [positional e..], body)  ('with', [e..], body)  ('unpack', e, [names], body)
  ('def', fname, lambda_body, body)  ('call', fname, [e..], [(kw, e)..])

The reference interpreter is written from doc/source/language_reference.rst and the doc-strings of
let/with/unpack/def/->/./select/where/#list/#map/#indexer: explicit scope chain; a call evaluates its arguments in the
caller's scope; let/with/unpack/def produce a NEW scope (child of the scope they are called in) that `->` evaluates its
right side in; a lambda body evaluates in a child of its DEFINING scope with $1..$n / $name bound ($ is $1); bindings
never flow outward; unknown variables are null; `.key` on a collection maps over the elements.  select/where/member
projection/+ on them are lazy sequences (the doc-strings declare iterables): elements are computed on consumption.
"""


class Err(Exception):
    """the program has no value (no matching function, missing key, index out of range, ...)"""


class Unspecified(Exception):
    """behaviour the reference does not fix: the harness asserts nothing on this path"""


# ------------------------------------------------------------------ lazy sequences
class Lazy:
    """a sequence computed on demand.  Consuming it twice (or after a partial consumption) is not specified by the
    documentation (yaql's iterators are one-shot; a future version may memoize): Unspecified."""

    def __init__(self, gen):
        self.gen = gen
        self.started = False

    def __iter__(self):
        if self.started:
            raise Unspecified('lazy sequence consumed twice')
        self.started = True
        return self.gen


def is_lazy(v):
    return isinstance(v, Lazy)


def is_coll(v):
    return isinstance(v, list) or is_lazy(v)


def force(v):
    """what #finalize does to the result"""
    if is_lazy(v) or isinstance(v, list):
        return [force(x) for x in v]
    if isinstance(v, dict):
        return {force_key(k): force(x) for k, x in v.items()}
    return v


def force_key(k):
    return k


def isnum(v):
    return isinstance(v, int) and not isinstance(v, bool)


# ------------------------------------------------------------------ scopes
class Scope:
    def __init__(self, parent=None):
        self.vars = {}
        self.funcs = {}
        self.parent = parent

    def get(self, n):
        s = self
        while s is not None:
            if n in s.vars:
                return s.vars[n]
            s = s.parent
        return None                        # unknown variables are null

    def func(self, n):
        s = self
        while s is not None:
            if n in s.funcs:
                return s.funcs[n]
            s = s.parent
        raise Err('no function ' + n)


def norm(n):
    return '1' if n == '' else n           # $ is an alias of $1


def call_lambda(body, defscope, args, kwargs=None):
    s = Scope(defscope)                    # child of the DEFINING scope
    for i, a in enumerate(args, 1):
        s.vars[str(i)] = a
    for k, v in (kwargs or {}).items():
        s.vars[k] = v
    return ev(body, s)


def hashable(v):
    if isinstance(v, (list, dict)) or is_lazy(v):
        return False
    return True


def binop(op, a, b):
    if op == '+':
        if isnum(a) and isnum(b):
            return a + b
        if isinstance(a, list) and isinstance(b, list):
            return a + b
        if is_coll(a) and is_coll(b):
            return Lazy(chain2(a, b))
        if isinstance(a, str) and isinstance(b, str):
            return a + b
        if isinstance(a, dict) and isinstance(b, dict):
            d = dict(a)
            d.update(b)
            return d
        raise Err('no + for these operands')
    if op == '-':
        if isnum(a) and isnum(b):
            return a - b
        raise Err('no - for these operands')
    if op == '>':
        if isnum(a) and isnum(b):
            return a > b
        if a is None and (b is None or isnum(b)):
            return False                   # null is less than any number (C15 decides the other kinds)
        if b is None and isnum(a):
            return True
        raise Unspecified('ordering of non-numbers belongs to C15')
    raise ValueError(op)


def chain2(a, b):
    for x in a:
        yield x
    for x in b:
        yield x


def member(c, key, sc):
    if isinstance(c, dict):
        if key not in c:
            raise Err('key')
        return c[key]
    if is_coll(c):
        def proj(src):
            for x in src:
                yield member(x, key, sc)
        return Lazy(proj(c))
    raise Err('no member access on this value')


def truth(v):
    if is_lazy(v):
        raise Unspecified('truth value of a lazy sequence')
    return bool(v)


def ev(e, sc):
    t = e[0]
    if t == 'lit':
        return e[1]
    if t == 'var':
        return sc.get(norm(e[1]))
    if t == 'list':
        return [ev(x, sc) for x in e[1]]
    if t == 'map':
        out = {}
        for k, v in e[1]:
            out[k] = ev(v, sc)
        return out
    if t == 'idx':
        c = ev(e[1], sc)
        i = ev(e[2], sc)
        if isinstance(c, list):
            if isinstance(i, bool):
                raise Unspecified('boolean as list index')
            if not isinstance(i, int):
                raise Err('index type')
            if not -len(c) <= i < len(c):
                raise Err('index')
            return c[i]
        if isinstance(c, dict):
            if not hashable(i):
                raise Err('key')
            if i not in c:
                raise Err('key')
            return c[i]
        raise Err('no indexer for this value')
    if t == 'mem':
        return member(ev(e[1], sc), e[2], sc)
    if t == 'bin':
        a = ev(e[2], sc)
        b = ev(e[3], sc)
        return binop(e[1], a, b)
    if t in ('select', 'where'):
        c = ev(e[1], sc)
        if not is_coll(c):
            raise Err('not a collection')
        body = e[2]
        if t == 'select':
            def sel(src):
                for x in src:
                    yield call_lambda(body, sc, [x])
            return Lazy(sel(c))

        def whr(src):
            for x in src:
                if truth(call_lambda(body, sc, [x])):
                    yield x
        return Lazy(whr(c))
    if t == 'sum':
        c = ev(e[1], sc)
        if not is_coll(c):
            raise Err('not a collection')
        items = list(c)
        if not items:
            raise Err('sum of an empty collection without initial value')
        acc = items[0]
        for x in items[1:]:
            acc = binop('+', acc, x)
        return acc
    if t == 'len':
        c = ev(e[1], sc)
        if isinstance(c, (list, dict, str)):
            return len(c)
        if is_lazy(c):
            return len(list(c))
        raise Err('no len for this value')
    if t == 'let':
        new = Scope(sc)                    # let's own call scope: a child of the scope it is called in
        pos = [ev(x, sc) for x in e[2]]
        kw = [(k, ev(x, sc)) for k, x in e[1]]
        for i, v in enumerate(pos, 1):
            new.vars[str(i)] = v
        for k, v in kw:
            new.vars[k] = v
        return ev(e[3], new)
    if t == 'with':
        new = Scope(sc)
        for i, v in enumerate([ev(x, sc) for x in e[1]], 1):
            new.vars[str(i)] = v
        return ev(e[2], new)
    if t == 'unpack':
        c = ev(e[1], sc)
        if not is_coll(c):
            raise Err('not a collection')
        names = e[2]
        if is_lazy(c):
            # known finding F6 (C13): unpack() of a lazy sequence loses its first element; with names the iterator is
            # consumed len+1 elements deep, which is observable only through re-use (Unspecified anyway)
            raise Unspecified('unpack of a lazy sequence')
        new = Scope(sc)
        if names:
            if len(c) != len(names):
                raise Err('cannot unpack')
            for n, v in zip(names, c):
                new.vars[n] = v
        else:
            for i, v in enumerate(c, 1):
                new.vars[str(i)] = v
        return ev(e[3], new)
    if t == 'def':
        new = Scope(sc)
        new.funcs[e[1]] = (e[2], new)      # the closure keeps the scope made by the def() call (child of the caller's)
        return ev(e[3], new)
    if t == 'call':
        args = [ev(x, sc) for x in e[2]]
        kwargs = {}
        for k, x in e[3]:
            kwargs[k] = ev(x, sc)
        body, dsc = sc.func(e[1])
        return call_lambda(body, dsc, args, kwargs)
    raise ValueError(t)


def run_reference(ast, data):
    """('ok', plain value) | ('err',) | ('unspecified',)"""
    sc = Scope()
    sc.vars['1'] = data
    try:
        return ('ok', force(ev(ast, sc)))
    except Err:
        return ('err',)
    except Unspecified:
        return ('unspecified',)


# ------------------------------------------------------------------ rendering
def render(e):
    t = e[0]
    if t == 'lit':
        v = e[1]
        if v is None:
            return 'null'
        if v is True:
            return 'true'
        if v is False:
            return 'false'
        if isinstance(v, int):
            return repr(v)
        return "'%s'" % v
    if t == 'var':
        return '$' + e[1]
    if t == 'list':
        return '[' + ', '.join(render(x) for x in e[1]) + ']'
    if t == 'map':
        return '{' + ', '.join('%s => %s' % (k, render(v)) for k, v in e[1]) + '}'
    if t == 'idx':
        return '%s[%s]' % (atom(e[1]), render(e[2]))
    if t == 'mem':
        return '%s.%s' % (atom(e[1]), e[2])
    if t == 'bin':
        return '(%s %s %s)' % (render(e[2]), e[1], render(e[3]))
    if t in ('select', 'where'):
        return '%s.%s(%s)' % (atom(e[1]), t, render(e[2]))
    if t == 'sum':
        return '%s.sum()' % atom(e[1])
    if t == 'len':
        return '%s.len()' % atom(e[1])
    if t == 'let':
        return '(let(%s) -> %s)' % (', '.join([render(x) for x in e[2]] + ['%s => %s' % (k, render(x)) for k, x in e[1]]),
                                    render(e[3]))
    if t == 'with':
        return '(with(%s) -> %s)' % (', '.join(render(x) for x in e[1]), render(e[2]))
    if t == 'unpack':
        return '(%s.unpack(%s) -> %s)' % (atom(e[1]), ', '.join(e[2]), render(e[3]))
    if t == 'def':
        return '(def(%s, %s) -> %s)' % (e[1], render(e[2]), render(e[3]))
    if t == 'call':
        return '%s(%s)' % (e[1], ', '.join([render(x) for x in e[2]] + ['%s => %s' % (k, render(x)) for k, x in e[3]]))
    raise ValueError(t)


def atom(e):
    s = render(e)
    if e[0] in ('var', 'list', 'map', 'call', 'idx', 'mem', 'select', 'where', 'sum', 'len') or s.startswith('('):
        return s
    return '(%s)' % s


# ------------------------------------------------------------------ decoder: integer code -> program (breadth first)
LEAVES = [('var', ''), ('var', 'x'), ('lit', 1), ('mem', ('var', ''), 'a'), ('var', 'y'), ('mem', ('var', ''), 'b'),
          ('var', '2')]
KINDS = ['leaf', 'list', 'bin+', 'select', 'let1', 'mem', 'defc', 'where', 'with', 'unpk', 'idx', 'map', 'bin>', 'call',
         'clos', 'let2', 'letp', 'sum', 'unp0', 'len', 'callkw']


class Cursor:
    """reads the code left to right; a slot with k alternatives takes alternative v for 0 <= v < k-1, else the last one.
    Exhausted code reads as 0.  (The comparisons are what makes a symbolic code fork into programs.)"""

    def __init__(self, code):
        self.code = code
        self.pos = 0

    def take(self, k):
        if self.pos >= len(self.code):
            return 0
        v = self.code[self.pos]
        self.pos += 1
        for j in range(k - 1):
            if v == j:
                return j
        return k - 1


class Hole:
    def __init__(self, depth, funcs):
        self.depth = depth
        self.funcs = funcs            # function names in scope here
        self.node = None


def decode(code, depth):
    """breadth first: the kinds of all nodes of one level precede the nodes of the next level, leaves come last"""
    cur = Cursor(code)
    root = Hole(depth, ())
    queue = [root]
    while queue:
        h = queue.pop(0)
        fill(h, cur, queue)
    return freeze(root)


def fill(h, cur, queue):
    def sub(d=None, funcs=None):
        c = Hole(h.depth - 1 if d is None else d, h.funcs if funcs is None else funcs)
        queue.append(c)
        return c

    if h.depth <= 0:
        h.node = LEAVES[cur.take(len(LEAVES))]
        return
    k = KINDS[cur.take(len(KINDS))]
    if k == 'call' or k == 'callkw':
        if not h.funcs:
            k = 'leaf'
    if k == 'leaf':
        h.node = LEAVES[cur.take(len(LEAVES))]
    elif k == 'list':
        h.node = ('list', [sub(), sub()])
    elif k == 'map':
        h.node = ('map', [('a', sub()), ('b', sub())])
    elif k == 'idx':
        h.node = ('idx', sub(), sub(0))
    elif k == 'mem':
        h.node = ('mem', sub(), ['a', 'b'][cur.take(2)])
    elif k == 'bin+':
        h.node = ('bin', '+', sub(), sub())
    elif k == 'bin>':
        h.node = ('bin', '>', sub(), sub())
    elif k == 'select':
        h.node = ('select', sub(), sub())
    elif k == 'where':
        h.node = ('where', sub(), sub())
    elif k == 'sum':
        h.node = ('sum', sub())
    elif k == 'len':
        h.node = ('len', sub())
    elif k == 'let1':
        h.node = ('let', [('x', sub())], [], sub())
    elif k == 'let2':
        h.node = ('let', [('x', sub()), ('y', sub(0))], [], sub())
    elif k == 'letp':
        h.node = ('let', [], [sub()], sub())
    elif k == 'with':
        h.node = ('with', [sub(), sub(0)], sub())
    elif k == 'unpk':
        h.node = ('unpack', ('list', [sub(), sub(0)]), ['x', 'y'], sub())
    elif k == 'unp0':
        h.node = ('unpack', sub(), [], sub())
    elif k == 'defc':
        f = 'fgh'[min(len(h.funcs), 2)]
        inner = tuple(h.funcs) + (f,)
        h.node = ('def', f, sub(), ('call', f, [sub(funcs=inner)], []))
    elif k == 'call':
        h.node = ('call', h.funcs[-1], [sub()], [])
    elif k == 'callkw':
        h.node = ('call', h.funcs[-1], [], [('x', sub())])
    elif k == 'clos':
        # let(x => L) -> def(f, B) -> let(x => L2) -> f(E): does f see the x of its definition or of its call?
        f = 'fgh'[min(len(h.funcs), 2)]
        h.node = ('let', [('x', sub(0))], [],
                  ('def', f, sub(), ('let', [('x', sub(0))], [], ('call', f, [sub()], []))))
    else:
        raise ValueError(k)


def freeze(x):
    if isinstance(x, Hole):
        return freeze(x.node)
    if isinstance(x, tuple):
        return tuple(freeze(y) for y in x)
    if isinstance(x, list):
        return [freeze(y) for y in x]
    return x


# ------------------------------------------------------------------ documents built from (symbolic) ints
DOCS = {
    'dict': ('{a: i1, b: [i2, i3]}', lambda i1, i2, i3: {'a': i1, 'b': [i2, i3]}),
    'rows': ('[{a: i1, b: [i2]}, {a: i3, b: []}]', lambda i1, i2, i3: [{'a': i1, 'b': [i2]}, {'a': i3, 'b': []}]),
    'list': ('[i1, i2, i3]', lambda i1, i2, i3: [i1, i2, i3]),
    'int': ('i1', lambda i1, i2, i3: i1),
    'pair': ('[i1, i2]', lambda i1, i2, i3: [i1, i2]),
    'nest': ('{a: {a: i1, b: i2}, b: [{a: i3}]}', lambda i1, i2, i3: {'a': {'a': i1, 'b': i2}, 'b': [{'a': i3}]}),
}
