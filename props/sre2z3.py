"""sre2z3 - translate CPython regular expressions (as parsed by re._parser) into z3 regular expressions over String.

Shared helper of C03 and C16 (owner: C19/C16/C03 author).  Everything is computed at run time from live objects:
the pattern text comes from the running lexer, the parse tree from CPython's own parser, and the character
categories (\\w, \\d, \\s) from asking CPython's `re` about every code point below LIMIT.

Supported: literals, ., sets (ranges, categories, negation), branches, groups, greedy/lazy repeats, \\b at the two
ends of a pattern next to a word-character class (discharged by a z3 side query), a negative look-ahead at the start.
Anything else raises Unsupported - the caller must then report the lemma as inconclusive, never as true.
"""
import re
import time

import re._constants as C
import re._parser as P
import z3

LIMIT = 0x10000                 # categories are exact for the BMP; astral code points are treated as "not in category"
S = z3.StringSort()
RS = z3.ReSort(S)
ANY = z3.AllChar(RS)
EPS = z3.Re(z3.StringVal(''))


class Unsupported(Exception):
    pass


def zs(text):
    """z3 string literal for a Python str (z3 wants \\u{..} escapes for non-printable / non-ASCII)"""
    return z3.StringVal(text)


def lit(cp):
    return z3.Re(zs(chr(cp)))


def text(s):
    return z3.Re(zs(s))


def union(parts):
    parts = list(parts)
    if not parts:
        return z3.Empty(RS)
    return parts[0] if len(parts) == 1 else z3.Union(*parts)


def concat(parts):
    parts = list(parts)
    if not parts:
        return EPS
    return parts[0] if len(parts) == 1 else z3.Concat(*parts)


def minus(a, b):
    return z3.Intersect(a, z3.Complement(b))


def not_char(r):
    """single characters not in the single-character language r"""
    return minus(ANY, r)


_ranges_cache = {}


def ranges_of(pattern):
    """maximal code point ranges (below LIMIT, surrogates excluded) whose characters match the one-char `pattern`"""
    if pattern not in _ranges_cache:
        rx = re.compile(pattern, re.UNICODE)
        out = []
        start = None
        for cp in range(LIMIT):
            ok = not (0xD800 <= cp <= 0xDFFF) and rx.fullmatch(chr(cp)) is not None
            if ok and start is None:
                start = cp
            if not ok and start is not None:
                out.append((start, cp - 1))
                start = None
        if start is not None:
            out.append((start, LIMIT - 1))
        _ranges_cache[pattern] = out
    return _ranges_cache[pattern]


_cat_cache = {}
_CAT_RX = {C.CATEGORY_WORD: r'\w', C.CATEGORY_DIGIT: r'\d', C.CATEGORY_SPACE: r'\s'}
_CAT_NEG = {C.CATEGORY_NOT_WORD: C.CATEGORY_WORD, C.CATEGORY_NOT_DIGIT: C.CATEGORY_DIGIT,
            C.CATEGORY_NOT_SPACE: C.CATEGORY_SPACE}


def cat(name):
    if name not in _cat_cache:
        if name in _CAT_NEG:
            _cat_cache[name] = not_char(cat(_CAT_NEG[name]))
        elif name in _CAT_RX:
            _cat_cache[name] = union(z3.Range(chr(a), chr(b)) for a, b in ranges_of(_CAT_RX[name]))
        else:
            raise Unsupported('category %s' % name)
    return _cat_cache[name]


WORD = lambda: cat(C.CATEGORY_WORD)


def tr_set(items):
    negate = False
    parts = []
    for op, av in items:
        if op is C.NEGATE:
            negate = True
        elif op is C.LITERAL:
            parts.append(lit(av))
        elif op is C.RANGE:
            parts.append(z3.Range(chr(av[0]), chr(av[1])))
        elif op is C.CATEGORY:
            parts.append(cat(av))
        else:
            raise Unsupported('set item %s' % op)
    u = union(parts)
    return not_char(u) if negate else u


def tr(seq, side, top=False):
    """translate a parsed (sub)pattern; `side` collects side conditions:
    ('b', index, n_items) for \\b between item index-1 and item index of the top-level sequence,
    ('neg-lookahead', regex) for a leading (?!...)"""
    out = []
    for op, av in seq:
        if op is C.LITERAL:
            out.append(lit(av))
        elif op is C.NOT_LITERAL:
            out.append(not_char(lit(av)))
        elif op is C.ANY:
            out.append(not_char(lit(10)))           # no DOTALL in the lexer's patterns (checked by the caller)
        elif op is C.IN:
            out.append(tr_set(av))
        elif op is C.CATEGORY:
            out.append(cat(av))
        elif op is C.BRANCH:
            out.append(union(tr(b, side) for b in av[1]))
        elif op is C.SUBPATTERN:
            if av[1] or av[2]:
                raise Unsupported('inline flags')
            out.append(tr(av[3], side))
        elif op in (C.MAX_REPEAT, C.MIN_REPEAT):
            lo, hi, body = av
            r = tr(body, side)
            if hi is C.MAXREPEAT:
                out.append(z3.Star(r) if lo == 0 else (z3.Plus(r) if lo == 1 else concat([r] * lo + [z3.Star(r)])))
            else:
                out.append(z3.Loop(r, lo, hi))
        elif op is C.AT:
            if av is C.AT_BOUNDARY and top:
                side.append(('b', len(out)))
            else:
                raise Unsupported('anchor %s' % av)
        elif op is C.ASSERT_NOT:
            direction, body = av
            if direction != 1 or out or not top:
                raise Unsupported('look-around not at the start')
            side.append(('neg-lookahead', tr(body, [])))
        else:
            raise Unsupported(str(op))
    if top:
        return out
    return concat(out)


def is_empty(r, timeout=60000):
    s = z3.Solver()
    s.set('timeout', timeout)
    x = z3.String('x')
    s.add(z3.InRe(x, r))
    res = s.check()
    return str(res), (model_str(s.model(), x) if res == z3.sat else None)


def translate(pattern, flags=re.UNICODE):
    """-> z3 regex for { t : re.fullmatch(pattern, t) } where the token text t stands alone (\\b at the two ends is
    evaluated against the start / end of the string).  Raises Unsupported."""
    if isinstance(pattern, re.Pattern):
        pattern, flags = pattern.pattern, pattern.flags
    if flags & (re.DOTALL | re.IGNORECASE | re.MULTILINE):
        raise Unsupported('flags')
    side = []
    items = tr(P.parse(pattern, flags), side, top=True)
    r = concat(items)
    for sc in side:
        if sc[0] == 'neg-lookahead':
            r = minus(r, z3.Concat(sc[1], z3.Star(ANY)))
        else:
            idx = sc[1]
            notw = not_char(WORD())
            if idx == 0 and items:
                # \b at the start of the text holds iff the first character is a word character
                bad = z3.Intersect(concat(items), z3.Union(z3.Concat(notw, z3.Star(ANY)), EPS))
            elif idx == len(items) and items:
                bad = z3.Intersect(concat(items), z3.Union(z3.Concat(z3.Star(ANY), notw), EPS))
            else:
                raise Unsupported('\\b inside the pattern')
            r = minus(r, bad)        # members violating the boundary are removed (for the lexer's rules: none)
    return r


def model_str(model, x):
    v = model.eval(x, model_completion=True)
    return v.as_string() if hasattr(v, 'as_string') else str(v)


def unz3(s):
    """z3's printed string (with \\u{..} escapes) -> Python str"""
    return re.sub(r'\\u\{([0-9a-fA-F]+)\}', lambda m: chr(int(m.group(1), 16)), s)


def solve(constraints, timeout=60000):
    """constraints: callables x -> z3 bool over one string variable. -> (result, witness or None, seconds)"""
    s = z3.Solver()
    s.set('timeout', timeout)
    x = z3.String('x')
    for c in constraints:
        s.add(c(x))
    t = time.time()
    r = s.check()
    w = unz3(model_str(s.model(), x)) if r == z3.sat else None
    return str(r), w, round(time.time() - t, 3)


def inre(r):
    return lambda x: z3.InRe(x, r)


def notin(r):
    return lambda x: z3.Not(z3.InRe(x, r))


def escape_alternatives(compiled):
    """[(source text of the alternative, z3 regex)] for a pattern of the form ( A1 | A2 | ... ) - CPython factors a
    common prefix out of the branch, the translation works on the parse tree and puts it back"""
    tree = P.parse(compiled.pattern, compiled.flags)
    items = list(tree)
    if len(items) != 1 or items[0][0] is not C.SUBPATTERN:
        raise Unsupported('escape pattern is not a single group')
    body = list(items[0][1][3])
    prefix = []
    while body and body[0][0] is not C.BRANCH:
        prefix.append(body.pop(0))
    if len(body) != 1:
        raise Unsupported('escape pattern is not prefix + one alternation')
    pre = tr(prefix, []) if prefix else EPS
    return [z3.Concat(pre, tr(b, [])) if prefix else tr(b, []) for b in body[0][1][1]]


HEX = z3.Union(z3.Range('0', '9'), z3.Range('a', 'f'), z3.Range('A', 'F'))
