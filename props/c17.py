"""C17 - context trees resolve variables and functions layer by layer.

Real classes run: yaql.language.contexts.Context / MultiContext / LinkedContext (constructors, get_data, __getitem__,
__setitem__, __delitem__, __contains__, keys, register_function, delete_function, get_functions, collect_functions,
create_child_context) on forests from a topology catalogue, with a SYMBOLIC pre-state (per primitive store and name:
present or not + symbolic int value; per store: which overloads of `f` are registered, exclusively or not) followed by
one or two symbolic operations.  After every operation every observable of every node (and of every node's derived
.parent chain) is compared with the flattened-layers reference (props/c17_model.py).
"""
from typing import List

from vf import h as H

from yaql.language import contexts

from props import c17_model as M

ID = 'C17'
KNOWN = set(H.P('known', ()))
F12 = 'C17/linked-child-of-nonplain-linked'

FUNCTIONS_ENCODED = [
    'yaql.language.contexts.Context (get_data, __setitem__, __delitem__, __contains__, keys, register_function, '
    'delete_function, get_functions, _normalize_name)',
    'yaql.language.contexts.MultiContext (constructor parent merge, fan-out reads, first-member writes, keys, '
    'get_functions, delete_function, create_child_context)',
    'yaql.language.contexts.LinkedContext (constructor parent re-chaining, proxy reads/writes, create_child_context)',
    'yaql.language.contexts.ContextBase.collect_functions / create_child_context']
BOUNDS = {
    'quick': '8 topologies (<=4 primitive stores; on the two 4-store forests only exclusive registration and delete_function) mixing Context/MultiContext/LinkedContext/children; variables: for the '
             'name operated on, every present/absent vector over the stores with symbolic int values, the other name '
             'present everywhere or nowhere; one operation (set / delete / create child then set) on every node with the '
             'name spelled $, "", 1, $1, a, $a; functions: per store one of {nothing, D0, D1, D0 exclusive}, one '
             'operation (register D0/D2 plain or exclusive, delete_function D0/D1, child then register) on every node; '
             'all observables of all nodes and of their .parent chains after the operation',
    'thorough': 'all 20 topologies (<=5 stores) with one operation (forests of 5 stores: 4 of the 8 function operations); two consecutive operations on 4 topologies'}
OUTSIDE = ['delete of a name that is absent from some store of the target\'s own layer (KeyError today; not specified)',
           'whether delete_function keeps a layer exclusive (the implementation clears the flag; states with an exclusive '
           'flag in the target layer are excluded for delete_function)',
           'more than two operations on functions after the arbitrary pre-state; naming conventions other than none',
           'variable values other than ints and None']
ASSUMPTIONS = ['the pre-state is installed by writing Context._data / _functions / _exclusive_funcs of the primitive '
               'stores directly (representation invariant: any dict of normalised names; an exclusive flag implies a '
               'registered overload)',
               'variables and functions are checked in separate conditions (the anchored code keeps them in separate '
               'fields that no method reads together)',
               'the name that is not operated on is present in all stores or in none (with symbolic values)']
EXPLANATION = ('Symbolic pre-state + symbolic operation on real context forests: presence booleans, int values, overload '
               'sets and the operation (opcode shard, target node, spelling, value) are solver variables; after the '
               'operation ctx[name], name in ctx, ctx.keys(), get_functions, collect_functions (with and without '
               'predicate) and fd in ctx of every node and every derived parent are compared with the flattened-layers '
               'reference.  Values stay symbolic through the real lookup code, so e.g. a truthiness test instead of the '
               'NO_VALUE sentinel is refuted with value 0.')
TECHNIQUE = ('bounded symbolic execution (CrossHair+z3) of the real context classes from a symbolic pre-state vs a '
             'flattened-layers reference model; replay on CPython')

SPELL_ALL = ['$', '', '1', '$1', 'a', '$a']
SPELL = H.P('spell1') or SPELL_ALL
READ_NAMES = SPELL_ALL + ['b']
TOPO = H.P('topo', 'chain3')
STEPS = M.TOPOLOGIES[TOPO]
S = M.count_stores(STEPS)
OPCODE = H.P('op', 'set')
TARGETS = H.P('targets') or list(range(len(STEPS)))
TARGET_NAMES = [str(t) for t in TARGETS]

# overload pool (created once per process; identity is what matters)
D = [M.make_fd('f', i) for i in range(3)]
G = M.make_fd('g', 9)


def pred_even(fd, ctx=None):
    return fd.meta['tag'] % 2 == 0


# ------------------------------------------------------------------ observation
def same_value(r, e):
    """the value read is the value stored (identity first: no solver call when the object travelled unchanged)"""
    if r is e:
        return True
    if r is None or e is None:
        return False
    return r == e


try:
    from crosshair.util import CrossHairInternal
except Exception:                     # replay without crosshair
    class CrossHairInternal(BaseException):
        pass


def observe_vars(node, real, ok_so_far=True):
    """fast pass: the real lookups run natively and must hand back the very object that was stored (a symbolic value
    is never inspected by correct lookup code).  If the real code does inspect a value (CrossHair then refuses to
    continue untraced) or returns a different object, the comparison is repeated under the tracer with ==."""
    if not ok_so_far:
        return False
    with H.NoTracing():
        exp = [(n, node.get(n), node.contains(n)) for n in READ_NAMES]
        exp_keys = sorted(node.keys())
        try:
            fast = all((real[n] is e) and ((n in real) == c) for n, e, c in exp)
            fast = fast and sorted(list(real.keys())) == exp_keys
        except CrossHairInternal:
            fast = False
    if fast:
        return True
    ok = True
    for n, e, c in exp:
        r = real[n]
        ok = ok and same_value(r, e) and ((n in real) == c)
    ok = ok and sorted(list(real.keys())) == exp_keys
    return ok


def observe_funcs(node, real):
    ok = True
    for fn in ('f', 'g'):
        rs, rx = real.get_functions(fn)
        es, ex = node.get_functions(fn)
        ok = ok and isinstance(rs, set) and rs == es and bool(rx) == ex
        rs, rx = real.get_functions(fn, lambda fd: pred_even(fd))
        es, ex = node.get_functions(fn, pred_even)
        ok = ok and rs == es and bool(rx) == ex
        ok = ok and [set(x) for x in real.collect_functions(fn)] == node.collect(fn)
        ok = ok and [set(x) for x in real.collect_functions(fn, pred_even)] == node.collect(fn, pred_even)
    for fd in D + [G]:
        ok = ok and ((fd in real) == node.has_function(fd))
    return ok


def observe_all(forest, which):
    """every node, and every node's derived parent chain"""
    obs = observe_vars if which == 'vars' else observe_funcs
    ok = True
    for node in forest.nodes:
        real = node.real
        k = 0
        while True:
            view = node if k == 0 else node.parent_view(k)
            ok = ok and obs(view, real)
            real = real.parent
            k += 1
            if real is None or k >= len(node.layers):
                ok = ok and (real is None) == (k >= len(node.layers))
                break
    return ok


# ------------------------------------------------------------------ variables
def f12_class(node, opcode):
    return opcode.startswith('child') and node.kind == 'linked' and node.nonplain_linked


def build_vars(pres, yall, vals, xname):
    """forest with the symbolic pre-state installed; X = the variable operated on, Y = the other one"""
    with H.NoTracing():
        forest = M.Forest(STEPS)
        x = M.norm(xname)
        y = '$a' if x == '$1' else '$1'
    for i, st in enumerate(forest.stores):
        ctx = store_ctx(forest, st)
        if pres[i]:
            val = vals[2 * i]
            ctx._data[x] = val
            st.data[x] = val
        if yall:
            val = vals[2 * i + 1]
            ctx._data[y] = val
            st.data[y] = val
    return forest


def store_ctx(forest, st):
    """the real plain Context that owns store st"""
    for node in forest.nodes:
        if node.kind == 'ctx' and node.layers[0][0] is st:
            return node.real
    raise AssertionError('store without context')


def apply_var_op(forest, opcode, node, name, v):
    """returns False when the real code misbehaves outright (exception where the property promises a result)"""
    if opcode == 'set':
        node.real[name] = v
        node.first_store().data[M.norm(name)] = v
        return True
    if opcode == 'del':
        del node.real[name]
        for st in node.layers[0]:
            del st.data[M.norm(name)]
        return True
    if opcode == 'childset':
        try:
            real = node.real.create_child_context()
        except Exception:
            return False
        with H.NoTracing():
            child = M.Node('ctx', real, [[forest.new_store()]] + node.layers)
            forest.nodes.append(child)
        if not (isinstance(real, contexts.ContextBase) and observe_vars(child, real)):
            return False
        real[name] = v
        child.first_store().data[M.norm(name)] = v
        return True
    raise ValueError(opcode)


def var_pre(pres, vals, sp, tgt, opcode):
    if not (len(pres) == S and len(vals) == 2 * S and 0 <= sp < len(SPELL) and 0 <= tgt < len(TARGETS)):
        return False
    ft = H.P('first_target')
    return ft is None or tgt == ft


def del_defined(forest, node, name):
    n = M.norm(name)
    layer = node.layers[0]
    # a store that reaches the layer twice (diamond) is deleted from twice by the fan-out: not specified
    return all(n in st.data for st in layer) and len(set(id(st) for st in layer)) == len(layer)


def vars_op(pres: List[bool], yall: bool, vals: List[int], v: int, sp: int, tgt: int) -> bool:
    """
    pre: var_pre(pres, vals, sp, tgt, OPCODE)
    post: _
    """
    name = SPELL[sp]
    t = int(TARGET_NAMES[tgt])
    forest = build_vars(pres, yall, vals, name)
    node = forest.nodes[t]
    if OPCODE == 'del' and not del_defined(forest, node, name):
        return True                                   # outside the claim (not counted as a completed path)
    if F12 in KNOWN and f12_class(node, OPCODE):
        return True                                   # listed finding, probed separately
    ok = observe_all(forest, 'vars')                  # reads before the write (a history: read, write elsewhere, read again)
    ok = ok and apply_var_op(forest, OPCODE, node, name, v)
    ok = ok and observe_all(forest, 'vars')
    return H.done(ok)


def vars_op2(pres: List[bool], vals: List[int], v: int, w: int, sp: int, tgt: int, op2: int, sp2: int,
             tgt2: int) -> bool:
    """
    pre: var_pre(pres, vals, sp, tgt, OPCODE)
    pre: 0 <= op2 < 3 and 0 <= sp2 < len(SPELL2) and 0 <= tgt2 < len(TARGETS)
    post: _
    """
    name = SPELL[sp]
    t = int(TARGET_NAMES[tgt])
    opcode2 = ['set', 'del', 'childset'][op2]
    name2 = SPELL2[sp2]
    t2 = int(TARGET_NAMES[tgt2])
    forest = build_vars(pres, True, vals, name)
    node = forest.nodes[t]
    if OPCODE == 'del' and not del_defined(forest, node, name):
        return True
    if F12 in KNOWN and (f12_class(node, OPCODE) or f12_class(forest.nodes[t2], opcode2)):
        return True
    ok = apply_var_op(forest, OPCODE, node, name, v)
    ok = ok and observe_all(forest, 'vars')
    if not ok:
        return H.done(False)
    node2 = forest.nodes[t2]
    if opcode2 == 'del' and not del_defined(forest, node2, name2):
        return True
    ok = apply_var_op(forest, opcode2, node2, name2, w)
    ok = ok and observe_all(forest, 'vars')
    return H.done(ok)


SPELL2 = ['', 'a', '$1']


def vars_none(pres: List[bool], sp: int, tgt: int) -> bool:
    """a variable explicitly set to null hides outer definitions (null is a value, not "undefined")
    pre: len(pres) == S and 0 <= sp < len(SPELL) and 0 <= tgt < len(TARGETS)
    post: _
    """
    name = SPELL[sp]
    t = int(TARGET_NAMES[tgt])
    forest = build_vars(pres, False, [7] * (2 * S), name)
    node = forest.nodes[t]
    if F12 in KNOWN and f12_class(node, 'childset'):
        return True
    ok = apply_var_op(forest, 'set', node, name, None)
    ok = ok and observe_all(forest, 'vars')
    ok = ok and apply_var_op(forest, 'childset', node, name, None)
    ok = ok and observe_all(forest, 'vars')
    return H.done(ok)


# ------------------------------------------------------------------ functions
def decode_fstate(a, b, i):
    """per store: nothing / {D1} / {D0} / {D0} registered exclusively"""
    if a[i]:
        return ([D[0]], bool(b[i]))
    return ([D[1]], False) if b[i] else ([], False)


def build_funcs(a, b):
    states = [decode_fstate(a, b, i) for i in range(S)]
    with H.NoTracing():
        forest = M.Forest(STEPS)
        for i, st in enumerate(forest.stores):
            ctx = store_ctx(forest, st)
            defs, ex = states[i]
            if defs:
                ctx._functions['f'] = set(defs)
                st.funcs['f'] = set(defs)
            if ex:
                ctx._exclusive_funcs.add('f')
                st.excl.add('f')
        # `g` lives in store 0 only: must never be disturbed by operations on `f`
        store_ctx(forest, forest.stores[0])._functions['g'] = {G}
        forest.stores[0].funcs['g'] = {G}
    return forest


FOPS_ALL = [('reg', 0, False), ('reg', 0, True), ('reg', 2, False), ('reg', 2, True), ('delf', 0, False),
        ('delf', 1, False), ('childreg', 2, False), ('childreg', 0, True)]
FOPS = [FOPS_ALL[i] for i in (H.P('fops') or range(len(FOPS_ALL)))]
FOP_NAMES = [str(i) for i in range(len(FOPS))]


def apply_func_op(forest, fop, node):
    kind, k, ex = fop
    fd = D[k]
    if kind == 'reg':
        if ex:
            node.real.register_function(fd, exclusive=True)
        else:
            node.real.register_function(fd)
        st = node.first_store()
        st.funcs.setdefault('f', set()).add(fd)
        if ex:
            st.excl.add('f')
        return True
    if kind == 'delf':
        node.real.delete_function(fd)
        for st in node.layers[0]:
            st.funcs.get('f', set()).discard(fd)
        return True
    if kind == 'childreg':
        try:
            real = node.real.create_child_context()
        except Exception:
            return False
        child = M.Node('ctx', real, [[forest.new_store()]] + node.layers)
        forest.nodes.append(child)
        if not (isinstance(real, contexts.ContextBase) and observe_funcs(child, real)):
            return False
        return apply_func_op(forest, ('reg', k, ex), child)
    raise ValueError(kind)


def fop_defined(node, fop):
    """delete_function on a layer that holds an exclusive registration: resulting exclusivity is not specified"""
    if fop[0] == 'delf':
        return not any('f' in st.excl for st in node.layers[0])
    return True


def funcs_op(a: List[bool], b: List[bool], op: int, tgt: int) -> bool:
    """
    pre: len(a) == S and len(b) == S and 0 <= op < len(FOPS) and 0 <= tgt < len(TARGETS)
    post: _
    """
    fop = FOPS[int(FOP_NAMES[op])]
    t = int(TARGET_NAMES[tgt])
    forest = build_funcs(a, b)
    with H.NoTracing():
        node = forest.nodes[t]
        if not fop_defined(node, fop):
            return True
        if F12 in KNOWN and f12_class(node, fop[0]):
            return True
        ok = observe_all(forest, 'funcs')
        ok = ok and apply_func_op(forest, fop, node)
        ok = ok and observe_all(forest, 'funcs')
    return H.done(ok)


def funcs_op2(a: List[bool], op: int, tgt: int, op2: int, tgt2: int) -> bool:
    """
    pre: len(a) == S and 0 <= op < len(FOPS) and 0 <= tgt < len(TARGETS)
    pre: H.P('first_target') is None or tgt == H.P('first_target')
    pre: 0 <= op2 < len(FOPS) and 0 <= tgt2 < len(TARGETS)
    post: _
    """
    fop = FOPS[int(FOP_NAMES[op])]
    fop2 = FOPS[int(FOP_NAMES[op2])]
    t = int(TARGET_NAMES[tgt])
    t2 = int(TARGET_NAMES[tgt2])
    forest = build_funcs(a, [False] * S)
    with H.NoTracing():
        node, node2 = forest.nodes[t], forest.nodes[t2]
        if not fop_defined(node, fop):
            return True
        if F12 in KNOWN and (f12_class(node, fop[0]) or f12_class(node2, fop2[0])):
            return True
        ok = apply_func_op(forest, fop, node)
        ok = ok and observe_all(forest, 'funcs')
        if ok:
            if not fop_defined(node2, fop2):
                return True
            ok = apply_func_op(forest, fop2, node2)
            ok = ok and observe_all(forest, 'funcs')
    return H.done(ok)


# ------------------------------------------------------------------ probe of the listed finding F12
def probe_linked_child(tgt: int, v: int) -> bool:
    """
    pre: 0 <= tgt < len(TARGETS)
    post: _
    """
    t = int(TARGET_NAMES[tgt])
    with H.NoTracing():
        forest = M.Forest(STEPS)
        node = forest.nodes[t]
    if not f12_class(node, 'childset'):
        return True
    ok = apply_var_op(forest, 'childset', node, 'a', v)
    ok = ok and observe_all(forest, 'vars')
    return H.done(ok)


# ------------------------------------------------------------------ conditions
def _shards(items, size):
    return [items[i:i + size] for i in range(0, len(items), size)]


def conditions(tier, seed):
    quick = tier == 'quick'
    out = [{'name': 'name_spelling', 'func': 'name_spelling', 'timeout': 200,
            'bounds': 'function toUpper registered (exclusively or not) in a Context / MultiContext / LinkedContext over a parent that '
                      'also has it; looked up as toUpper, toUpper_, toUpper__ and, with use_convention, as to_upper, to_upper_'}]
    topos = M.QUICK if quick else list(M.TOPOLOGIES)
    for topo in topos:
        steps = M.TOPOLOGIES[topo]
        s = M.count_stores(steps)
        nodes = list(range(len(steps)))
        for opcode in ('set', 'del', 'childset'):
            per_target = (2 ** s) * 2 * len(SPELL)
            for tg in _shards(nodes, max(1, 700 // per_target)):
                out.append({'name': 'vars[%s,%s,targets=%s]' % (topo, opcode, ','.join(map(str, tg))), 'func': 'vars_op',
                            'timeout': 500, 'param': {'topo': topo, 'op': opcode, 'targets': tg},
                            'bounds': 'topology %s (%d stores): every presence vector of the operated name, other name '
                                      'everywhere/nowhere, symbolic int values; %s on node(s) %s with each of 6 spellings'
                                      % (topo, s, opcode, tg)})
        # big forests: a sub-set of the operations (exclusive registration, deletion, plain registration of a new
        # overload, child creation)
        fsel = list(range(len(FOPS_ALL)))
        if (quick and s >= 4):
            fsel = [1, 4]
        elif s >= 5:
            fsel = [1, 2, 4, 6]
        per_target = (4 ** s) * len(fsel)
        for tg in _shards(nodes, max(1, 700 // per_target)):
            fshards = _shards(fsel, max(1, 700 // (4 ** s))) if (per_target > 900 or len(fsel) < len(FOPS_ALL)) \
                else [None]
            for fs in fshards:
                out.append({'name': 'funcs[%s,targets=%s%s]' % (topo, ','.join(map(str, tg)),
                                                                '' if fs is None else ',ops=%s' % ','.join(map(str, fs))),
                            'func': 'funcs_op', 'timeout': 500, 'param': {'topo': topo, 'targets': tg, 'fops': fs},
                            'bounds': 'topology %s (%d stores): per store nothing/D1/D0/D0-exclusive; operations %s on '
                                      'node(s) %s' % (topo, s, [FOPS_ALL[i] for i in (fs or range(len(FOPS_ALL)))], tg)})
        if topo in ('chain3', 'multi2+child', 'linked-chain') or not quick:
            out.append({'name': 'vars_none[%s]' % topo, 'func': 'vars_none', 'timeout': 300, 'param': {'topo': topo},
                        'bounds': 'topology %s: set to null, then child set to null, every presence vector, spelling, '
                                  'node' % topo})
        if F12 in KNOWN and any(st[0] == 'linked' and steps[st[2]][0] != 'ctx' for st in steps):
            out.append({'name': 'probe[F12,%s]' % topo, 'func': 'probe_linked_child', 'timeout': 100, 'kind': 'probe',
                        'param': {'topo': topo, 'probe_key': F12},
                        'bounds': 'create_child_context on the LinkedContext nodes of %s whose linked context is not a '
                                  'plain Context' % topo})
    if not quick:
        for topo in ('chain3', 'multi2+child', 'linked-chain', 'linked-linked'):
            steps = M.TOPOLOGIES[topo]
            s = M.count_stores(steps)
            nodes = list(range(len(steps)))
            for opcode in ('set', 'del', 'childset'):
                for t in nodes:
                    out.append({'name': 'vars2[%s,%s,target=%d]' % (topo, opcode, t), 'func': 'vars_op2', 'timeout': 900,
                                'param': {'topo': topo, 'op': opcode, 'targets': nodes, 'first_target': t,
                                          'spell1': SPELL2},
                                'bounds': 'topology %s: %s on node %d (spellings "", a, $1) then any of set/del/childset on any '
                                          'node with spellings "", a, $1; every presence vector' % (topo, opcode, t)})
            for t in nodes:
                out.append({'name': 'funcs2[%s,target=%d]' % (topo, t), 'func': 'funcs_op2', 'timeout': 900,
                            'param': {'topo': topo, 'targets': nodes, 'first_target': t},
                            'bounds': 'topology %s: per store nothing/D0; any operation on node %d then any operation '
                                      'on any node' % (topo, t)})
    if quick:
        # the deep linked chain (a LinkedContext over three ancestors) is kept small in the quick tier: variable writes and
        # the first function shards only
        keep, nf = [], 0
        for c in out:
            if '[deep-linked' in c['name']:
                if c['name'].startswith('vars[deep-linked,set'):
                    keep.append(c)
                elif c['name'].startswith('funcs[deep-linked') and nf < 3:
                    keep.append(c)
                    nf += 1
            else:
                keep.append(c)
        out = keep
    return out


# ------------------------------------------------------------------ validate / replay
SPELLINGS = [('toUpper', False), ('toUpper_', False), ('toUpper__', False), ('to_upper', True), ('to_upper_', True),
             ('toUpper', True)]
SPBOX = [(i,) for i in range(len(SPELLINGS))]


def name_spelling(e: bool, sp: int, kind: int) -> bool:
    """
    pre: 0 <= sp < len(SPELLINGS) and 0 <= kind < 3
    post: _
    """
    # function names are looked up modulo trailing underscores and (with use_convention) the naming convention; the
    # exclusive mark of a layer must apply to every spelling that denotes the registered name
    from yaql.language import contexts, conventions, specs
    spelling, use_conv = SPELLINGS[SPBOX[sp][0]]
    kind = SPBOX[kind][0]
    excl = [(False,), (True,)][int(e)][0]
    with H.NoTracing():
        conv = conventions.CamelCaseConvention()
        parent = contexts.Context(convention=conv)

        def p_up(x):
            return 'parent'

        def c_up(x):
            return 'child'
        parent.register_function(p_up, name='toUpper')
        if kind == 0:
            child = contexts.Context(parent)
        elif kind == 1:
            child = contexts.MultiContext([contexts.Context(parent), contexts.Context(parent)])
        else:
            child = contexts.LinkedContext(parent, contexts.Context(convention=conv))
        child.register_function(c_up, name='toUpper', exclusive=excl)
        layers = [sorted(fd.payload(0) for fd in layer) for layer in child.collect_functions(spelling, use_convention=use_conv)]
        own, is_excl = child.get_functions(spelling, use_convention=use_conv)
        exp = [['child']] if excl else [['child'], ['parent']]
        if kind == 1 and not excl:
            exp = [['child'], ['parent']]
        ok = layers == exp and sorted(fd.payload(0) for fd in own) == ['child'] and bool(is_excl) == excl
        # exclusivity is a property of the layer and the name: it also stops the walk when a predicate filters every
        # overload of the exclusive layer out (e.g. a function-only overload looked up as a method)
        none = [sorted(fd.payload(0) for fd in layer)
                for layer in child.collect_functions(spelling, lambda fd, ctx: fd.payload(0) == 'parent', use_convention=use_conv)]
        ok = ok and none == ([] if excl else [['parent']])
    return H.done(ok)


def validate():
    """the flattened-layers reference against the real classes on random forests and histories (concrete), F12 class
    avoided"""
    import random
    rnd = random.Random(7)
    bad = []
    for trial in range(150):
        steps = [('ctx', None)]
        for _ in range(rnd.randint(1, 5)):
            k = rnd.choice(['ctx', 'child', 'multi', 'linked'])
            n = len(steps)
            if k == 'ctx':
                steps.append(('ctx', rnd.choice(list(range(n)) + [None])))
            elif k == 'child':
                cands = [i for i in range(n) if not (steps[i][0] == 'linked' and steps[steps[i][2]][0] not in
                                                      ('ctx', 'child'))]
                steps.append(('child', rnd.choice(cands)))
            elif k == 'multi':
                steps.append(('multi', rnd.sample(range(n), min(n, rnd.randint(1, 3)))))
            else:
                steps.append(('linked', rnd.choice(list(range(n)) + [None]), rnd.randrange(n)))
        try:
            forest = M.Forest(steps)
            for _ in range(rnd.randint(0, 5)):
                node = rnd.choice(forest.nodes)
                op = rnd.choice(['set', 'del', 'reg', 'regx', 'delf'])
                name = rnd.choice(READ_NAMES)
                if op == 'set':
                    apply_var_op(forest, 'set', node, name, rnd.choice([0, 1, None, 5]))
                elif op == 'del':
                    if del_defined(forest, node, name):
                        apply_var_op(forest, 'del', node, name, None)
                elif op in ('reg', 'regx'):
                    apply_func_op(forest, ('reg', rnd.randrange(3), op == 'regx'), node)
                else:
                    fop = ('delf', rnd.randrange(3), False)
                    if fop_defined(node, fop):
                        apply_func_op(forest, fop, node)
                if not (observe_all(forest, 'vars') and observe_all(forest, 'funcs')):
                    bad.append('reference disagrees with the real classes on forest %r' % (steps,))
                    break
        except Exception as e:
            bad.append('forest %r: %s: %s' % (steps, type(e).__name__, e))
    return bad[:3]


def replay(cond, args):
    if cond['func'] == 'name_spelling':
        ok = name_spelling(**args)
        return {'reproduced': not ok, 'key': 'C17/name-spelling',
                'what': 'collect_functions/get_functions(%r, use_convention=%r) on a %s with exclusive=%r differs from the layers of the '
                        'registered name toUpper' % (SPELLINGS[args['sp']][0], SPELLINGS[args['sp']][1],
                                                    ['Context', 'MultiContext', 'LinkedContext'][args['kind']], args['e'])}
    import props.c17 as me
    fn = getattr(me, cond['func'])
    p = cond.get('param') or {}
    try:
        ok = fn(**args)
        exc = None
    except Exception as e:
        ok, exc = False, e
    if ok:
        return {'reproduced': False}
    topo = p.get('topo')
    key = 'C17/%s/%s' % (cond['func'], topo)
    what = '%s with %r: observables differ from the flattened-layers reference%s' % (
        cond['name'], args, '' if exc is None else ' (raised %r)' % exc)
    # classify the listed crash class: create_child_context on a LinkedContext over a non-plain linked context
    try:
        forest = M.Forest(M.TOPOLOGIES[topo])
        t = None
        if 'tgt' in args:
            t = TARGETS[args['tgt']]
        opcode = p.get('op', '')
        if cond['func'] in ('funcs_op', 'funcs_op2'):
            opcode = FOPS[args['op']][0]
        if cond['func'] in ('probe_linked_child', 'vars_none'):
            opcode = 'childset'
        cands = [forest.nodes[t]] if t is not None else []
        if 'tgt2' in args:
            cands.append(forest.nodes[TARGETS[args['tgt2']]])
            opcode = 'child'
        for node in cands:
            if f12_class(node, opcode):
                try:
                    node.real.create_child_context()
                except Exception as e:
                    key = F12
                    what = ('topology %s node %d: LinkedContext(parent, linked=%s).create_child_context() raises %s: %s'
                            % (topo, forest.nodes.index(node), type(node.real.linked_context).__name__,
                               type(e).__name__, e))
    except Exception:
        pass
    return {'reproduced': True, 'key': key, 'what': what}
