"""C19, regex part: stub pattern/match objects (symbolic, mutually consistent), a recording stub of the `re` module,
and a concrete pattern family x enumerated subjects through the real `re` by dispatch."""
import re as REAL
from typing import Optional

from vf import h as H
from vf import yq
from yaql.language import contexts
from yaql.standard_library import regex as rx

KNOWN = set(H.P('known', ()))
K_NAMED = 'C19/publish-match-named-groups'
SLEN = H.P('slen', 3)
PROBE = H.P('probe_key') == K_NAMED


class StubLimit(Exception):
    """the code under test used a part of the re API the stub does not model"""


class StubMatch:
    """re.Match contract: values symbolic but mutually consistent. groups: [(value, start, end)], names: {name: index}"""

    def __init__(self, whole, groups, names, string=None):
        self._whole = whole
        self._groups = list(groups)
        self._names = dict(names)
        self.string = string
        self.pos = 0
        self.endpos = None if string is None else len(string)

    def _g(self, i):
        if isinstance(i, str):
            if i not in self._names:
                raise IndexError('no such group')
            i = self._names[i]
        if isinstance(i, bool) or not isinstance(i, int) or not 0 <= i <= len(self._groups):
            raise IndexError('no such group')
        return self._whole if i == 0 else self._groups[i - 1]

    def group(self, *idx):
        if not idx:
            return self._whole[0]
        if len(idx) == 1:
            return self._g(idx[0])[0]
        return tuple(self._g(i)[0] for i in idx)

    __getitem__ = lambda self, i: self._g(i)[0]

    def start(self, i=0):
        return self._g(i)[1]

    def end(self, i=0):
        return self._g(i)[2]

    def span(self, i=0):
        g = self._g(i)
        return (g[1], g[2])

    def groups(self, default=None):
        return tuple(default if g[0] is None else g[0] for g in self._groups)

    def groupdict(self, default=None):
        return {n: (default if self._groups[i - 1][0] is None else self._groups[i - 1][0]) for n, i in self._names.items()}

    @property
    def regs(self):
        return tuple((g[1], g[2]) for g in [self._whole] + self._groups)

    @property
    def lastindex(self):
        raise StubLimit('lastindex')

    @property
    def lastgroup(self):
        raise StubLimit('lastgroup')

    @property
    def re(self):
        return StubPattern(groups=len(self._groups), names=self._names)

    def expand(self, template):
        raise StubLimit('expand')


class StubPattern:
    """re.Pattern contract: returns what it was configured with and records how it was called"""

    def __init__(self, found=None, matches=(), result=None, groups=0, names=None):
        self.calls = []
        self._found = found
        self._matches = list(matches)
        self._result = result
        self.groups = groups
        self.groupindex = dict(names or {})
        self.pattern = '<stub>'
        self.flags = REAL.UNICODE

    def search(self, string, *rest):
        self.calls.append(('search', string) + rest)
        return self._found

    def match(self, string, *rest):
        raise StubLimit('match')

    def fullmatch(self, string, *rest):
        raise StubLimit('fullmatch')

    def finditer(self, string, *rest):
        self.calls.append(('finditer', string) + rest)
        return iter(self._matches)

    def findall(self, string, *rest):
        raise StubLimit('findall')

    def split(self, string, maxsplit=0):
        self.calls.append(('split', string, maxsplit))
        return self._result

    def sub(self, repl, string, count=0):
        self.calls.append(('sub', repl, string, count))
        if isinstance(repl, str):
            return self._result
        out = []
        done = 0
        for m in self._matches:
            if count != 0 and done >= count:
                break
            out.append(repl(m))
            done += 1
        return out           # the list of replacement texts, in order (the real sub would splice them into string)

    def subn(self, *a):
        raise StubLimit('subn')


class StubRe:
    """stands for the `re` module global of yaql.standard_library.regex"""

    def __init__(self, found=None):
        self.calls = []
        self._found = found

    def __getattr__(self, name):
        if name.isupper() or name in ('error', 'Pattern', 'Match'):
            return getattr(REAL, name)
        raise StubLimit(name)

    def search(self, pattern, string, flags=0):
        self.calls.append(('search', pattern, string, flags))
        return self._found

    def compile(self, pattern, flags=0):
        self.calls.append(('compile', pattern, flags))
        return MARK_RE

    def escape(self, pattern):
        self.calls.append(('escape', pattern))
        return 'MARK'


MARK_RE = REAL.compile('mark')
MARK = ['mark']
NAMES = ['$1', '$2', '$3', '$4', '$x', '$yy', '$zz', '$0', '$']


def make_match(w, s0, e0, g1, a1, b1, g2, a2, b2, ng, n1, n2):
    groups = [(g1, a1, b1), (g2, a2, b2)][:ng]
    names = {}
    if n1 and ng >= 1:
        names['x'] = 1
    if n2 and ng >= 2:
        names['yy'] = 2
    return StubMatch((w, s0, e0), groups, names)


def expected_vars(m):
    """what the selector must see: $1 = whole match record, $k+1 = k-th group record, $name = named group's record"""
    exp = {'$1': {'value': m._whole[0], 'start': m._whole[1], 'end': m._whole[2]}}
    for i, g in enumerate(m._groups, 1):
        exp['$' + str(i + 1)] = {'value': g[0], 'start': g[1], 'end': g[2]}
    for n, i in m._names.items():
        g = m._groups[i - 1]
        exp['$' + n] = {'value': g[0], 'start': g[1], 'end': g[2]}
    exp['$'] = exp['$1']
    return exp


def view(ctx):
    return [ctx[n] for n in NAMES]


def expected_view(m):
    e = expected_vars(m)
    return [e.get(n) for n in NAMES]


def small(v, n=2):
    return v is None or len(v) <= n


def named_class(ng, n1, n2):
    return (n1 and ng >= 1) or (n2 and ng >= 2)


def class_ok(ng, n1, n2):
    """main harness: outside the listed finding's class while it is listed; probe: inside the class"""
    if PROBE:
        return named_class(ng, n1, n2)
    return K_NAMED not in KNOWN or not named_class(ng, n1, n2)


def guarded(fn):
    try:
        return fn()
    except StubLimit:
        H.note('stub_limit')
        return True
    except Exception:
        return False


def rx_publish(w: str, s0: int, e0: int, g1: Optional[str], a1: int, b1: int, g2: Optional[str], a2: int, b2: int,
               ng: int, n1: bool, n2: bool) -> bool:
    """
    pre: 0 <= ng <= 2 and small(w) and small(g1) and small(g2)
    pre: class_ok(ng, n1, n2)
    post: _
    """
    m = make_match(w, s0, e0, g1, a1, b1, g2, a2, b2, ng, n1, n2)

    def run():
        ctx = contexts.Context()
        rx._publish_match(ctx, m)
        exp = expected_vars(m)
        del exp['$']
        return dict((k, ctx[k]) for k in ctx.keys()) == exp and view(ctx) == expected_view(m)
    return H.done(guarded(run))


def rx_search(s: str, found: bool, use_sel: bool, w: str, s0: int, e0: int, g1: Optional[str], a1: int, b1: int,
              g2: Optional[str], a2: int, b2: int, ng: int, n1: bool, n2: bool) -> bool:
    """
    pre: len(s) <= 2 and 0 <= ng <= 2 and small(w) and small(g1) and small(g2)
    pre: not (found and use_sel) or class_ok(ng, n1, n2)
    pre: not PROBE or (found and use_sel)
    post: _
    """
    m = make_match(w, s0, e0, g1, a1, b1, g2, a2, b2, ng, n1, n2)
    pat = StubPattern(found=m if found else None)
    parent = contexts.Context()
    parent['$keep'] = 7

    def run():
        got = rx.search(parent, pat, s, view) if use_sel else rx.search(parent, pat, s)
        if not found:
            exp = None
        elif use_sel:
            exp = expected_view(m)
        else:
            exp = w
        return got == exp and (got is None) == (exp is None) and pat.calls == [('search', s)] and parent['$keep'] == 7
    return H.done(guarded(run))


def rx_search_all(s: str, k: int, use_sel: bool, w: str, s0: int, e0: int, g1: Optional[str], a1: int, b1: int,
                  ng: int, n1: bool, w2: str, s2: int, e2: int, h1: Optional[str], c1: int, d1: int) -> bool:
    """
    pre: len(s) <= 2 and 0 <= k <= 2 and 0 <= ng <= 1 and small(w) and small(w2) and small(g1) and small(h1)
    pre: not (k > 0 and use_sel) or class_ok(ng, n1, False)
    pre: not PROBE or (k > 0 and use_sel)
    post: _
    """
    ms = [make_match(w, s0, e0, g1, a1, b1, None, 0, 0, ng, n1, False),
          make_match(w2, s2, e2, h1, c1, d1, None, 0, 0, ng, n1, False)][:k]
    pat = StubPattern(matches=ms)
    parent = contexts.Context()
    parent['$keep'] = 7

    def run():
        it = rx.search_all(parent, pat, s, view) if use_sel else rx.search_all(parent, pat, s)
        got = list(it)
        exp = [expected_view(m) if use_sel else m._whole[0] for m in ms]
        return got == exp and pat.calls == [('finditer', s)] and parent['$keep'] == 7
    return H.done(guarded(run))


def rx_replace_by(s: str, k: int, count: int, w: str, s0: int, e0: int, g1: Optional[str], a1: int, b1: int,
                  ng: int, n1: bool, w2: str, s2: int, e2: int, h1: Optional[str], c1: int, d1: int) -> bool:
    """
    pre: len(s) <= 2 and 0 <= k <= 2 and 0 <= ng <= 1 and small(w) and small(w2) and small(g1) and small(h1)
    pre: 0 <= count <= 3
    pre: k == 0 or class_ok(ng, n1, False)
    pre: not PROBE or k > 0
    post: _
    """
    ms = [make_match(w, s0, e0, g1, a1, b1, None, 0, 0, ng, n1, False),
          make_match(w2, s2, e2, h1, c1, d1, None, 0, 0, ng, n1, False)][:k]
    pat = StubPattern(matches=ms)
    parent = contexts.Context()

    swap = H.P('swap', False)

    def run():
        if swap:
            got = rx.replace_by_string(parent, s, pat, view, count)
        else:
            got = rx.replace_by(parent, pat, s, view, count)
        lim = k if count == 0 else min(k, count)
        exp = [expected_view(m) for m in ms[:lim]]
        c = pat.calls
        return got == exp and len(c) == 1 and c[0][0] == 'sub' and c[0][2] == s and c[0][3] == count
    return H.done(guarded(run))


def rx_plumb(s: str, t: str, n: int, found: bool) -> bool:
    """
    pre: len(s) <= 2 and len(t) <= 2
    post: _
    """
    which = H.P('which')
    m = make_match('w', 0, 1, None, 0, 0, None, 0, 0, 0, False, False)
    pat = StubPattern(found=m if found else None, result=MARK)

    def run():
        if which == 'matches':
            return rx.matches(pat, s) is found and pat.calls == [('search', s)]
        if which == 'op_match':
            return rx.matches_operator_regex(s, pat) is found and pat.calls == [('search', s)]
        if which == 'op_not_match':
            return rx.not_matches_operator_regex(s, pat) is (not found) and pat.calls == [('search', s)]
        if which == 'split':
            return rx.split(pat, s, n) is MARK and rx.split(pat, s) is MARK and pat.calls == [('split', s, n), ('split', s, 0)]
        if which == 'split_string':
            return (rx.split_string(s, pat, n) is MARK and rx.split_string(s, pat) is MARK
                    and pat.calls == [('split', s, n), ('split', s, 0)])
        if which == 'replace':
            return (rx.replace(pat, s, t, n) is MARK and rx.replace(pat, s, t) is MARK
                    and pat.calls == [('sub', t, s, n), ('sub', t, s, 0)])
        if which == 'replace_string':
            return (rx.replace_string(s, pat, t, n) is MARK and rx.replace_string(s, pat, t) is MARK
                    and pat.calls == [('sub', t, s, n), ('sub', t, s, 0)])
        raise ValueError(which)
    return H.done(guarded(run))


def rx_module(s: str, p: str, a: bool, b: bool, c: bool, found: bool) -> bool:
    """
    pre: len(s) <= 2 and len(p) <= 2
    post: _
    """
    # the functions that use the module-level `re`: by dispatch, with the module global swapped for a recording stub
    which = H.P('which')
    m = make_match('w', 0, 1, None, 0, 0, None, 0, 0, 0, False, False)
    stub = StubRe(found=m if found else None)
    saved = rx.re
    rx.re = stub
    try:
        if which == 'matches_':
            ok = yq.outcome('$s.matches($p)', s=s, p=p) == ('ok', found)
            calls = [('search', p, s, 0)]
        elif which == 'op_match_str':
            ok = yq.outcome('$s =~ $p', s=s, p=p) == ('ok', found)
            calls = [('search', p, s, 0)]
        elif which == 'op_not_match_str':
            ok = yq.outcome('$s !~ $p', s=s, p=p) == ('ok', not found)
            calls = [('search', p, s, 0)]
        elif which == 'escape':
            ok = yq.outcome('escapeRegex($s)', s=s) == ('ok', 'MARK')
            calls = [('escape', s)]
        elif which == 'compile':
            flags = REAL.UNICODE | (REAL.IGNORECASE if a else 0) | (REAL.MULTILINE if b else 0) | (REAL.DOTALL if c else 0)
            r1 = yq.outcome('regex($p, ignoreCase => $a, multiLine => $b, dotAll => $c)', p=p, a=a, b=b, c=c)
            r2 = yq.outcome('regex($p, $a, $b, $c)', p=p, a=a, b=b, c=c)
            r3 = yq.outcome('regex($p)', p=p)
            ok = r1[0] == r2[0] == r3[0] == 'ok' and r1[1] is MARK_RE and r2[1] is MARK_RE and r3[1] is MARK_RE
            calls = [('compile', p, flags), ('compile', p, flags), ('compile', p, int(REAL.UNICODE))]
        else:
            raise ValueError(which)
        ok = ok and len(stub.calls) == len(calls) and all(
            len(x) == len(y) and all(u == v for u, v in zip(x, y)) for x, y in zip(stub.calls, calls))
    except StubLimit:
        H.note('stub_limit')
        ok = True
    finally:
        rx.re = saved
    return H.done(ok)


def rx_is_regex(v: Optional[str], n: int) -> bool:
    """
    pre: small(v)
    post: _
    """
    return H.done(yq.outcome('isRegex($v)', v=v) == ('ok', False) and yq.outcome('isRegex($v)', v=n) == ('ok', False)
                  and yq.outcome('isRegex(regex("a"))') == ('ok', True) and yq.outcome('isRegex($v)', v=MARK_RE) == ('ok', True))


# ---------------------------------------------------------------------------------------------------------------
# real `re`, by dispatch: concrete pattern family x every subject over a small alphabet (enumerated by the solver; each
# path runs concretely - CrossHair's own model of re.Match is not used: it mis-reports start() of unmatched groups)

ALPHA = 'ab\nA'
FAMILY = ['a.', '(a)(b)?', '(?P<x>a)(?P<yy>b)?', '(?P<x>b)|a', '^a|(b)$', '', '(?P<x>a*)']
TEMPLATES = ['', 'xy', '[\\g<0>]', '\\1']
FLAGSETS = [(a, b, c) for a in (False, True) for b in (False, True) for c in (False, True)]


def qlit(p):
    return '"' + p.replace('\\', '\\\\').replace('"', '\\"').replace('\n', '\\n') + '"'


def rec(m, i):
    return {'value': m.group(i), 'start': m.start(i), 'end': m.end(i)}


def sel_list(R):
    names = ['$%d' % i for i in range(1, R.groups + 3)] + ['$' + n for n in R.groupindex]
    text = '[' + ', '.join(names) + ']'

    def oracle(m):
        out = [rec(m, i) for i in range(0, R.groups + 1)] + [None]
        return out + [rec(m, n) for n in R.groupindex]
    return text, oracle


def sel_text(R):
    parts = ['"<"', '$1.value', 'str($1.start)', 'str($1.end)']
    for i in range(1, R.groups + 1):
        parts += ['"|"', 'str($%d.value)' % (i + 1), 'str($%d.end)' % (i + 1)]
    for n in R.groupindex:
        parts += ['"/"', 'str($%s.value)' % n, 'str($%s.start)' % n]
    parts.append('">"')

    def ystr(v):
        return 'null' if v is None else str(v)

    def oracle(m):
        out = '<' + m.group() + str(m.start()) + str(m.end())
        for i in range(1, R.groups + 1):
            out += '|' + ystr(m.group(i)) + str(m.end(i))
        for n in R.groupindex:
            out += '/' + ystr(m.group(n)) + str(m.start(n))
        return out + '>'
    return ' + '.join(parts), oracle


def py(fn):
    try:
        return ('ok', fn())
    except Exception as e:
        return ('err', type(e).__name__)


def real_cases(P):
    """{registry key: [(uses_selector, yaql text, variables, oracle outcome thunk)]} for pattern P, subject bound later"""
    R = REAL.compile(P, REAL.UNICODE)
    L = qlit(P)
    sl_text, sl_or = sel_list(R)
    st_text, st_or = sel_text(R)
    out = {}

    def add(key, sel, text, oracle, **vars_):
        out.setdefault(key, []).append((sel, text, vars_, oracle))
    add('regex.search@search', False, 'regex(%s).search($s)' % L,
        lambda s, v: (lambda m: None if m is None else m.group())(R.search(s)))
    add('regex.search@search', True, 'regex(%s).search($s, %s)' % (L, sl_text),
        lambda s, v: (lambda m: None if m is None else sl_or(m))(R.search(s)))
    add('regex.search@search', True, 'regex(%s).search($s, $.start)' % L,
        lambda s, v: (lambda m: None if m is None else m.start())(R.search(s)))
    add('regex.search_all@searchAll', False, 'regex(%s).searchAll($s)' % L, lambda s, v: [m.group() for m in R.finditer(s)])
    add('regex.search_all@searchAll', True, 'regex(%s).searchAll($s, %s)' % (L, sl_text),
        lambda s, v: [sl_or(m) for m in R.finditer(s)])
    add('regex.matches@matches', False, 'regex(%s).matches($s)' % L, lambda s, v: R.search(s) is not None)
    add('regex.matches_@matches', False, '$s.matches(%s)' % L, lambda s, v: R.search(s) is not None)
    add('regex.matches_operator_regex@#operator_=~', False, '$s =~ regex(%s)' % L, lambda s, v: R.search(s) is not None)
    add('regex.matches_operator_string@#operator_=~', False, '$s =~ %s' % L, lambda s, v: R.search(s) is not None)
    add('regex.not_matches_operator_regex@#operator_!~', False, '$s !~ regex(%s)' % L, lambda s, v: R.search(s) is None)
    add('regex.not_matches_operator_string@#operator_!~', False, '$s !~ %s' % L, lambda s, v: R.search(s) is None)
    add('regex.is_regex@isRegex', False, 'isRegex(regex(%s)) and not isRegex($s)' % L, lambda s, v: True)
    add('regex.escape_regex@escapeRegex', False, 'escapeRegex($s)', lambda s, v: REAL.escape(s))
    add('regex.escape_regex@escapeRegex', False, 'regex(escapeRegex($s)).searchAll($s)', lambda s, v: [s])
    for n in (0, 1, 2):
        add('regex.split@split', False, 'regex(%s).split($s, $n)' % L, lambda s, v: R.split(s, v['n']), n=n)
        add('regex.split_string@split', False, '$s.split(regex(%s), $n)' % L, lambda s, v: R.split(s, v['n']), n=n)
        add('regex.replace_by@replaceBy', True, 'regex(%s).replaceBy($s, %s, $n)' % (L, st_text),
            lambda s, v: R.sub(st_or, s, v['n']), n=n)
        add('regex.replace_by_string@replaceBy', True, '$s.replaceBy(regex(%s), %s, $n)' % (L, st_text),
            lambda s, v: R.sub(st_or, s, v['n']), n=n)
        for t in TEMPLATES:
            add('regex.replace@replace', False, 'regex(%s).replace($s, $t, $n)' % L,
                lambda s, v: R.sub(v['t'], s, v['n']), n=n, t=t)
            add('regex.replace_string@replace', False, '$s.replace(regex(%s), $t, $n)' % L,
                lambda s, v: R.sub(v['t'], s, v['n']), n=n, t=t)
    add('regex.split@split', False, 'regex(%s).split($s)' % L, lambda s, v: R.split(s))
    add('regex.split_string@split', False, '$s.split(regex(%s))' % L, lambda s, v: R.split(s))
    add('regex.replace@replace', False, 'regex(%s).replace($s, "-")' % L, lambda s, v: R.sub('-', s))
    add('regex.replace_string@replace', False, '$s.replace(regex(%s), "-")' % L, lambda s, v: R.sub('-', s))
    add('regex.replace_by@replaceBy', True, 'regex(%s).replaceBy($s, %s)' % (L, st_text), lambda s, v: R.sub(st_or, s))
    for a, b, c in FLAGSETS:
        fl = REAL.UNICODE | (REAL.IGNORECASE if a else 0) | (REAL.MULTILINE if b else 0) | (REAL.DOTALL if c else 0)
        add('regex.regex@regex', False,
            'regex(%s, ignoreCase => $a, multiLine => $b, dotAll => $c).searchAll($s)' % L,
            (lambda fl: lambda s, v: [m.group() for m in REAL.compile(P, fl).finditer(s)])(fl), a=a, b=b, c=c)
    return out, bool(R.groupindex)


_CASES = {}


def real_check(pi, s):
    """-> list of failing (key, text, vars, got, exp) for pattern FAMILY[pi] and concrete subject s"""
    if pi not in _CASES:
        _CASES[pi] = real_cases(FAMILY[pi])
    cases, named = _CASES[pi]
    bad = []
    for key, lst in cases.items():
        for sel, text, vars_, oracle in lst:
            in_class = named and sel
            if PROBE != in_class and (PROBE or K_NAMED in KNOWN):
                continue
            got = yq.outcome(text, s=s, **vars_)
            exp = py(lambda: oracle(s, vars_))
            if got != exp or (got[0] == 'ok' and type(got[1]) is not type(exp[1])):
                bad.append((key, text, vars_, got, exp))
    return bad


def in_alpha(s):
    return all(c in ALPHA for c in s)


def rx_real(s: str) -> bool:
    """
    pre: len(s) <= SLEN and in_alpha(s)
    pre: H.fresh(s)
    post: _
    """
    with H.NoTracing():
        s = H.deep_realize(s)
        ok = not real_check(H.P('pattern', 0), s)
    return H.done(ok)


HARNESSES = ['rx_publish', 'rx_search', 'rx_search_all', 'rx_replace_by', 'rx_plumb', 'rx_module', 'rx_is_regex', 'rx_real']

_B_STUB = ('payload called directly on stub re.Pattern/re.Match objects: every value the match reports is a free symbolic '
           'value (strings len <= 2 or None, unbounded ints), <= 2 groups, each optionally named; selector = a callable that '
           'reads $1..$4, $x, $yy, $zz, $ from the context it is given')
_B_PLUMB = 'payload called directly on a recording stub pattern; string/repl len <= 2, count/maxSplit unbounded int'
_B_MOD = ('by dispatch with the module global `re` of regex.py swapped for a recording stub; subject and pattern symbolic '
          'strings len <= 2, all flag combinations')


def _plumb(which):
    return dict(h='rx_plumb', conds=[{'param': {'which': which}, 'bounds': _B_PLUMB, 'timeout': 60}])


def _mod(which):
    return dict(h='rx_module', conds=[{'param': {'which': which}, 'bounds': _B_MOD, 'timeout': 90}])


SPECS = {
    'regex.regex@regex': dict(params='pattern ignore_case multi_line dot_all', **_mod('compile')),
    'regex.matches@matches': dict(params='regexp string', **_plumb('matches')),
    'regex.matches_@matches': dict(params='string regexp', **_mod('matches_')),
    'regex.matches_operator_regex@#operator_=~': dict(params='string regexp', **_plumb('op_match')),
    'regex.matches_operator_string@#operator_=~': dict(params='string pattern', **_mod('op_match_str')),
    'regex.not_matches_operator_regex@#operator_!~': dict(params='string regexp', **_plumb('op_not_match')),
    'regex.not_matches_operator_string@#operator_!~': dict(params='string pattern', **_mod('op_not_match_str')),
    'regex.search@search': dict(params='context regexp string selector', h='rx_search',
                                conds=[{'bounds': _B_STUB, 'timeout': 200}]),
    'regex.search_all@searchAll': dict(params='context regexp string selector', h='rx_search_all',
                                       conds=[{'bounds': _B_STUB + '; <= 2 matches, <= 1 group', 'timeout': 200}]),
    'regex.split@split': dict(params='regexp string max_split', **_plumb('split')),
    'regex.split_string@split': dict(params='string regexp max_split', **_plumb('split_string')),
    'regex.replace@replace': dict(params='regexp string repl count', **_plumb('replace')),
    'regex.replace_string@replace': dict(params='string regexp repl count', **_plumb('replace_string')),
    'regex.replace_by@replaceBy': dict(params='context regexp string repl count', h='rx_replace_by',
                                       conds=[{'bounds': _B_STUB + '; <= 2 matches, <= 1 group, count in [0,3]',
                                               'timeout': 200, 'param': {'swap': False}}]),
    'regex.replace_by_string@replaceBy': dict(params='context string regexp repl count', h='rx_replace_by',
                                              conds=[{'bounds': _B_STUB + '; <= 2 matches, <= 1 group, count in [0,3]',
                                                      'timeout': 200, 'param': {'swap': True}}]),
    'regex.escape_regex@escapeRegex': dict(params='string', **_mod('escape')),
    'regex.is_regex@isRegex': dict(params='value', h='rx_is_regex',
                                   conds=[{'bounds': 'v: null | str len <= 2 | int | a compiled pattern', 'timeout': 60}]),
}


def extra_conditions(tier, known):
    quick = tier == 'quick'
    slen = 3 if quick else 4
    out = []
    t = 150 if quick else 900
    out.append({'name': 'publish_match[stub]', 'func': 'rx_publish', 'timeout': t, 'bounds': _B_STUB})
    keys = None
    for pi, P in enumerate(FAMILY):
        cases, named = real_cases(P)
        keys = set(cases)
        out.append({'name': 're-real[%r]' % P, 'func': 'rx_real', 'timeout': t if quick else 1800,
                    'param': {'pattern': pi, 'slen': slen},
                    'bounds': 'pattern %r (concrete) through the real re by dispatch, %d call forms of the %d regex '
                              'functions; subject: every string of len <= %d over the alphabet %r, enumerated by the '
                              'solver - each path is one concrete subject' % (P, sum(len(v) for v in cases.values()),
                                                                             len(cases), slen, ALPHA)})
    missing = sorted(k for k in SPECS if k not in keys)
    for k in missing:
        out.append({'name': 'uncovered-real[%s]' % k, 'func': 'h_uncovered', 'timeout': 5, 'twin': False,
                    'bounds': 'no real-re call form for this function'})
    if K_NAMED in known:
        for nm, fn in (('publish', 'rx_publish'), ('search', 'rx_search'), ('searchAll', 'rx_search_all'),
                       ('replaceBy', 'rx_replace_by')):
            out.append({'name': 'probe[named-groups,%s]' % nm, 'func': fn, 'timeout': 60, 'kind': 'probe',
                        'param': {'probe_key': K_NAMED}, 'bounds': 'stub match with at least one named group, selector given'})
        out.append({'name': 'probe[named-groups,real]', 'func': 'rx_real', 'timeout': 60, 'kind': 'probe',
                    'param': {'probe_key': K_NAMED, 'pattern': 2, 'slen': 2},
                    'bounds': 'pattern %r through the real re, selector forms only' % FAMILY[2]})
    return out


def classify(cond, vals):
    """replay helper: one-line description and key for a failing regex condition (None = not a regex condition)"""
    f = cond['func']
    if f not in HARNESSES:
        return None
    if f == 'rx_real':
        pi = (cond.get('param') or {}).get('pattern', 0)
        bad = real_check(pi, vals['s'])
        if not bad:
            return {'reproduced': False}
        key, text, vars_, got, exp = bad[0]
        named = bool(REAL.compile(FAMILY[pi]).groupindex)
        sel = any(x in text for x in ('$1', '$2', '$.start'))
        k = K_NAMED if (named and sel and got[0] == 'err') else 'C19/' + key
        return {'reproduced': True, 'key': k,
                'what': '%s with s=%r %r -> %r, Python re gives %r (%d call forms differ)' % (text, vals['s'], vars_, got, exp, len(bad))}
    ng, n1, n2 = vals.get('ng', 0), vals.get('n1', False), vals.get('n2', False)
    if f in ('rx_publish', 'rx_search', 'rx_search_all', 'rx_replace_by') and named_class(ng, n1, n2):
        m = make_match('ab', 0, 2, 'a', 0, 1, 'b', 1, 2, max(ng, 1), n1 or not n2, n2)
        try:
            rx._publish_match(contexts.Context(), m)
            err = 'no exception, wrong records'
        except Exception as e:
            err = repr(e)
        return {'reproduced': True, 'key': K_NAMED,
                'what': 'match with named group(s) %s: _publish_match -> %s (e.g. regex("(?P<x>a)").search("a", $x))'
                        % (sorted(m._names), err)}
    return {'reproduced': True, 'key': 'C19/regex/%s/%s' % (f, (cond.get('param') or {}).get('which', '')),
            'what': '%s fails for %r' % (cond['name'], vals)}


def validate():
    bad = []
    # the stub match must itself be consistent with a real match on an example (contract sanity)
    R = REAL.compile('(?P<x>a)(b)?')
    m = R.search('za')
    st = StubMatch((m.group(), m.start(), m.end()), [(m.group(i), m.start(i), m.end(i)) for i in (1, 2)], dict(R.groupindex))
    if not (st.groups() == m.groups() and st.groupdict() == m.groupdict() and st.start('x') == m.start('x')
            and st.span(2) == m.span(2) and st.regs == m.regs and st.group(0, 1) == m.group(0, 1)):
        bad.append('C19 StubMatch disagrees with a real re.Match')
    return bad
