"""C07 - expressions cannot reach host objects except through granted members.

Units run symbolically (real code): yaqlized._validate_name/_remap_name/_match_name_to_entry, yaqlization.yaqlize /
build_yaqlization_settings, the three access overloads (attribution, op_dot, indexation) through the real runner with
a symbolic member NAME, system.get_property / call_func fallbacks, and every registered function applied to a
non-yaqlized canary (registry sweep with symbolic selectors).  Plus z3 lemmas on the live lexer regexes.
"""
import re

import yaql
from yaql import yaqlization
from yaql.language import exceptions as yexc
from yaql.language import expressions as E
from yaql.language import specs, utils, yaqltypes
from yaql.standard_library import yaqlized as yz

from vf import h as H

ID = 'C07'
KNOWN = set(H.P('known', ()))
FUNCTIONS_ENCODED = ['yaql.standard_library.yaqlized._validate_name/_remap_name/_match_name_to_entry',
                     'yaql.standard_library.yaqlized.attribution/op_dot/indexation + Yaqlized.check',
                     'yaql.yaqlization.yaqlize/build_yaqlization_settings/get_yaqlization_settings',
                     'yaql.standard_library.system.get_property/call_func/op_dot', 'yaql.language.utils.is_keyword/'
                     'filter_parameters_dict', 'every FunctionDefinition of yaql.create_context() (registry sweep)',
                     'yaql.language.lexer t_KEYWORD_STRING / t_FUNC regexes (z3 lemma)']
BOUNDS = {'quick': 'member NAME: symbolic str len<=3 (any code points); whitelist/blacklist: symbolic subsets of a 6-entry menu '
                   '(strings, compiled regexes, predicate); 3 switches, remapping on/off, yaqlized or not; sweep: every '
                   '(definition, position) of the live registry reachable with a typed filler corpus',
          'thorough': 'same with NAME len<=4 and longer budgets'}
OUTSIDE = ['protocol methods CPython invokes through type slots without __getattribute__ (__str__, __eq__, __hash__, '
           '__bool__, __iter__ lookups)', 'remapping targets chosen by the host (an explicit grant)',
           'autoYaqlizeResult chains deeper than one step', 'remapping is not asserted for indexing (items, not attributes)']
ASSUMPTIONS = ['Python re is the oracle for regex whitelist entries (^a, b); CrossHair regex model believed only after replay',
               'the probe object answers every attribute/item so that any access is observable']
EXPLANATION = ('Symbolic member names and symbolic yaqlization settings are pushed through the real policy function and the '
               'three real access overloads on an instrumented probe object; z3 must prove on every path that the set of host '
               'member names touched equals what the policy admits (nothing for non-yaqlized objects, nothing starting with an '
               'underscore). A registry sweep applies every registered function to a non-yaqlized canary in every position.')
TECHNIQUE = 'bounded symbolic execution (CrossHair+z3) of the yaqlization policy and access overloads with symbolic names/settings; registry sweep with symbolic selectors; z3 regex lemma on the lexer; replay on CPython'

ENG = yaql.YaqlFactory().create()
ROOT = yaql.create_context()
SECRET = 'S3CR3T-MARKER'

# ---------------------------------------------------------------- policy menu
MENU = ['ab', '_a', re.compile('a'), (lambda n: n.startswith('b'))]
MENU_DESC = ["'ab'", "'_a'", "re.compile('a') (unanchored: entries are searched, not matched)", "lambda n: n.startswith('b')"]
NM = 1 << len(MENU)


def menu_match(k, name):
    return [name == 'ab', name == '_a', 'a' in name, name.startswith('b')][k]


def subset(mask):
    return [MENU[k] for k in range(len(MENU)) if (mask >> k) & 1]


def admitted(name, wl, bl):
    """the documented policy: no leading underscore; if a whitelist exists some entry must match; no blacklist entry matches"""
    if name.startswith('_'):
        return False
    if wl and not any(menu_match(k, name) for k in range(len(MENU)) if (wl >> k) & 1):
        return False
    if any(menu_match(k, name) for k in range(len(MENU)) if (bl >> k) & 1):
        return False
    return True


def policy(name: str, wl: int, bl: int, use_key_error: bool) -> bool:
    """
    pre: len(name) <= H.P('nlen', 3) and 0 <= wl < NM and 0 <= bl < NM
    pre: H.P('wlo', 0) <= wl < H.P('whi', NM)
    pre: H.fresh(name, wl, bl, use_key_error)
    post: _
    """
    settings = yaqlization.build_yaqlization_settings(whitelist=subset(wl), blacklist=subset(bl))
    exc = KeyError if use_key_error else AttributeError
    try:
        r = yz._validate_name(name, settings, exc)
        got = (r is None)
    except exc:
        got = False
    return H.done(got == admitted(name, wl, bl))


TARGETS = [('zz',), ('_t',), ('a',), ('',)]


def remap_blacklisted(t: int, as_tuple: bool, flag: bool) -> bool:
    """
    pre: 0 <= t < len(TARGETS)
    post: _
    """
    # build_yaqlization_settings blacklists every remapping target (so the host-side name cannot be used directly)
    target = TARGETS[t][0]
    value = (target, {}) if as_tuple else target
    s = yaqlization.build_yaqlization_settings(attribute_remapping={'n': value}, blacklist_remapped_attributes=flag)
    ok = (target in s['blacklist']) == bool(flag) and yz._remap_name('n', s) == value and yz._remap_name('m', s) == 'm'
    return H.done(ok)


# ---------------------------------------------------------------- the three access paths on a probe object
# attribute reads that CrossHair's own machinery performs on objects passing through intercepted calls (copy protocol,
# constructor interception); they are not accesses made by yaql
TOOL_NAMES = ('__reduce__', '__reduce_ex__', '__getstate__', '__setstate__', '__deepcopy__', '__copy__', '__init__',
              '__new__', '__getnewargs__', '__getnewargs_ex__', '__ch_realize__', '__ch_pytype__', '__ch_forget_contents__')


class Member:
    def __init__(self, log, name):
        self._log, self._name = log, name

    def __call__(self, *a, **k):
        self._log.append(('call', self._name, sorted(k)))
        return 'called'


def make_probe(log):
    class Probe:
        def __getattribute__(self, name):
            if name == '__yaqlization__':
                return object.__getattribute__(self, name)
            if name in ('__class__', '__dict__') or name in TOOL_NAMES or name.startswith('__ch_'):
                return object.__getattribute__(self, name)
            log.append(('attr', name))
            return Member(log, name)

        def __getitem__(self, key):
            log.append(('item', key))
            return SECRET

    class PlainProbe:
        """the same without an indexer of its own: `$o[NAME]` has nothing to reach"""
        __getattribute__ = Probe.__getattribute__
    with H.NoTracing():
        p = PlainProbe() if NOITEM else Probe()
    del log[:]      # (CrossHair's constructor interception looks up __init__; not an access by yaql)
    return p


def access_expr(path, name):
    o = E.GetContextValue(E.Constant('$o'))
    if path == 0:      # $o.NAME
        return E.BinaryOperator('.', o, E.KeywordConstant(name), None)
    if path == 1:      # $o.NAME(1, k => 2)
        return E.BinaryOperator('.', o, E.Function(name, E.Constant(1),
                                                   E.MappingRuleExpression(E.KeywordConstant('k'), E.Constant(2))), None)
    if path == 2:      # $o[NAME]
        return E.IndexExpression(o, E.Constant(name))
    if path == 3:      # call(NAME, [], {}, $o)
        return E.Function('call', E.Constant(name), E.ListExpression(), E.MapExpression(), o)
    raise ValueError(path)


NAMES = ['a', 'ab', 'b', 'c', 'ca', '_a', '__d__', 'zz', 'zm', '{0.secret}', '{0[secret]}{0.__class__}', '%(secret)s']
NAMEBOX = [(n,) for n in NAMES]
PATH = H.P('path', 0)
NOITEM = bool(H.P('noitem'))
BOX16 = [(i,) for i in range(16)]
MASKS = [(m,) for m in H.P('masks', [0, 1, 2, 4, 8])]


def access_core(name, path, wl, bl, sw, remap, yaqlized):
    log = []
    probe = make_probe(log)
    remapping = {'ab': 'zz', 'b': ('zm', {'k': 'kk'})} if remap else None
    if yaqlized:
        yaqlization.yaqlize(probe, yaqlize_attributes=bool(sw & 1), yaqlize_methods=bool(sw & 2),
                            yaqlize_indexer=bool(sw & 4), whitelist=subset(wl), blacklist=subset(bl),
                            attribute_remapping=remapping)
    ctx = ROOT.create_child_context()
    ctx['o'] = probe
    try:
        res = E.Statement(access_expr(path, name), ENG).evaluate(context=ctx)
        text = str(res)
    except Exception as e:
        text = str(e)
    if path == 3:
        expect = []
    else:
        switch = [bool(sw & 1), bool(sw & 2), bool(sw & 4)][path]
        ok_name = admitted(name, wl, bl)
        if remap and ok_name and name in ('zz', 'zm'):
            ok_name = False          # remapping targets are blacklisted by build_yaqlization_settings
        if not (yaqlized and switch and ok_name):
            expect = []
        elif path == 0 and remap and name == 'b':
            expect = []              # a (method, argument-mapping) remapping is not an attribute name: the access fails
        elif path == 2:
            expect = [] if NOITEM else [('item', name)]
        else:
            eff = name
            if remap and name == 'ab':
                eff = 'zz'
            if remap and name == 'b':
                eff = 'zm'
            expect = [('attr', eff)] + ([('call', eff, ['kk'] if (remap and name == 'b') else ['k'])] if path == 1 else [])
    leaked = SECRET in text and not (path == 2 and expect)
    if NOITEM and path == 2 and yaqlized and (sw & 1) and (sw & 4) and admitted(name, wl, bl) and not (
            remap and name in ('zz', 'zm', 'b')):
        # both the indexer and the attribute switch are on and the name is admitted: whether an index expression on an
        # object without an indexer may fall back to the attribute is not fixed by the policy
        return not leaked
    return log == expect and not leaked


def access_policy(n: int, wl: int, bl: int) -> bool:
    """
    pre: 0 <= n < len(NAMES) and 0 <= wl < len(MASKS) and 0 <= bl < len(MASKS)
    post: _
    """
    name, wl, bl = NAMEBOX[n][0], MASKS[wl][0], MASKS[bl][0]
    return H.done(access_core(name, PATH, wl, bl, 7, False, True))


def access_switch(n: int, sw: int, remap: bool, yaqlized: bool) -> bool:
    """
    pre: 0 <= n < len(NAMES) and 0 <= sw < 8
    post: _
    """
    name, sw = NAMEBOX[n][0], BOX16[sw][0]
    return H.done(access_core(name, PATH, 0, 0, sw, bool(remap), bool(yaqlized)))


# ---------------------------------------------------------------- autoYaqlizeResult grants the returned object only
def auto_yaqlize_scope(via: int, then: int, auto: bool) -> bool:
    """
    pre: 0 <= via < 3 and 0 <= then < 3
    post: _
    """
    via, then, auto = BOX16[via][0], BOX16[then][0], [(False,), (True,)][int(auto)][0]
    with H.NoTracing():
        log = []

        class Vault:
            def __init__(self, tag):
                object.__setattr__(self, 'tag', tag)

            def __getattribute__(self, name):
                if name in ('__class__', '__dict__', '__yaqlization__', 'tag') or name in TOOL_NAMES:
                    return object.__getattribute__(self, name)
                log.append((object.__getattribute__(self, 'tag'), 'attr', name))
                return Member([], name)

            def __getitem__(self, key):
                log.append((object.__getattribute__(self, 'tag'), 'item', key))
                return SECRET

        # the class itself carries a policy (decorator form): instances reached through an auto-yaqlizing owner keep it
        yaqlization.yaqlize(Vault, blacklist=['secret'])
        del Vault.__yaqlization__
        policy = bool(H.P('class_policy'))
        if policy:
            yaqlization.yaqlize(Vault, blacklist=['secret'], yaqlize_indexer=False)
        granted, other = Vault('granted'), Vault('other')

        class Owner:
            child = granted

            def get_child(self):
                return granted

            def __getitem__(self, key):
                return granted
        owner = Owner()
        yaqlization.yaqlize(owner, auto_yaqlize_result=auto)
        ctx = ROOT.create_child_context()
        ctx['o'], ctx['v'] = owner, other
        first = ['$o.child', '$o.get_child()', '$o[child]'][via]
        second = ['$v.secret', '$v.reveal()', '$v[secret]'][then]
        texts = []
        for t in (first, second, first + ['.secret', '.reveal()', '[secret]'][then]):
            try:
                texts.append(str(ENG(t).evaluate(context=ctx)))
            except Exception as e:
                texts.append(str(e))
        touched_other = [e for e in log if e[0] == 'other']
        touched_granted = [e for e in log if e[0] == 'granted']
        if policy:
            # every Vault is yaqlized by its class with 'secret' blacklisted and indexing off: neither hop may reach it
            ok = not [e for e in log if e[2] == 'secret' or e[1] == 'item'] and SECRET not in ''.join(texts)
            if ok and then == 1:
                ok = ('granted', 'attr', 'reveal') in log and ('other', 'attr', 'reveal') in log      # allowed member stays allowed
        else:
            ok = not touched_other and SECRET not in texts[1] and (bool(touched_granted) == auto)
    return H.done(ok)


# ---------------------------------------------------------------- registry sweep with a non-yaqlized canary
class Canary:
    """not yaqlized, not iterable by declaration, not callable; every attribute read and item read is logged"""
    log = []
    secret = SECRET

    def __getattribute__(self, name):
        if name not in ('__class__', '__dict__', '__yaqlization__'):
            Canary.log.append(('attr', name))
        return object.__getattribute__(self, name)

    def __getitem__(self, key):
        Canary.log.append(('item', key))
        if isinstance(key, int) and key > 2:
            raise IndexError(key)
        return SECRET


def _gen():
    yield 1
    yield 2


def fillers():
    lam = ENG('$')
    return [1, 'a', '{0.secret}{0[0]}', 2.5, True, None, (1, 2), ('a', 'b'), utils.FrozenDict({'a': 1}), frozenset([1]), _gen,
            re.compile('a'), ((1, 2), (3, 4))]


def visible_params(fd):
    ps = [p for p in fd.parameters.values() if not isinstance(p.value_type, yaqltypes.HiddenParameterType)]
    pos = sorted([p for p in ps if p.position is not None and p.name not in ('*',)], key=lambda p: p.position)
    return [p for p in pos if fd.parameters.get('*') is not p and fd.parameters.get('**') is not p]


def definitions():
    out = []
    c = ROOT
    while c is not None:
        fns = getattr(c, '_functions', {})
        for name in sorted(fns):
            for fd in sorted(fns[name], key=lambda f: (getattr(f.payload, '__module__', ''), getattr(f.payload, '__qualname__', ''), len(f.parameters))):
                out.append(fd)
        c = c.parent
    return out


def lazy_arg(p):
    return isinstance(p.value_type, yaqltypes.LazyParameterType)


def candidates(p, fl, ctx):
    """fillers the declared type of parameter p accepts (so that the call reaches the payload)"""
    out = []
    for v in fl:
        x = v() if (callable(v) and getattr(v, '__name__', '') == '_gen') else v
        try:
            if lazy_arg(p):
                ok = p.value_type.check(E.Constant(x), ctx, ENG)
            else:
                ok = p.value_type.check(x, ctx, ENG)
        except Exception:
            ok = False
        if ok:
            out.append(v)
    return out or fl


WRAPS = ['bare', 'in-list', 'in-pair-list', 'dict-value']


def wrap_canary(c, wrap):
    if wrap == 0:
        return c
    if wrap == 1:
        return (c,)
    if wrap == 2:
        return ((c, 1), (2, c))
    return utils.FrozenDict({'k': c})


def call_with_canary(fd, pos, fill_idx, wrap=0):
    """call definition fd through the real dispatch with the canary at visible position pos and, at the other
    positions, the (fill_idx)-th filler among those the declared parameter type accepts; -> (outcome text, log)"""
    import itertools
    params = visible_params(fd)
    canary = Canary()
    fl = fillers()
    ctx = ROOT.create_child_context()
    args = []
    for i, p in enumerate(params):
        if i == pos:
            v = wrap_canary(canary, wrap)
        else:
            c = candidates(p, fl, ctx)
            v = c[(fill_idx + i) % len(c)]
            if callable(v) and getattr(v, '__name__', '') == '_gen':
                v = v()
        if lazy_arg(p):
            v = E.Constant(v)      # lazy parameters receive an expression
        args.append(v)
    Canary.log = []
    try:
        if fd.is_method and not fd.is_function:
            res = ctx(fd.name, ENG, receiver=args[0])(*args[1:]) if args else None
        else:
            res = ctx(fd.name, ENG)(*args)
        if utils.is_iterator(res):
            res = list(itertools.islice(res, 20))       # bounded consumption of lazy results
        text = 'ok ' + ('canary' if isinstance(res, Canary) else repr(res)[:300])
    except (yexc.NoMatchingFunctionException, yexc.NoMatchingMethodException, yexc.NoFunctionRegisteredException,
            yexc.NoMethodRegisteredException) as e:
        text = 'nomatch'
    except Exception as e:
        text = 'err %s: %s' % (type(e).__name__, str(e)[:300])
    return text, list(Canary.log)


import resource
resource.setrlimit(resource.RLIMIT_AS, (8 << 30, 8 << 30))
if not H.P('driver'):
    DEFS = definitions()
    LO, HI = H.P('dlo', 0), H.P('dhi', 0)
    ROWS = [(d, p, w) for d in range(LO, min(HI, len(DEFS))) for p in range(max(1, len(visible_params(DEFS[d]))))
            for w in range(len(WRAPS))]
    ROWBOX = [(r,) for r in range(len(ROWS))]
    FILLBOX = [(f,) for f in range(12)]
    NFILL = H.P('nfill', 3)


def sweep_key(fd, pos):
    return 'C07/canary-reached-by/%s/%s#%d' % (fd.name, getattr(fd.payload, '__name__', '?'), pos)


def touched(log):
    return [e for e in log if e[0] == 'item' or (e[0] == 'attr' and not (e[1].startswith('__') and e[1].endswith('__')))]


def sweep(r: int, f: int) -> bool:
    """
    pre: 0 <= r < len(ROWS) and 0 <= f < NFILL
    post: _
    """
    row, fi = ROWBOX[r][0], FILLBOX[f][0]
    with H.NoTracing():
        d, pos, w = ROWS[row]
        fd = DEFS[d]
        text, log = call_with_canary(fd, pos, fi, w)
        bad = touched(log)
        ok = (not bad and SECRET not in text) or sweep_key(fd, pos) in KNOWN
    return H.done(ok)


def conditions(tier, seed):
    out = []
    nlen = 3 if tier == 'quick' else 4
    t = 200 if tier == 'quick' else 900
    for lo in range(0, NM, 2):
        out.append({'name': 'policy[wl=%d-%d]' % (lo, lo + 1), 'func': 'policy', 'timeout': t,
                    'param': {'nlen': nlen, 'wlo': lo, 'whi': lo + 2},
                    'bounds': 'name: any str len<=%d; whitelist subsets %d..%d and all %d blacklist subsets of the menu %s' % (
                        nlen, lo, lo + 1, NM, MENU_DESC)})
    out.append({'name': 'remap_blacklisted', 'func': 'remap_blacklisted', 'timeout': 100, 'bounds': 'target from zz,_t,a,empty; plain or (name, argmap) form; flag on/off'})
    forms = ['$o.NAME', '$o.NAME(1, k=>2)', '$o[NAME]', 'call(NAME, [], {}, $o)']
    for path in range(4):
        shards = [[0, 1, 2, 4, 8]] if tier == 'quick' else [[0, 1, 2, 4, 8], [3, 5, 6, 9, 10], [7, 11, 12, 13, 14, 15]]
        for si, masks in enumerate(shards):
            out.append({'name': 'access_policy[path=%d,masks=%d]' % (path, si), 'func': 'access_policy', 'timeout': t,
                        'param': {'path': path, 'masks': masks},
                        'bounds': 'NAME from %r through %s on a yaqlized probe; whitelist and blacklist masks from %s over the '
                                  'menu %s' % (NAMES, forms[path], masks, MENU_DESC)})
        out.append({'name': 'access_switch[path=%d]' % path, 'func': 'access_switch', 'timeout': t, 'param': {'path': path},
                    'bounds': 'NAME from %r through %s; 3 yaqlization switches, remapping on/off, yaqlized or not' % (NAMES, forms[path])})
    out.append({'name': 'access_switch[path=2,no-indexer]', 'func': 'access_switch', 'timeout': t, 'param': {'path': 2, 'noitem': True},
                'bounds': 'NAME from %r through $o[NAME] on a host object without __getitem__; 3 yaqlization switches, remapping '
                          'on/off, yaqlized or not: no member of the object is touched' % (NAMES,)})
    out.append({'name': 'auto_yaqlize_scope[class-policy]', 'func': 'auto_yaqlize_scope', 'timeout': 100, 'param': {'class_policy': True},
                'bounds': 'as auto_yaqlize_scope, the returned object\'s class is itself yaqlized with a blacklist and indexing off: '
                          'the class policy must survive the auto-yaqlizing hop'})
    out.append({'name': 'auto_yaqlize_scope', 'func': 'auto_yaqlize_scope', 'timeout': 100,
                'bounds': 'owner yaqlized with autoYaqlizeResult on/off returns a host object through attribute, method or index; a '
                          'second, never yaqlized instance of the same class is then accessed by attribute, method or index '
                          '(selectors; each path one concrete two-step history)'})
    from vf import param
    saved = dict(param.P)
    nd = len(definitions())
    step = 12
    for lo in range(0, nd, step):
        out.append({'name': 'sweep[defs=%d-%d]' % (lo, min(nd, lo + step) - 1), 'func': 'sweep', 'timeout': 300,
                    'param': {'dlo': lo, 'dhi': lo + step, 'nfill': 2 if tier == 'quick' else 12},
                    'bounds': 'definitions %d..%d of the live registry (%d in total) x every visible position x 4 wrappings of the canary x 2 (quick) / 12 '
                              '(thorough) type-compatible filler rotations; non-yaqlized canary; selectors only (each path one concrete call)' % (lo, min(nd, lo + step) - 1, nd)})
    for key in sorted(KNOWN):
        if key.startswith('C07/canary-reached-by/'):
            out.append({'name': 'probe[%s]' % key[len('C07/canary-reached-by/'):], 'func': 'probe_known', 'timeout': 60, 'kind': 'probe',
                        'param': {'probe_key': key}, 'bounds': 'the listed (function, position) with every filler rotation'})
    return out


def probe_known(f: int) -> bool:
    """
    pre: 0 <= f < 12
    post: _
    """
    fi = FILLBOX[f][0]
    key = H.P('probe_key')
    with H.NoTracing():
        ok = True
        for fd in DEFS:
            for pos in range(max(1, len(visible_params(fd)))):
                if sweep_key(fd, pos) == key:
                    text, log = call_with_canary(fd, pos, fi)
                    bad = [e for e in log if e[0] == 'item' or (e[0] == 'attr' and not (e[1].startswith('__') and e[1].endswith('__')))]
                    ok = ok and not bad and SECRET not in text
    return H.done(ok)


def lemmas(tier):
    """L(t_KEYWORD_STRING) and L(t_FUNC) contain no word starting with two underscores (z3, unbounded length)."""
    out = []
    try:
        import time
        import z3
        from props import sre2z3
        from yaql.language import lexer as ylex
        for rule, tail in (('t_KEYWORD_STRING', ''), ('t_FUNC', '(')):
            t0 = time.time()
            r = sre2z3.translate(getattr(ylex.Lexer, rule).__doc__, re.UNICODE | re.VERBOSE)
            x = z3.String('x')
            s = z3.Solver()
            s.set('timeout', 60000)
            s.add(z3.InRe(x, r), z3.PrefixOf(z3.StringVal('__'), x))
            res = str(s.check())
            wit = str(s.model()[x]) if res == 'sat' else None
            entry = {'name': 'no-dunder-%s' % rule, 'query': 'exists x in L(%s) with prefix "__"' % rule, 'result': res,
                     'expected': 'unsat' if rule == 't_KEYWORD_STRING' else 'sat-or-unsat', 'witness': wit,
                     'time_s': round(time.time() - t0, 3)}
            if rule == 't_KEYWORD_STRING':
                entry['ok'] = res == 'unsat'
                if res == 'sat':
                    # replay: does the real engine accept the witness as a keyword / member name?
                    w = wit.strip('"')
                    try:
                        st = ENG('$o.' + w)
                        entry['violation'] = {'key': 'C07/dunder-keyword-accepted', 'args': {'text': '$o.' + w},
                                              'what': 'the lexer accepts the member name %r (starts with two underscores)' % w}
                    except Exception:
                        pass
            else:
                entry['ok'] = True      # recorded: function-call tokens may start with __; calls only reach registered functions
            out.append(entry)
    except Exception as e:
        out.append({'name': 'no-dunder-keyword', 'query': 'sre2z3 unavailable: %s' % e, 'result': 'unknown', 'ok': False})
    return out


def replay(cond, args):
    f = cond['func']
    if f == 'policy':
        ok = policy(**args)
        name, wl, bl = args['name'], args['wl'], args['bl']
        return {'reproduced': not ok, 'key': 'C07/policy',
                'what': '_validate_name(%r) with whitelist %s blacklist %s: admitted=%s, policy says %s' % (
                    name, [MENU_DESC[k] for k in range(len(MENU)) if (wl >> k) & 1], [MENU_DESC[k] for k in range(len(MENU)) if (bl >> k) & 1],
                    not admitted(name, wl, bl), admitted(name, wl, bl))}
    if f == 'remap_blacklisted':
        ok = remap_blacklisted(**args)
        return {'reproduced': not ok, 'key': 'C07/remap-target-not-blacklisted', 'what': 'remapping %r' % (args,)}
    if f in ('access_policy', 'access_switch'):
        path = (cond.get('param') or {}).get('path', 0)
        name = NAMES[args['n']]
        full = dict(name=name, path=path, wl=args.get('wl', 0), bl=args.get('bl', 0), sw=args.get('sw', 7),
                    remap=args.get('remap', False), yaqlized=args.get('yaqlized', True))
        ok = access_core(**full)
        return {'reproduced': not ok, 'key': 'C07/access-path-%d' % path,
                'what': 'member access %s with %r touches host members the policy does not admit (or misses admitted '
                        'ones); menu %s' % (['$o.NAME', '$o.NAME(..)', '$o[NAME]', 'call(NAME,..,$o)'][path], full, MENU_DESC)}
    if f == 'auto_yaqlize_scope':
        ok = auto_yaqlize_scope(**args)
        return {'reproduced': not ok, 'key': 'C07/auto-yaqlize-leaks-to-other-instances',
                'what': 'after an autoYaqlizeResult owner returned one host object, a different, never yaqlized object of the same '
                        'class became reachable (or the returned one did not) for %r' % (args,)}
    if f in ('sweep', 'probe_known'):
        if f == 'probe_known':
            hits = []
            for fd in DEFS:
                for pos in range(max(1, len(visible_params(fd)))):
                    if sweep_key(fd, pos) == cond['param']['probe_key']:
                        text, log = call_with_canary(fd, pos, args['f'])
                        if [e for e in log if e[0] == 'item' or not e[1].startswith('__')] or SECRET in text:
                            hits.append((text, log))
            return {'reproduced': bool(hits), 'key': cond['param']['probe_key'], 'what': 'canary reached: %r' % (hits[:1],)}
        d, pos, w = ROWS[args['r']]
        fd = DEFS[d]
        text, log = call_with_canary(fd, pos, args['f'], w)
        bad = touched(log)
        return {'reproduced': bool(bad) or SECRET in text, 'key': sweep_key(fd, pos),
                'what': 'function %s (%s) with a NON-yaqlized host object (%s) in position %d: host members touched %r, outcome %s' % (
                    fd.name, getattr(fd.payload, '__qualname__', '?'), WRAPS[w], pos, bad[:4], text[:120])}
    return {'reproduced': False, 'error': 'no replay for ' + f}
