"""Registry sweep machinery for C08: enumerate every FunctionDefinition reachable from yaql.create_context(), every
parameter that accepts an iterator, and call it - through the real dispatch - with an instrumented endless source.

Everything here is plain Python; the harness (props/c08.py) supplies the symbolic limit N and lambda threshold k.
"""
import datetime
import re

import yaql
from yaql.language import contexts, exceptions as yexc, utils, yaqltypes, specs

BUDGET = 12          # sentinel after this many pulls (max N is 4: N + 8)


class BudgetExhausted(Exception):
    """the instrumented source was pulled more often than any limit in range allows"""


class Source:
    """endless instrumented iterator: counts pulls, raises the sentinel after BUDGET pulls (and remembers it, in
    case the library swallows the exception)"""

    def __init__(self, kind='int', budget=BUDGET):
        self.kind = kind
        self.pulls = 0
        self.budget = budget
        self.blown = False

    def __iter__(self):
        return self

    def __next__(self):
        if self.pulls >= self.budget:
            self.blown = True
            raise BudgetExhausted('%d pulls' % self.pulls)
        i = self.pulls
        self.pulls += 1
        k = self.kind
        if k == 'int':
            return i
        if k == 'str':
            return 's%d' % i
        if k == 'pair':
            return (i, i)
        if k == 'list':
            return (i, i + 1)
        if k == 'dict':
            return utils.FrozenDict({'a': i, 'b': 's%d' % i})
        raise ValueError(k)


ELEMENT_KINDS = ['int', 'str', 'pair', 'list', 'dict']


def all_contexts(ctx):
    while ctx is not None:
        yield ctx
        ctx = ctx.parent


def definitions(ctx):
    """[(layer index, FunctionDefinition)] in a deterministic order"""
    out = []
    for li, c in enumerate(all_contexts(ctx)):
        fns = getattr(c, '_functions', None)
        if not fns:
            continue
        for name in sorted(fns):
            for fd in sorted(fns[name], key=lambda f: (getattr(f.payload, '__module__', ''), getattr(f.payload, '__qualname__', ''),
                                                         len(f.parameters), repr(sorted(f.parameters)))):
                out.append((li, fd))
    return out


def _gen():
    yield 1


def visible_params(fd):
    """non-hidden parameters: (positional in call order, keyword-only)"""
    pos, kw = [], []
    for key, p in fd.parameters.items():
        if isinstance(p.value_type, yaqltypes.HiddenParameterType) or key == '**':
            continue
        (kw if p.position is None else pos).append((key, p))
    pos.sort(key=lambda kp: kp[1].position)
    return pos, kw


def accepts_iterator(p, ctx, eng):
    try:
        return bool(p.value_type.check(_gen(), ctx, eng))
    except Exception:
        return False


def is_lazy(p):
    return isinstance(p.value_type, yaqltypes.LazyParameterType)


CORPUS = [1, 'a', (1, 2), utils.FrozenDict({'a': 1}), True, frozenset([1]), 1.5,
          datetime.timedelta(seconds=1), datetime.datetime(2020, 1, 1, tzinfo=datetime.timezone.utc),
          re.compile('a'), None]


def filler(p, ctx, eng, lam):
    """a value of the typed corpus that the parameter's type admits (lambda positions get `lam`)"""
    if isinstance(p.value_type, yaqltypes.Lambda):
        return True, lam
    if is_lazy(p):
        return False, None
    for v in CORPUS:
        try:
            if p.value_type.check(v, ctx, eng):
                return True, v
        except Exception:
            pass
    return False, None


def fd_label(fd):
    pay = fd.payload
    return '%s<%s.%s>' % (fd.name, getattr(pay, '__module__', '?').split('.')[-1], getattr(pay, '__name__', '?'))


def cases(ctx, eng):
    """every (definition, position accepting an iterator); position key '*' = first variadic argument"""
    out = []
    seen = set()
    for li, fd in definitions(ctx):
        pos, kw = visible_params(fd)
        for key, p in pos + kw:
            if not accepts_iterator(p, ctx, eng):
                continue
            label = '%s/%s' % (fd_label(fd), p.name)
            n = 2
            base = label
            while label in seen:
                label = '%s~%d' % (base, n)
                n += 1
            seen.add(label)
            out.append({'label': label, 'fd': fd, 'key': key, 'lazy': is_lazy(p)})
    return out


def build_call(case, ctx, eng, source, lam, fill_optional=False):
    """-> (receiver, args, kwargs) or None when some required parameter has no corpus value"""
    fd, key = case['fd'], case['key']
    pos, kw = visible_params(fd)
    args, kwargs = [], {}
    keys = [k for k, _ in pos]
    src_index = keys.index(key) if key in keys else -1
    for i, (k, p) in enumerate(pos):
        if k == key:
            args.append(source)
        elif k == '*':
            continue
        elif p.default is specs.NO_DEFAULT:
            ok, v = filler(p, ctx, eng, lam)
            if not ok:
                return None
            args.append(v)
        elif i < src_index:
            args.append(p.default)          # optional parameter in front of the source: its own default, explicitly
        elif fill_optional:
            ok, v = filler(p, ctx, eng, lam)
            if not ok:
                break
            args.append(v)
        else:
            break                           # everything after the first omitted optional parameter is optional
    for k, p in kw:
        name = p.alias or p.name
        if k == key:
            kwargs[name] = source
        elif p.default is specs.NO_DEFAULT:
            ok, v = filler(p, ctx, eng, lam)
            if not ok:
                return None
            kwargs[name] = v
    receiver = utils.NO_VALUE
    if not fd.is_function and fd.is_method:
        if not args:
            return None
        receiver, args = args[0], args[1:]
    return receiver, tuple(args), kwargs


def census_max_len(v, depth=0):
    """largest collection length at any depth of a finalised result"""
    if isinstance(v, dict):
        m = len(v)
        for k, x in v.items():
            m = max(m, census_max_len(k, depth + 1), census_max_len(x, depth + 1))
        return m
    if isinstance(v, (list, tuple, set, frozenset)):
        m = len(v)
        for x in v:
            m = max(m, census_max_len(x, depth + 1))
        return m
    return 0


class ReIterable:
    """host-supplied lazy collection: iterable, but neither an iterator nor sized (a result-set / stream object)"""

    def __init__(self, src):
        self.src = src

    def __iter__(self):
        return self.src


def run_case(case, ctx, eng, kind, lam, fill_optional=False, direct=False):
    """one call + finalisation.  Returns dict(pulls, blown, outcome, maxlen).  kind 'int', 'str', ...; with the suffix
    '@re' the endless source is handed over as a re-iterable, unsized host object instead of an iterator"""
    kind, _, present = kind.partition('@')
    src = Source(kind)
    call = build_call(case, ctx, eng, ReIterable(src) if present == 're' else src, lam, fill_optional)
    if call is None:
        return None
    receiver, args, kwargs = call
    fd = case['fd']
    child = ctx.create_child_context()
    outcome, maxlen = 'ok', 0
    try:
        if direct:
            a = args if receiver is utils.NO_VALUE else (receiver,) + args
            res = fd.get_delegate(receiver, eng, child, a, dict(kwargs))()
        else:
            res = child(fd.name, eng, receiver)(*args, **kwargs)
        fin = child('#finalize', eng)(res)
        maxlen = census_max_len(fin)
    except (yexc.NoMatchingFunctionException, yexc.NoMatchingMethodException, yexc.AmbiguousFunctionException,
            yexc.AmbiguousMethodException) as e:
        outcome = 'nomatch'
    except yexc.CollectionTooLargeException:
        outcome = 'toolarge'
    except BudgetExhausted:
        outcome = 'budget'
    except Exception as e:
        outcome = 'exc:' + type(e).__name__
    return {'pulls': src.pulls, 'blown': src.blown, 'outcome': outcome, 'maxlen': maxlen}
