"""C09 - evaluation has no side effects on host data, context or statement.

For every FunctionDefinition of the live registry and every parameter that accepts a list/dict/set, a statement
applies the function to a MUTABLE host container whose contents are symbolic, with yaql.convertInputData on and off
(symbolic bool).  Frame conditions are checked by a structural heap fingerprint taken outside the tracer.
"""
from vf import h as H
from vf import yq
from props import c09_lib as L
from props import c11_lib as R
from yaql.language import contexts as ycontexts

ID = 'C09'
KNOWN = set(H.P('known', ()))
TEXT = H.P('text', '$.insert(0, 5)')
KIND = H.P('kind', 'list')

FUNCTIONS_ENCODED = [
    'yaql.language.expressions.Statement.evaluate/__call__', 'yaql.language.utils.convert_input_data/convert_output_data',
    'yaql.language.runner.call/choose_overload', 'yaql.language.specs.FunctionDefinition.get_delegate (child context per call)',
    'yaql.language.yaqltypes.Lambda.convert (child context per lambda call)',
    'every payload of the live registry that has a parameter accepting a list/dict/set (collections, queries, system, '
    'common, strings, math, regex, ...)', 'yaql.standard_library.system.let/with_/unpack/def_/send_context',
    'yaql.standard_library.regex.search/search_all/replace_by (_publish_match)']
BOUNDS = {
    'quick': 'host container: list [x0,x1][:n], dict {a:x0,b:x1} (first n keys), set {x0,x1} (values in [0,1]), n in 0..2, '
             'x0,x1 unbounded symbolic ints; convertInputData symbolic bool; one condition per (function of the '
             'collections/queries/system modules, parameter accepting the container, container kind); operators, literal '
             'constructors and context-writing constructs from a fixed list; histories: 3 evaluations selected from a '
             'pool of 8 statements on one shared context',
    'thorough': 'same over every function of the live registry, plus containers nested once ([[x0,x1],[x1]], '
                '{a:[x0,x1], b:{a:x1}})'}
OUTSIDE = ['host objects other than list/dict/set/tuple of ints', 'yaql.convertOutputData = False (aliasing is then by '
           'design)', 'functions reading the clock or a random source (no collection parameter)',
           'the other positions of a call are filled from a typed corpus, not symbolic']
ASSUMPTIONS = ['the heap fingerprint walks yaql objects (slots/__dict__), builtin containers, function closures/defaults/'
               '__dict__; foreign objects (compiled regexes, ply tables) count by identity',
               'yaql.limitIterators = 30 so endless results end with an exception',
               'equality of two results is Python == on the finalised data']
EXPLANATION = ('Bounded symbolic execution (CrossHair+z3) of real statements that apply each library function to a mutable '
               'host container with symbolic contents in both input-conversion modes. On every path: the deep snapshot of '
               'the host data is unchanged (returned or raised), the heap fingerprint of statement, engine and every '
               'context of the host chain is unchanged except `$` of the evaluation context, a second evaluation gives an '
               'equal outcome, and scribbling over the result leaves host data and context untouched (no aliasing).')
TECHNIQUE = 'bounded symbolic execution (CrossHair+z3) of the real evaluator + heap-fingerprint frame conditions; replay on CPython'

ENG_CONV = yq.FACTORY.create(options={'yaql.limitIterators': 30})
ENG_RAW = yq.FACTORY.create(options={'yaql.limitIterators': 30, 'yaql.convertInputData': False})


def _host_fn(x):
    return x


def make_host_parent():
    """the host's prepared context: a child of the standard context with a mutable variable and a function"""
    if H.P('bare') == 'empty':
        # a host context that has nothing but the host's own function: no finaliser, no standard library
        from yaql.language import contexts
        p = contexts.Context()
    elif H.P('bare'):
        # a hand-assembled host chain that has no '#finalize' / '#iter' function of its own
        import yaql
        p = yaql.create_context(finalizer=_host_fn).create_child_context()
    else:
        p = yq.ROOT.create_child_context()
    p['hv'] = [1, {'k': [2]}]
    p['hs'] = {7, 8}
    p.register_function(_host_fn, name='hostFn')
    return p


HOSTP = make_host_parent()


def build(kind, x0, x1, n):
    if kind == 'list':
        return [] if n == 0 else ([x0] if n == 1 else [x0, x1])
    if kind == 'dict':
        return {} if n == 0 else ({'a': x0} if n == 1 else {'a': x0, 'b': x1})
    if kind == 'set':
        return set() if n == 0 else ({x0} if n == 1 else {x0, x1})
    if kind == 'wdict':       # keys that are not keyword-shaped (call() filters such names out of its kwargs)
        return {} if n == 0 else ({'2nd': x0} if n == 1 else {'2nd': x0, '$r': x1})
    if kind == 'nlist':
        return [] if n == 0 else ([[x0, x1]] if n == 1 else [[x0, x1], [x1]])
    if kind == 'ndict':
        return {} if n == 0 else ({'a': [x0, x1]} if n == 1 else {'a': [x0, x1], 'b': {'a': x1}})
    raise ValueError(kind)


ENTRY = H.P('entry', 'statement')


def outcome(st, data, ctx):
    try:
        if ENTRY == 'interface':
            # the host-facing wrapper: YaqlInterface(host context, engine)(text, positional data, keyword data);
            # the host context gets nothing, not even the arguments
            from yaql import yaql_interface
            return ('ok', yaql_interface.YaqlInterface(ctx, st.engine)(str(st), data, extra=data))
        return ('ok', st.evaluate(data=data, context=ctx))
    except Exception as e:
        return ('err', type(e).__name__)


def same_outcome(a, b):
    if a[0] != b[0]:
        return False
    if a[0] == 'err':
        return a[1] == b[1]
    return deep_eq(a[1], b[1])


def deep_eq(a, b):
    if isinstance(a, ycontexts.ContextBase) and isinstance(b, ycontexts.ContextBase):
        # a statement such as `with($)` returns a context object: equal when of the same class with equal own variables
        return type(a) is type(b) and deep_eq(dict((k, a[k]) for k in a.keys()), dict((k, b[k]) for k in b.keys()))
    if isinstance(a, (list, tuple)):
        if not isinstance(b, (list, tuple)) or len(a) != len(b):
            return False
        for x, y in zip(a, b):
            if not deep_eq(x, y):
                return False
        return True
    if isinstance(a, dict):
        if not isinstance(b, dict) or len(a) != len(b):
            return False
        for k in a:
            if k not in b or not deep_eq(a[k], b[k]):
                return False
        return True
    if a is b:
        return True
    if isinstance(a, float) and isinstance(b, float) and a != a and b != b:
        return True
    return a == b


def light(ctx):
    """cheap fingerprint of ONE context object: its own variables (by identity), function names and flags"""
    return (type(ctx).__name__, id(ctx.parent), id(ctx.convention),
            tuple((k, id(v)) for k, v in ctx._data.items() if k != '$1'),
            tuple((k, tuple(sorted(id(f) for f in v))) for k, v in ctx._functions.items()),
            tuple(sorted(ctx._exclusive_funcs)))


STMTS = {}
BASE = {}


def deep_fp(text):
    """deep heap fingerprint of both statements, both engines and the host's prepared context chain (HOSTP and all its
    ancestors, i.e. the whole standard library registry)"""
    with H.NoTracing():
        if text not in STMTS:
            STMTS[text] = (yq.stmt(text, ENG_CONV), yq.stmt(text, ENG_RAW))
        return L.fingerprint(list(STMTS[text]) + [ENG_CONV, ENG_RAW] + L.context_chain(HOSTP))


def base_fp(text):
    """taken once per process, before the first evaluation of the statement"""
    if text not in BASE:
        BASE[text] = deep_fp(text)
    return BASE[text]


def check_statement(text, eng, host):
    """the five assertions of the property for one statement and one host container; returns a failure label or ''"""
    f0 = base_fp(text)
    st = yq.stmt(text, eng)
    ctx = HOSTP.create_child_context()          # the context handed to evaluate(): the nearest link of the host chain
    l0 = light(ctx)
    s0 = L.snap(host)
    sv = L.snap(HOSTP['hv'])
    o1 = outcome(st, host, ctx)
    if not L.unchanged(s0):
        return 'host data changed by the evaluation'
    o2 = outcome(st, host, ctx)
    if not L.unchanged(s0):
        return 'host data changed by the second evaluation'
    if not same_outcome(o1, o2):
        return 'second evaluation with equal data gave a different outcome'
    if light(ctx) != l0:
        return 'evaluation context changed (other than $)'
    if o1[0] == 'ok' and not H.P('bare'):      # (a chain without #finalize returns unconverted values by design)
        L.scribble(o1[1])
        if not L.unchanged(s0):
            return 'result aliases host data'
        if not L.unchanged(sv):
            return 'result aliases context data'
    if deep_fp(text) != f0:
        return 'statement/engine/context chain changed'
    return ''


def small_for(kind, x0, x1):
    if kind == 'set':
        return 0 <= x0 <= 1 and 0 <= x1 <= 1     # set elements are hashed, i.e. enumerated value by value by the tool
    if H.P('bounded', False):
        return 0 <= x0 <= 2 and 0 <= x1 <= 2     # the statement hashes/prints elements or raises on the sample
    return True


_SHADOW = {}
SHADOW_VALUES = ((3, 1), (0, 0))


def shadow_ok(conv):
    """the same five assertions on concrete sample documents, executed by CPython itself (outside the tracer), once per
    process and engine.  CrossHair 0.0.110 executes the in-place operators `|=` and `-=` on a real set as a rebinding
    (measured: the set object stays unchanged under tracing), so an in-place update of host data through them is
    invisible to the symbolic run; this concrete pass closes that hole for the operators, the symbolic pass covers
    the values."""
    if conv not in _SHADOW:
        with H.NoTracing():
            ok = True
            for a, b in SHADOW_VALUES:
                for n in (0, 1, 2):
                    try:
                        ok = ok and check_statement(TEXT, ENG_CONV if conv else ENG_RAW, build(KIND, a, b, n)) == ''
                    except Exception:
                        ok = False
            _SHADOW[conv] = ok
    return _SHADOW[conv]


def apply(x0: int, x1: int, n: int, conv: bool) -> bool:
    """
    pre: n in H.P('ns', (0, 1, 2))
    pre: small_for(KIND, x0, x1)
    pre: H.fresh(x0, x1, n, conv)
    post: _
    """
    if not shadow_ok(bool(conv)):
        return H.done(False)
    host = build(KIND, x0, x1, n)
    why = check_statement(TEXT, ENG_CONV if conv else ENG_RAW, host)
    return H.done(why == '')


# ------------------------------------------------------------------ histories on one shared context
POOL = ['let(x => $) -> $x', '$x', 'def(f, $ + 1) -> f()', 'f()',
        '[[1, 2], [1, 3]].groupBy($[0], $[1], [$[0], $[1].sum()])',       # old-style aggregator (key/values pair)
        '[[1, 2], [1, 3]].groupBy($[0], $[1], $.sum())',                   # new-style aggregator (values only)
        '[$, 1].unpack(x, y) -> [$x, $y, $1]', 'with($, 2) -> $2',
        "regex('(a)').search('a', $1.value + $2.value)", '[$1, $2, $y]']
_SOLO = {}


def solo(i):
    if i not in _SOLO:
        _SOLO[i] = outcome(yq.stmt(POOL[i], ENG_RAW), 5, HOSTP.create_child_context())
    return _SOLO[i]


def history(i1: int, i2: int, i3: int) -> bool:
    """
    pre: 0 <= i1 < H.P('npool', len(POOL)) and 0 <= i2 < H.P('npool', len(POOL)) and 0 <= i3 < H.P('npool', len(POOL))
    pre: i1 == H.P('first', i1)
    post: _
    """
    with H.NoTracing():
        seq = [int(i1), int(i2), int(i3)]
        for i in range(len(POOL)):
            solo(i)
        if 'history' not in BASE:
            BASE['history'] = L.fingerprint(L.context_chain(HOSTP))
        ctx = HOSTP.create_child_context()
        l0 = light(ctx)
        ok = True
        for i in seq:
            got = outcome(yq.stmt(POOL[i], ENG_RAW), 5, ctx)
            if not same_outcome(got, solo(i)) or light(ctx) != l0:
                ok = False
        if L.fingerprint(L.context_chain(HOSTP)) != BASE['history']:
            ok = False
    return H.done(ok)


# ------------------------------------------------------------------ catalogue
FIXED = [
    # operators with collection overloads, literal constructors, indexer, member access
    ('list', '$ + $'), ('list', '$ + [9]'), ('list', '[9] + $'), ('list', '$ * 2'), ('list', '2 * $'), ('list', '1 in $'),
    ('list', '$ = $'), ('list', '$ != [1]'), ('list', '[$, $]'), ('list', '{a => $}'), ('list', '$[0]'), ('list', '$[-1]'),
    ('list', 'not $'), ('list', '$ and $'), ('list', '$ or [1]'), ('list', '$.select($)'), ('list', '$?.len()'),
    ('dict', '$ + $'), ('dict', '$ + {c => 1}'), ('dict', '{c => 1} + $'), ('dict', '$.a'), ('dict', '$[a]'), ('dict', '$[b, 0]'),
    ('dict', '[$, $]'), ('dict', '{a => $}'), ('dict', '$ = $'), ('dict', 'a in $.keys()'),
    ('set', '$ < $'), ('set', '$ <= set(1)'), ('set', '$ > set()'), ('set', '$ >= $'), ('set', '$ = $'), ('set', '1 in $'),
    ('set', '[$, $]'),
    ('ndict', '$.a'), ('ndict', '$.a + [9]'), ('ndict', '$.b.set(a, 1)'), ('nlist', '$[0]'), ('nlist', '$.select($.len())'),
    ('nlist', '$.len()'), ('nlist', '$[0].insert(0, 9)'), ('nlist', '$ + $[0]'), ('nlist', '$.flatten()'),
    ('ndict', '$.mergeWith({a => [7]})'), ('wdict', 'call(len, [[1, 2]], $)'), ('wdict', '$.len()'), ('ndict', '$.set(a, 1)'), ('ndict', '$.values()'), ('ndict', '$.items()'),
    # context-writing constructs
    ('list', 'let(x => $) -> $x'), ('list', 'let($, y => $) -> [$1, $y]'), ('list', 'with($) -> $1'),
    ('list', '$.unpack() -> [$1, $2]'), ('list', '$.unpack(x, y) -> $x'), ('list', 'def(f, $) -> f()'),
    ('list', 'let(d => $) -> def(f, $d.insert(0, $1)) -> f(5)'), ('list', 'let(x => $) -> def(f, $x) -> let(x => 1) -> f()'),
    ('list', '$.select(let(x => $) -> $x)'), ('dict', 'let(x => $) -> $x.set(c, 1)'), ('dict', 'with($) -> $1.a'),
    ('list', "regex('a').search('a', $)"), ('list', "regex('a').searchAll('aa', $)"),
    ('list', "regex('a').replaceBy('a', $.len().toString())"), ('dict', "regex('(?P<g>a)').search('a', $)"),
    # the host's own context variable (never converted) used as an operand
    ('list', '$hv.insert(0, $)'), ('list', '$hv + $'), ('list', '$hv[1].set(z, $)'), ('list', '$hv[1].k.append(1)'),
    ('list', '$hs.add(3)'), ('list', '$hv.select($)'), ('list', '[$hv, $hs]'), ('dict', '$hv[1] + $'),
    ('list', 'hostFn($)'), ('list', 'hostFn($hv)'),
]
QUICK_MODULES = ('yaql.standard_library.collections', 'yaql.standard_library.queries', 'yaql.standard_library.system')
QUICK_KINDS = ('list', 'dict', 'set')


def generated(tier):
    defs = R.all_definitions()
    out = []
    seen = set()
    for name, fds in defs.items():
        for fd in fds:
            mod = fd.payload.__module__
            if tier == 'quick' and mod not in QUICK_MODULES:
                continue
            done_labels = set()
            for label, kind, spelling, text, bounded in L.templates_for(fd, kinds=QUICK_KINDS if tier == 'quick' else None):
                if tier == 'quick':
                    # quick: one container kind per parameter - the first of list/dict/set its type accepts
                    if kind not in QUICK_KINDS or label in done_labels:
                        continue
                    done_labels.add(label)
                key = (text, kind)
                if key in seen:
                    continue
                seen.add(key)
                out.append((name, mod.rsplit('.', 1)[-1], label, kind, text, bounded))
    return out


QUICK_FIXED = {'$ + $', '[9] + $', '$ + [9]', '$ + {c => 1}', '$ * 2', '1 in $', '$ = $', '[$, $]', '{a => $}', '$[0]', '$ and $', '$.select($)',
               '{c => 1} + $', '$.a', '$[b, 0]', '$ < $', '$ >= $', 'let(x => $) -> $x', 'let($, y => $) -> [$1, $y]',
               'with($) -> $1', '$.unpack(x, y) -> $x', 'def(f, $) -> f()', 'let(d => $) -> def(f, $d.insert(0, $1)) -> f(5)',
               'let(x => $) -> def(f, $x) -> let(x => 1) -> f()', '$.select(let(x => $) -> $x)',
               "regex('a').search('a', $)", "regex('(?P<g>a)').search('a', $)", '$hv.insert(0, $)', '$hv[1].set(z, $)',
               '$hv[1].k.append(1)', '$hs.add(3)', '[$hv, $hs]', 'hostFn($hv)'}


QUICK_ALWAYS = {('wdict', 'call(len, [[1, 2]], $)'), ('ndict', '$.mergeWith({a => [7]})'), ('ndict', '$.a + [9]'), ('nlist', '$[0].insert(0, 9)')}


def conditions(tier, seed):
    quick = tier == 'quick'
    t = 120 if quick else 300
    ns = [0, 2] if quick else [0, 1, 2]
    out = []
    for text in ('$.select($).len()', 'let(x => $) -> $x.len()', '($ + [9]).len()', '$hv.insert(0, $).len()'):
        out.append({'name': 'fixed-bare[%s | list]' % text, 'func': 'apply', 'timeout': t,
                    'param': {'text': text, 'kind': 'list', 'ns': ns, 'bounded': False, 'bare': True},
                    'bounds': '%s with $ = host list, evaluated in a child of a hand-assembled host context chain without '
                              '#finalize; the chain must stay unchanged' % text})
    out.append({'name': 'fixed-empty[hostFn(1) | list]', 'func': 'apply', 'timeout': t,
                'param': {'text': 'hostFn(1)', 'kind': 'list', 'ns': ns, 'bounded': False, 'bare': 'empty'},
                'bounds': 'hostFn(1) evaluated in a child of a context that holds nothing but the host function (no finaliser, no '
                          'library): the child and the chain keep exactly their variables and functions'})
    for kind, text in FIXED:
        if quick and (kind not in QUICK_KINDS or text not in QUICK_FIXED) and (kind, text) not in QUICK_ALWAYS:
            continue
        bounded = L.needs_bounds(text, kind, HOSTP)
        out.append({'name': 'fixed[%s | %s]' % (text, kind), 'func': 'apply', 'timeout': t,
                    'param': {'text': text, 'kind': kind, 'ns': ns, 'bounded': bounded},
                    'bounds': '%s with $ = %s, n in %s, x0,x1 %s, convertInputData symbolic' % (
                        text, L.KINDS[kind][1], ns, 'in [0,2]' if bounded else 'unbounded')})
    for name, mod, label, kind, text, bounded in generated(tier):
        if quick and (R.stable_hash(text) + seed) % 2 != 0:
            continue                                   # quick: a deterministic 1/2 sample of the core modules
        out.append({'name': 'fn[%s | %s]' % (text, kind), 'func': 'apply', 'timeout': t,
                    'param': {'text': text, 'kind': kind, 'ns': ns, 'bounded': bounded},
                    'bounds': '%s (%s.%s parameter %s) with $ = %s, n in %s, x0,x1 %s, convertInputData symbolic'
                              % (text, mod, name, label, L.KINDS[kind][1], ns,
                                 'in [0,2] (elements are hashed/printed or the call raises)' if bounded else 'unbounded')})
    for kind, text in (('list', '$.select($).len() + $extra.len()'), ('dict', '$.keys().len() + $extra.len()'),
                       ('list', 'let(x => $) -> $x.len()'), ('set', '$.len()'), ('list', '$hv.insert(0, $extra).len()')):
        out.append({'name': 'interface[%s | %s]' % (text, kind), 'func': 'apply', 'timeout': t,
                    'param': {'text': text, 'kind': kind, 'ns': ns, 'bounded': kind == 'set', 'entry': 'interface'},
                    'bounds': 'YaqlInterface(host context, engine)(%r, host %s, extra => the same): host data, host context and '
                              'the chain unchanged, result not aliased; n in %s' % (text, kind, ns)})
    npool = 6 if quick else len(POOL)
    for first in range(npool):
        out.append({'name': 'history[%d,*,*]' % first, 'func': 'history', 'timeout': t,
                    'param': {'first': first, 'npool': npool},
                    'bounds': 'sequences of 3 statements selected by symbolic indices from a pool of %d (first fixed per '
                              'shard) evaluated on ONE shared context with data 5: every outcome equals the outcome on a '
                              'fresh context and the context chain is unchanged; concrete runs per path' % npool})
    return out


def validate():
    """the snapshot and fingerprint machinery must notice real mutations and must be quiet on a pure statement"""
    bad = []
    host = [3, 1]
    s = L.snap(host)
    if not L.unchanged(s):
        bad.append('snapshot unstable')
    host.insert(0, 9)
    if L.unchanged(s):
        bad.append('snapshot misses list.insert')
    d = {'a': [1]}
    s = L.snap(d)
    d['a'].append(2)
    if L.unchanged(s):
        bad.append('snapshot misses nested append')
    ctx = HOSTP.create_child_context()
    f0 = deep_fp('$.len()')
    l0 = light(ctx)
    yq.stmt('$.len()', ENG_RAW).evaluate(data=[1], context=ctx)
    if deep_fp('$.len()') != f0 or light(ctx) != l0:
        bad.append('fingerprint not stable over a pure evaluation')
    ctx['zz'] = 1
    if light(ctx) == l0:
        bad.append('light fingerprint misses a context write')
    del ctx['zz']
    HOSTP['zz'] = 1
    if deep_fp('$.len()') == f0:
        bad.append('fingerprint misses a write into the host parent context')
    del HOSTP['zz']
    HOSTP['hv'][1]['k'].append(3)
    if deep_fp('$.len()') == f0:
        bad.append('fingerprint misses a write into a host variable')
    HOSTP['hv'][1]['k'].pop()
    STMTS['$.len()'][1].expression.args[0].zz = 1
    if deep_fp('$.len()') == f0:
        bad.append('fingerprint misses a write into the statement tree')
    del STMTS['$.len()'][1].expression.args[0].zz
    if deep_fp('$.len()') != f0:
        bad.append('fingerprint not restored')
    if check_statement('$.insert(0, 5)', ENG_RAW, [3, 1]) != '':
        bad.append('concrete insert flagged: ' + check_statement('$.insert(0, 5)', ENG_RAW, [3, 1]))
    return bad


def replay(cond, args):
    import props.c09 as me
    vals = dict(args)
    if cond['func'] == 'history':
        ok = me.history(**vals)
        if ok:
            return {'reproduced': False}
        return {'reproduced': True, 'key': 'C09/history',
                'what': 'sequence %r of %r on one shared context: an outcome differs from the fresh-context outcome or the '
                        'context chain changed' % ([vals[k] for k in ('i1', 'i2', 'i3')], POOL)}
    host = build(KIND, vals['x0'], vals['x1'], vals['n'])
    try:
        why = check_statement(TEXT, ENG_CONV if vals['conv'] else ENG_RAW, host)
    except Exception as e:
        return {'reproduced': True, 'key': 'C09/exception/%s' % type(e).__name__, 'what': '%s raised %r' % (TEXT, e)}
    if not why:
        return {'reproduced': False}
    return {'reproduced': True, 'key': 'C09/%s/%s' % (why.split()[0] + '-' + why.split()[1], TEXT),
            'what': '%s with $ = %r, convertInputData=%s: %s (host now %r)' % (
                TEXT, build(KIND, vals['x0'], vals['x1'], vals['n']), vals['conv'], why, host)}
