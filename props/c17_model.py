"""C17 helpers: flattened-layers reference model of context forests + topology catalogue.

Reference (from the property text): every context denotes an ordered list of LAYERS, nearest first; a layer is an ordered
list of primitive stores (one per plain Context that contributes to it).
  Context(parent)            -> [[own store]] + layers(parent)
  MultiContext(members)      -> layer d = concatenation of the members' layers d   (layer-wise merge)
  LinkedContext(parent, lnk) -> layers(lnk) + layers(parent)                        (linked chain, then own parent chain)
  x.create_child_context()   -> [[fresh store]] + layers(x)
Reads go nearest-first (first store that defines the name wins), membership / keys look at layer 0 only, writes go to the
first store of layer 0, function collection yields per layer the union of the stores' overload sets (empty layers
skipped) and stops after a layer in which some store registered the name exclusively.
"""
from yaql.language import contexts
from yaql.language import specs


def norm(name):
    """`$`, `$1` and the empty name are one variable; a leading `$` is optional"""
    if not name.startswith('$'):
        name = '$' + name
    return '$1' if name == '$' else name


class Store:
    def __init__(self, idx):
        self.idx = idx
        self.data = {}
        self.funcs = {}
        self.excl = set()


class Node:
    def __init__(self, kind, real, layers, nonplain_linked=False):
        self.kind = kind
        self.real = real
        self.layers = layers
        self.nonplain_linked = nonplain_linked     # LinkedContext whose linked context is not a plain Context (F12)

    # --- reference semantics
    def get(self, name):
        n = norm(name)
        for layer in self.layers:
            for st in layer:
                if n in st.data:
                    return st.data[n]
        return None

    def contains(self, name):
        n = norm(name)
        return any(n in st.data for st in self.layers[0])

    def keys(self):
        out = []
        for st in self.layers[0]:
            for k in st.data:
                if k not in out:
                    out.append(k)
        return out

    def get_functions(self, fname, pred=None):
        fs, ex = set(), False
        for st in self.layers[0]:
            fs |= set(f for f in st.funcs.get(fname, ()) if pred is None or pred(f))
            if fname in st.excl:
                ex = True
        return fs, ex

    def collect(self, fname, pred=None):
        res = []
        for layer in self.layers:
            fs, ex = set(), False
            for st in layer:
                fs |= set(f for f in st.funcs.get(fname, ()) if pred is None or pred(f))
                if fname in st.excl:
                    ex = True
            if fs:
                res.append(fs)
            if ex:
                break
        return res

    def has_function(self, fd):
        return any(fd in st.funcs.get(fd.name, ()) for st in self.layers[0])

    def first_store(self):
        return self.layers[0][0]

    def parent_view(self, k):
        """model of real.parent taken k times"""
        return Node('parent', None, self.layers[k:])


class Forest:
    """real contexts and their models, built side by side from a topology spec"""

    def __init__(self, steps):
        self.nodes = []
        self.stores = []
        for st in steps:
            self.add(st)

    def new_store(self):
        s = Store(len(self.stores))
        self.stores.append(s)
        return s

    def add(self, step):
        k = step[0]
        if k == 'ctx':
            parent = self.nodes[step[1]] if step[1] is not None else None
            real = contexts.Context(parent.real if parent else None)
            node = Node('ctx', real, [[self.new_store()]] + (parent.layers if parent else []))
        elif k == 'multi':
            members = [self.nodes[i] for i in step[1]]
            real = contexts.MultiContext([m.real for m in members])
            depth = max(len(m.layers) for m in members)
            layers = []
            for d in range(depth):
                layer = []
                for m in members:
                    if d < len(m.layers):
                        layer.extend(m.layers[d])
                layers.append(layer)
            node = Node('multi', real, layers)
        elif k == 'linked':
            parent = self.nodes[step[1]] if step[1] is not None else None
            linked = self.nodes[step[2]]
            real = contexts.LinkedContext(parent.real if parent else None, linked.real)
            node = Node('linked', real, linked.layers + (parent.layers if parent else []),
                        nonplain_linked=linked.kind != 'ctx')
        elif k == 'child':
            src = self.nodes[step[1]]
            real = src.real.create_child_context()
            node = Node('ctx', real, [[self.new_store()]] + src.layers)
        else:
            raise ValueError(step)
        self.nodes.append(node)
        return node


def count_stores(steps):
    return sum(1 for s in steps if s[0] in ('ctx', 'child'))


def make_fd(name, tag):
    def payload():
        return tag
    payload.__name__ = name
    fd = specs.get_function_definition(payload, name=name)
    fd.meta['tag'] = tag
    return fd


# ------------------------------------------------------------------ topology catalogue
# name -> steps;  node index = step index
TOPOLOGIES = {
    'chain3': [('ctx', None), ('ctx', 0), ('ctx', 1)],
    'multi2+child': [('ctx', None), ('ctx', None), ('multi', [0, 1]), ('child', 2)],
    'linked-chain': [('ctx', None), ('ctx', None), ('ctx', 1), ('linked', 0, 2)],            # tests/test_contexts
    'linked-multi': [('ctx', None), ('ctx', None), ('multi', [0, 1]), ('ctx', None), ('linked', 3, 2)],
    'multi-one-parent': [('ctx', None), ('ctx', 0), ('ctx', None), ('multi', [1, 2])],
    'multi-two-parents': [('ctx', None), ('ctx', 0), ('ctx', None), ('ctx', 2), ('multi', [1, 3])],
    'linked-chain+child': [('ctx', None), ('ctx', None), ('ctx', 1), ('linked', 0, 2), ('child', 3)],
    'linked-linked': [('ctx', None), ('linked', None, 0), ('ctx', None), ('linked', 2, 1)],
    'test-multi': [('ctx', None), ('ctx', 0), ('ctx', 1), ('ctx', None), ('ctx', 3), ('multi', [2, 4])],  # tests
    'multi-of-multi': [('ctx', None), ('ctx', None), ('ctx', None), ('multi', [0, 1]), ('multi', [3, 2])],
    'multi-of-linked': [('ctx', None), ('ctx', None), ('linked', 1, 0), ('ctx', None), ('multi', [2, 3])],
    'linked-no-parent': [('ctx', None), ('ctx', 0), ('linked', None, 1)],
    'child-of-multi-with-parent': [('ctx', None), ('ctx', 0), ('ctx', None), ('multi', [1, 2]), ('child', 3)],
    'linked-parent-multi': [('ctx', None), ('ctx', None), ('multi', [0, 1]), ('ctx', None), ('linked', 2, 3)],
    'multi3': [('ctx', None), ('ctx', None), ('ctx', None), ('multi', [0, 1, 2])],
    'diamond': [('ctx', None), ('ctx', 0), ('ctx', 0), ('multi', [1, 2])],
    'deep-linked': [('ctx', None), ('ctx', 0), ('ctx', None), ('ctx', 2), ('ctx', 3), ('linked', 1, 4)],
    'linked-of-child-of-multi': [('ctx', None), ('ctx', None), ('multi', [0, 1]), ('child', 2), ('ctx', None),
                                 ('linked', 4, 3)],
    'multi-of-children': [('ctx', None), ('child', 0), ('child', 0), ('multi', [1, 2]), ('child', 3)],
    'linked-over-linked-chain': [('ctx', None), ('ctx', 0), ('ctx', None), ('linked', 2, 1), ('ctx', None),
                                 ('linked', 4, 3)],
}
QUICK = ['chain3', 'multi2+child', 'linked-chain', 'linked-multi', 'multi-one-parent', 'linked-linked',
         'multi-two-parents', 'linked-chain+child', 'deep-linked']
