"""C13 - collection and query functions agree with their reference model.

Real code run symbolically: the full yaql dispatch (runner.call, choose_overload, map_args/get_delegate, the yaqltypes
checks and converters incl. Lambda wrappers and limit_iterable) of every function that
yaql.standard_library.queries.register and collections.register put into a context (enumerated at run time), the
payloads themselves, system.unpack/with_, utils.memorize, and the engine's real '#finalize'.

Every registered (name, payload) pair must have at least one *case* in props/c13_models.py; a pair without a case
becomes an `uncovered[...]` condition that can never be discharged (it shows up under `inconclusive` in the evidence).
"""
import itertools
from typing import List

from vf import h as H
from vf import yq
from props import c13_models as MD
from props.c13_models import CASES, LAMS, Env, Fail, Weak, M, F, fin, same, lt_null

ID = 'C13'
KNOWN = set(H.P('known', ()))
CASE = CASES.get(H.P('case'))
NAME = H.P('name')                       # yaql name under which the payload is called (aliases: filter, map, ...)
LAMSEL = H.P('lams') or {}
MODE = H.P('mode', 'api')
N = H.P('n', 2)                          # max len of $c
ND = H.P('nd', 2)                        # max len of $d
NONES = H.P('nones', 1)                  # how many null elements may be injected into $c
MARGIN = H.P('margin', 2)               # integer arguments range over [-len-MARGIN, len+MARGIN]
EMAX = H.P('emax', 2)                   # cases whose elements become dictionary keys: elements in 0..EMAX
PROBE = H.P('probe_key')

K_UNPACK = 'C13/unpack-lazy-first-element'
K_INSERT = 'C13/insert-negative-position-lazy-drops-value'

FUNCTIONS_ENCODED = [
    'yaql.language.runner.call/choose_overload', 'yaql.language.specs.FunctionDefinition.map_args/get_delegate',
    'yaql.language.yaqltypes (Iterable/Sequence/Lambda/PythonType/Keyword check+convert)',
    'yaql.language.utils.limit_iterable/memorize/convert_output_data/FrozenDict',
    'yaql.standard_library.queries.* (every function registered by queries.register, enumerated at run time)',
    'yaql.standard_library.collections.* (every function registered by collections.register)',
    'yaql.standard_library.system.unpack/with_/op_dot', "the engine's '#finalize' function"]
BOUNDS = {
    'quick': 'per registered function (one condition per case of props/c13_models.py): $c a list of unbounded ints, '
             'len <= 2 (len <= 1 for a second name of the same payload), with at most one null element injected at a '
             'symbolic position (only where the function is defined on null and the case is not path-heavy), presented '
             'as tuple AND as one-shot iterator on the same path; second collection $d len <= 2; integer arguments in '
             '[-len-1, len+1] inside the documented domain; lambda constants symbolic (unbounded) ints; elements that '
             'become dictionary keys in 0..1, key constants in -1..2; one lambda of the family per condition through '
             'the context call API (Python callables), and for a VERIF_SEED-rotated half of the lambda-taking functions '
             'a second lambda through YAQL text ($ > $k, $ mod 2 = $r, $ * $k, [$, $k], $1 + $2 ...); laws len <= 2 '
             '(set and thenBy laws: a rotated half); 2-operator pipelines: 3 first operators per run (rotated), the '
             'second chosen by a symbolic selector among a sixth of the %d lazy operators, len <= 2',
    'thorough': 'len($c) <= 3 (<= 4 for cheap functions without lambda), up to two nulls, integer arguments in '
                '[-len-2, len+2], dictionary-key elements in 0..2, every lambda of the family (diagonal combinations) '
                'through the call API and through YAQL text (len <= 2), laws len <= 3, all 2-operator pipeline pairs '
                '(call API) and a sixth of them for every second first operator through YAQL text, 3-operator pipelines '
                '(every second first operator, second and third among where/skip/distinct/insert) len <= 1'}
OUTSIDE = ['nested collections deeper than one level', 'non-integer elements other than null (strings, floats)',
           'generate/generateMany beyond 5 produced items', 'negative counts of skip/take/slice and zero slice length '
           '(undocumented: surface ValueError from islice)', 'negative list repetition counts, negative splitAt index',
           'sum/min/max/aggregate/accumulate of an empty collection without seed (result or error class undocumented)',
           'order of dict keys()/values()/items()', 'indexing a dict with a missing key / a list out of range',
           'legacy (pre-1.1.1) aggregator fallback of groupBy', 'mergeWith on values of different kinds']
ASSUMPTIONS = [
    'yaql scalar semantics inside lambdas (null-aware ordering, =, +, *, mod) are those checked by C15; the Python '
    'callables used through the call API implement the same functions',
    'a negative count of delete/replace/replaceMany means "through the end" (pinned by the repo tests test_delete, '
    'test_replace; the doc-string only defines [position, position+count))',
    'insert/insertMany at a negative position: only the weak law "input plus the value(s), input order preserved" is '
    'asserted (the doc-string does not define negative positions)',
    'splitWhere: an empty last part is accepted present or absent (doc-string silent)',
    'engine option yaql.limitIterators=100 is set so that a regression producing an endless result raises instead of '
    'hanging; the limit is never reached inside the bounds',
    'first/last/single on an input for which the doc-string promises StopIteration: only "an exception is raised" is '
    'asserted']
EXPLANATION = ('Bounded symbolic execution (CrossHair+z3) of the real dispatch and payload of every function registered '
               'by the collections and queries modules (enumerated from the live registry), on symbolic integer lists '
               'presented as tuple and as one-shot iterator, with symbolic integer arguments and lambda constants; the '
               'finalised result is compared per path with an independent model written from the doc-string. Model-free '
               'law conditions (stable sorted permutation, thenBy refines ties, groupBy partition, set algebra, '
               'persistent dict updates, ...) and 2-3 operator pipelines chosen by symbolic selectors complete it.')
TECHNIQUE = 'bounded symbolic execution (CrossHair+z3) of the real code vs reference models and laws; replay on CPython'


# ------------------------------------------------------------------------------------------------ shared pieces
def pres_tuple(t):
    return tuple(t)


def pres_iter(t):
    return iter(tuple(t))


PRES = {'tuple': pres_tuple, 'iter': pres_iter}


def mk_t(c, np, np2):
    return tuple(None if (n == np or n == np2) else x for n, x in enumerate(c))


def mkenv(c, d, np, np2, i, j, k, r, v, vn):
    return Env(mk_t(c, np, np2), tuple(d), i, j, k, r, None if vn else v, LAMSEL)


def finding_key(cs, e, pname):
    """class of a listed finding (or None) for running case cs on env e with presentation pname"""
    if cs['id'] == 'unpack.indexed' and pname == 'iter' and e.n >= 1:
        return K_UNPACK
    if cs['id'] == 'insert.iterator' and e.i < 0:
        return K_INSERT
    return None


def live_presentations(cs, e):
    out = []
    for pname in cs['pres']:
        fk = finding_key(cs, e, pname)
        if PROBE:
            if fk == PROBE:
                out.append(pname)
        elif fk is None or fk not in KNOWN:
            out.append(pname)
    return out


def bounds(c, d, np, np2, i, j, k, r, v, vn):
    cs = CASE
    uses = cs['uses']
    n = len(c)
    if n > (N if 'c' in uses else 0):
        return False
    if 'd' in uses:
        if len(d) > ND:
            return False
    elif len(d) != 0:
        return False
    with_null = cs['nones'] and NONES > 0 and 'c' in uses
    for lid in LAMSEL.values():
        if LAMS[lid].ints:
            with_null = False
    if with_null:
        if not (-1 <= np < n):
            return False
        if NONES > 1:
            if not (np2 == -1 or (0 <= np < np2 < n)):
                return False
        elif np2 != -1:
            return False
    elif np != -1 or np2 != -1:
        return False
    # (arguments a case does not use are never touched by the harness: left unconstrained, no branching on them)
    for name, val in (('i', i), ('j', j)):
        if name in uses and 'c' in uses and not cs['raw'] and not (-n - MARGIN <= val <= n + MARGIN):
            return False
    if cs['small']:
        for x in c:
            if not (0 <= x <= EMAX):
                return False
        for name, val in (('i', i), ('k', k), ('r', r)):
            if name in uses and not (-1 <= val <= EMAX + 1):
                return False
    if 'v' not in uses and vn:
        return False
    e = mkenv(c, d, np, np2, i, j, k, r, v, vn)
    for lid in LAMSEL.values():
        if LAMS[lid].dom is not None and not LAMS[lid].dom(e):
            return False
    if cs['dom'] is not None and not cs['dom'](e):
        return False
    if not live_presentations(cs, e):
        return False
    return True


def text_of(cs):
    t = cs['text'].replace('{name}', NAME or '')
    for slot, lid in LAMSEL.items():
        t = t.replace('{%s}' % slot, LAMS[lid].text)
    return t


def run_case(cs, e, pname):
    P = PRES[pname]
    try:
        if MODE == 'api':
            val = fin(cs['api'](e, P, NAME))
        else:
            text = text_of(cs)
            val = yq.ev(text, eng=MD.ENG, **MD.bind(cs, e, P, text))
        return ('ok', val)
    except Exception as ex:
        return ('err', type(ex).__name__)


def expected(cs, e):
    try:
        return ('ok', cs['ref'](e))
    except Fail:
        return ('fail',)


def agree(got, exp):
    if exp[0] == 'fail':
        return got[0] != 'ok'
    if got[0] != 'ok':
        return False
    if isinstance(exp[1], Weak):
        return bool(exp[1].pred(got[1]))
    return same(got[1], exp[1])


def check_case(cs, e):
    """-> (ok, failing presentation, got, expected)"""
    outs = [(pname, run_case(cs, e, pname)) for pname in live_presentations(cs, e)]
    exp = expected(cs, e)
    for pname, got in outs:
        if not agree(got, exp):
            return False, pname, got, exp
    return True, None, None, exp


def h_fn(c: List[int], d: List[int], np: int, np2: int, i: int, j: int, k: int, r: int, v: int, vn: bool) -> bool:
    """
    pre: bounds(c, d, np, np2, i, j, k, r, v, vn)
    pre: H.fresh(c, d, np, np2, i, j, k, r, v, vn)
    post: _
    """
    e = mkenv(c, d, np, np2, i, j, k, r, v, vn)
    return H.done(check_case(CASE, e)[0])


def h_uncovered(x: int) -> bool:
    """
    pre: False
    post: _
    """
    return H.done(False)


# ------------------------------------------------------------------------------------------------ laws (no model)
def nn(c, np):
    return tuple(None if n == np else x for n, x in enumerate(c))


def is_perm_by_index(rows, n):
    """rows carry their original index in the last column: every index 0..n-1 exactly once"""
    if len(rows) != n:
        return False
    for idx in range(n):
        cnt = 0
        for row in rows:
            if row[-1] == idx:
                cnt += 1
        if cnt != 1:
            return False
    return True


# one parsed statement evaluated on several inputs in turn: the result is that of the documented meaning on the current
# input, whatever the same statement was evaluated on before (the expected values are written out by hand)
def _group_model(rows, agg):
    groups = []
    for k, v in rows:
        for g in groups:
            if g[0] == k:
                g[1].append(v)
                break
        else:
            groups.append([k, [v]])
    return [[k, agg(k, vs)] for k, vs in groups]


REUSE = [
    # (text, [(data, expected)...]): inputs on which the aggregator is valid in the documented convention (it receives
    # the list of values) next to inputs on which only the pre-1.1.1 (key, values) convention works
    ('$.groupBy($[0], $[1], [$[0], $[1].sum()])',
     [([['x', 'a'], ['x', 'b'], ['y', 'c']], [['x', 'ab'], ['y', 'c']]),
      ([['x', [1, 2]], ['x', [3, 4]], ['y', [7]], ['y', [8, 9]]], [['x', [[1, 2], 7]], ['y', [[7], 17]]]),
      ([['x', 1], ['y', 2], ['x', 3]], [['x', 4], ['y', 2]]),
      ([], [])]),
    ('$.groupBy($[0], $[1], $.len())',
     [([['x', 1], ['x', 2], ['y', 3]], [['x', 2], ['y', 1]]),
      ([['x', [1]], ['y', [2]], ['y', [3]]], [['x', 1], ['y', 2]]),
      ([['k', 'v']], [['k', 1]]), ([], [])]),
    ('$.orderBy($[0]).select($[1])',
     [([[2, 'b'], [1, 'a']], ['a', 'b']), ([['b', 1], ['a', 2]], [2, 1]), ([[1, 1]], [1]), ([], [])]),
    ('$.toDict($[0], $[1]).delete(x)',
     [([['x', 1], ['y', 2]], {'y': 2}), ([['y', 3]], {'y': 3}), ([['x', 0]], {}), ([], {})]),
]
REUSE_BOX = [(n,) for n in range(4)]
_REUSE_STMTS = {}


def law_reuse(t: int, i: int, j: int, k: int) -> bool:
    """
    pre: 0 <= t < len(REUSE) and 0 <= i < 4 and 0 <= j < 4 and 0 <= k < 4
    post: _
    """
    tn, seq = REUSE_BOX[t][0], [REUSE_BOX[i][0], REUSE_BOX[j][0], REUSE_BOX[k][0]]
    with H.NoTracing():
        text, table = REUSE[tn]
        st = _REUSE_STMTS.get(tn)
        if st is None:
            st = _REUSE_STMTS[tn] = yq.ENG(text)        # held for the life of the process: its history grows path by path
        ok = True
        for n in seq:
            data, want = table[n]
            try:
                got = st.evaluate(data=data, context=yq.ROOT.create_child_context())
            except Exception as ex:
                got = repr(ex)
            ok = ok and got == want
    return H.done(ok)


def law_order(c: List[int], np: int, it: bool) -> bool:
    """
    pre: len(c) <= N and -1 <= np < len(c)
    post: _
    """
    desc = H.P('desc', False)
    keys = nn(c, np)
    rows = tuple((keys[n], n) for n in range(len(keys)))
    got = fin(M('orderByDescending' if desc else 'orderBy', pres_iter(rows) if it else rows, lambda t: t[0]))
    ok = isinstance(got, list) and is_perm_by_index(got, len(rows))
    if ok:
        for a, b in zip(got, got[1:]):
            ok = ok and same(a[0], keys[a[1]]) and same(b[0], keys[b[1]])
            lo, hi = (b[0], a[0]) if desc else (a[0], b[0])
            if lt_null(hi, lo):
                ok = False                      # not sorted
            elif not lt_null(lo, hi) and not a[1] < b[1]:
                ok = False                      # tie: original order must be kept (stability)
    return H.done(ok)


def law_thenby(c: List[int], d: List[int], it: bool) -> bool:
    """
    pre: len(c) <= N and len(d) == len(c)
    post: _
    """
    f1, f2 = H.P('first', 'orderBy'), H.P('then', 'thenBy')
    rows = tuple((c[n], d[n], n) for n in range(len(c)))
    alone = fin(M(f1, rows, lambda t: t[0]))
    got = fin(M(f2, M(f1, pres_iter(rows) if it else rows, lambda t: t[0]), lambda t: t[1]))
    ok = isinstance(got, list) and is_perm_by_index(got, len(rows)) and len(alone) == len(got)
    if ok:
        # thenBy refines ties only: the primary key sequence is the one of the primary ordering alone
        for a, b in zip(got, alone):
            ok = ok and a[0] == b[0]
        asc2 = f2 == 'thenBy'
        for a, b in zip(got, got[1:]):
            ok = ok and a[0] == c[a[2]] and a[1] == d[a[2]]
            if a[0] == b[0]:
                lo, hi = (a[1], b[1]) if asc2 else (b[1], a[1])
                if hi < lo:
                    ok = False
                elif hi == lo and not a[2] < b[2]:
                    ok = False
    return H.done(ok)


def law_group(c: List[int], np: int, k: int, it: bool) -> bool:
    """
    pre: len(c) <= N and -1 <= np < len(c)
    pre: H.P('key', 'gtk') == 'gtk' or all(0 <= x <= 2 for x in c)
    post: _
    """
    vals = nn(c, np)
    rows = tuple((vals[n], n) for n in range(len(vals)))
    kind = H.P('key', 'gtk')
    if kind == 'gtk':
        keyf = lambda t: t[0] is not None and t[0] > k          # noqa: E731
    else:
        keyf = lambda t: t[0]                                   # noqa: E731
    got = fin(M('groupBy', pres_iter(rows) if it else rows, keyf))
    ok = isinstance(got, list)
    members = []
    if ok:
        for g in got:
            ok = ok and isinstance(g, list) and len(g) == 2 and isinstance(g[1], list) and len(g[1]) > 0
            if not ok:
                break
            for row in g[1]:
                ok = ok and MD.same_scalar(keyf(row), g[0])     # every member carries the group's key
                members.append(row)
            for a, b in zip(g[1], g[1][1:]):
                ok = ok and a[1] < b[1]                         # encounter order inside the group
    if ok:
        ok = is_perm_by_index(members, len(rows))               # a partition of the input
        for a in members:
            ok = ok and same(a[0], vals[a[1]])
        for x, y in itertools.combinations(got, 2):
            ok = ok and not MD.same_scalar(x[0], y[0])          # keys pairwise distinct
            ok = ok and x[1][0][1] < y[1][0][1]                 # groups in order of first occurrence
    return H.done(ok)


def law_lists(c: List[int], np: int, i: int) -> bool:
    """
    pre: len(c) <= N and -1 <= np < len(c) and 0 <= i <= len(c) + 1
    pre: H.P('part', 'reverse') != 'reverse' or i == 0
    post: _
    """
    t = nn(c, np)
    ok = True
    for P in (pres_tuple, pres_iter):
        if H.P('part', 'reverse') == 'reverse':
            ok = ok and same(fin(M('reverse', M('reverse', P(t)))), list(t))
        else:
            ok = ok and same(fin(M('take', P(t), i)) + fin(M('skip', P(t), i)), list(t))
    return H.done(ok)


def law_split_enum(c: List[int], np: int, i: int, it: bool) -> bool:
    """
    pre: len(c) <= N and -1 <= np < len(c) and 0 <= i <= len(c) + 1
    post: _
    """
    t = nn(c, np)
    P = pres_iter if it else pres_tuple
    parts = fin(M('splitAt', P(t), i))
    ok = same(parts[0] + parts[1], list(t)) and len(parts[0]) == (i if i < len(t) else len(t))
    if i == 0:
        en = fin(M('enumerate', P(t)))
        ok = ok and len(en) == len(t) and same([p[0] for p in en], list(range(len(t))))
        ok = ok and same([p[1] for p in en], list(t))
    return H.done(ok)


def law_distinct(c: List[int], np: int, np2: int, it: bool) -> bool:
    """
    pre: len(c) <= N and -1 <= np < len(c) and (np2 == -1 or np < np2 < len(c))
    post: _
    """
    t = tuple(None if (n == np or n == np2) else x for n, x in enumerate(c))
    P = pres_iter if it else pres_tuple
    once = fin(M('distinct', P(t)))
    twice = fin(M('distinct', M('distinct', P(t))))
    ok = same(twice, once)
    for x in t:
        ok = ok and MD.count_in(once, x) == 1
    ok = ok and len(once) <= len(t) and same(fin(M('toSet', P(t))), set(once))
    return H.done(ok)


def law_sets(c: List[int], d: List[int]) -> bool:
    """
    pre: len(c) <= N and len(d) <= N
    post: _
    """
    a, b = frozenset(c), frozenset(d)
    part = H.P('part', 'a')
    if part == 'a':      # commutativity, inclusion-exclusion
        un, inter = fin(M('union', a, b)), fin(M('intersect', a, b))
        ok = un == fin(M('union', b, a)) and inter == fin(M('intersect', b, a))
        ok = ok and len(un) + len(inter) == len(a) + len(b)
    elif part == 'b':    # a = (a - b) + (a & b), disjoint
        diff, inter = fin(M('difference', a, b)), fin(M('intersect', a, b))
        ok = fin(M('union', frozenset(diff), frozenset(inter))) == set(a)
        ok = ok and len(fin(M('intersect', frozenset(diff), b))) == 0
    elif part == 'c':    # symmetric difference = union - intersection ; operator - is difference
        un, inter = M('union', a, b), M('intersect', a, b)
        ok = fin(M('symmetricDifference', a, b)) == fin(M('difference', un, inter))
        ok = ok and fin(F('#operator_-', a, b)) == fin(M('difference', a, b))
    else:                # subset order against union; strict = non-strict and different; converse operators
        un = fin(M('union', a, b))
        le, lt = F('#operator_<=', a, b), F('#operator_<', a, b)
        ok = isinstance(le, bool) and isinstance(lt, bool) and le == (un == set(b)) and lt == (le and a != b)
        ok = ok and F('#operator_>=', b, a) == le and F('#operator_>', b, a) == lt
    return H.done(ok)


def law_dict(c: List[int], d: List[int], k: int, v: int) -> bool:
    """
    pre: len(c) <= N and len(d) == len(c) and -1 <= k <= H.P('emax', 1) + 1
    pre: all(0 <= x <= H.P('emax', 1) for x in c)
    post: _
    """
    m = MD.FD(zip(c, d))
    before = dict(m)
    had = k in before
    upd = M('set', m, k, v)
    if H.P('part', 'set') == 'set':
        ok = fin(M('get', upd, k)) == v and fin(M('containsKey', upd, k)) is True
        ok = ok and fin(M('len', upd)) == len(before) + (0 if had else 1)
        for kk, vv in before.items():
            if kk != k:
                ok = ok and fin(M('get', upd, kk)) == vv              # other keys untouched
        ok = ok and dict(m) == before                                  # the receiver is not modified (persistence)
    else:
        dele = M('delete', upd, k)
        ok = fin(M('containsKey', dele, k)) is False and fin(dele) == fin(M('delete', m, k))
        ok = ok and fin(M('delete', m, k)) == dict((kk, vv) for kk, vv in before.items() if kk != k)
        ok = ok and dict(m) == before and fin(upd)[k] == v
    return H.done(ok)


def law_dict_roundtrip(c: List[int], d: List[int]) -> bool:
    """
    pre: len(c) <= N and len(d) == len(c)
    pre: all(0 <= x <= H.P('emax', 1) for x in c)
    post: _
    """
    m = MD.FD(zip(c, d))
    before = dict(m)
    # toDict . items = id ; dict(items) = id ; neutral elements of + and mergeWith
    ok = fin(F('dict', M('items', m))) == before
    ok = ok and fin(M('toDict', M('items', m), lambda p: p[0], lambda p: p[1])) == before
    ok = ok and fin(F('#operator_+', m, MD.FD())) == before and fin(M('mergeWith', m, MD.FD())) == before
    ok = ok and fin(M('mergeWith', m, m)) == before and fin(M('mergeWith', MD.FD(), m)) == before
    return H.done(ok)


def law_zip(c: List[int], d: List[int], it: bool) -> bool:
    """
    pre: len(c) <= N and len(d) <= N
    post: _
    """
    P = pres_iter if it else pres_tuple
    z = fin(M('zip', P(c), P(d)))
    zl = fin(M('zipLongest', P(c), P(d)))
    lo, hi = (len(c), len(d)) if len(c) <= len(d) else (len(d), len(c))
    ok = len(z) == lo and len(zl) == hi
    ok = ok and same([p[0] for p in z], list(c)[:lo]) and same([p[1] for p in z], list(d)[:lo])
    ok = ok and same(zl[:lo], z)
    return H.done(ok)


# ------------------------------------------------------------------------------------------------ pipelines
# (yaql text, call-API step, model over a python list); argument names are suffixed with the stage number in texts
OPS = [
    ('where($ > $k%d)', lambda x, a: M('where', x, lambda y: y > a['k']), lambda l, a: [y for y in l if y > a['k']]),
    ('select($ + $k%d)', lambda x, a: M('select', x, lambda y: y + a['k']), lambda l, a: [y + a['k'] for y in l]),
    ('skip($i%d)', lambda x, a: M('skip', x, a['i']), lambda l, a: l[a['i']:]),
    ('take($i%d)', lambda x, a: M('take', x, a['i']), lambda l, a: l[:a['i']]),
    ('distinct()', lambda x, a: M('distinct', x), lambda l, a: MD.uniq(l)),
    ('reverse()', lambda x, a: M('reverse', x), lambda l, a: l[::-1]),
    ('append($k%d)', lambda x, a: M('append', x, a['k']), lambda l, a: l + [a['k']]),
    ('takeWhile($ > $k%d)', lambda x, a: M('takeWhile', x, lambda y: y > a['k']),
     lambda l, a: list(itertools.takewhile(lambda y: y > a['k'], l))),
    ('skipWhile($ > $k%d)', lambda x, a: M('skipWhile', x, lambda y: y > a['k']),
     lambda l, a: list(itertools.dropwhile(lambda y: y > a['k'], l))),
    ('insert($i%d, $k%d)', lambda x, a: M('insert', x, a['i'], a['k']), lambda l, a: l[:a['i']] + [a['k']] + l[a['i']:]),
    ('delete($i%d)', lambda x, a: M('delete', x, a['i']), lambda l, a: l[:a['i']] + l[a['i'] + 1:]),
    ('replace($i%d, $k%d)', lambda x, a: M('replace', x, a['i'], a['k']),
     lambda l, a: l[:a['i']] + ([a['k']] if a['i'] < len(l) else []) + l[a['i'] + 1:]),
    ('orderBy($)', lambda x, a: M('orderBy', x, lambda y: y), lambda l, a: sorted(l)),
    ('memorize()', lambda x, a: M('memorize', x), lambda l, a: l),
    ('selectMany([$, $k%d])', lambda x, a: M('selectMany', x, lambda y: (y, a['k'])),
     lambda l, a: [z for y in l for z in (y, a['k'])]),
    ('accumulate($1 + $2)', lambda x, a: M('accumulate', x, lambda p, q: p + q),
     lambda l, a: list(itertools.accumulate(l))),
    ('toList()', lambda x, a: M('toList', x), lambda l, a: l),
    ('concat($c)', lambda x, a: M('concat', x, a['c']), lambda l, a: l + list(a['c'])),
]
NOPS = len(OPS)
BOUNDS['quick'] = BOUNDS['quick'] % NOPS
PIPE_NEEDS_NONEMPTY = {15}          # accumulate without seed is undefined on an empty input
S2SET = H.P('s2set') or list(range(NOPS))
S3SET = H.P('s3set') or list(range(NOPS))


def pipe_ref(sels, c, args):
    ref = list(c)
    for stage, s in enumerate(sels):
        if s in PIPE_NEEDS_NONEMPTY and len(ref) == 0:
            return None                 # outside the domain of the operator: nothing asserted on this path
        ref = OPS[s][2](ref, args[stage])
    return ref


def pipe_text(sels):
    parts = ['$c0']
    for stage, s in enumerate(sels):
        parts.append(OPS[s][0].replace('%d', str(stage + 1)))
    return '.'.join(parts)


def pipe_run(sels, c, args, P):
    if MODE == 'text':
        with H.NoTracing():
            text = pipe_text([int(s) for s in sels])
        kw = {'c0': P(c), 'c': tuple(c)}
        for stage, a in enumerate(args):
            kw['i%d' % (stage + 1)] = a['i']
            kw['k%d' % (stage + 1)] = a['k']
        return yq.ev(text, eng=MD.ENG, **kw)
    x = P(c)
    for stage, s in enumerate(sels):
        x = OPS[s][1](x, args[stage])           # the lazy intermediate goes straight into the next operator
    return fin(x)


def pipe_check(sels, c, i1, k1, i2, k2, i3, k3):
    args = [{'i': i1, 'k': k1, 'c': tuple(c)}, {'i': i2, 'k': k2, 'c': tuple(c)}, {'i': i3, 'k': k3, 'c': tuple(c)}]
    outs = []
    for pn in ('tuple', 'iter'):
        try:
            outs.append((pn, pipe_run(sels, c, args, PRES[pn])))
        except Exception as ex:
            outs.append((pn, ('raised', type(ex).__name__)))
    ref = pipe_ref(sels, c, args)
    if ref is None:
        return True, None, None, None
    for pn, got in outs:
        if not same(got, ref):
            return False, pn, got, ref
    return True, None, None, ref


def h_pipe(c: List[int], s2: int, s3: int, i1: int, k1: int, i2: int, k2: int, i3: int, k3: int) -> bool:
    """
    pre: len(c) <= N and s2 in S2SET
    pre: 0 <= i1 <= len(c) + min(1, H.P('imargin', 2)) and 0 <= i2 <= len(c) + H.P('imargin', 2)
    pre: (s3 in S3SET and 0 <= i3 <= len(c) + H.P('imargin', 2)) if H.P('depth', 2) >= 3 else (s3 == 0 and i3 == 0 and k3 == 0)
    pre: H.fresh(c, s2, s3, i1, k1, i2, k2, i3, k3)
    post: _
    """
    sels = [H.P('s1', 0), s2] + ([s3] if H.P('depth', 2) >= 3 else [])
    return H.done(pipe_check(sels, c, i1, k1, i2, k2, i3, k3)[0])


# ------------------------------------------------------------------------------------------------ conditions
def registry():
    """(yaqlName, payload name) of everything queries.register / collections.register put into a context, plus the
    two system functions the property anchors - read from the live modules"""
    from yaql.language import contexts, conventions
    from yaql.standard_library import queries, collections as ycoll, system

    class Recorder(contexts.Context):
        def __init__(self, *a, **kw):
            super().__init__(*a, **kw)
            self.seen = []

        def register_function(self, spec, *args, **kwargs):
            before = {(n, s) for n, ss in self._functions.items() for s in ss}
            super().register_function(spec, *args, **kwargs)
            for n, ss in self._functions.items():
                for s in ss:
                    if (n, s) not in before:
                        self.seen.append('%s/%s' % (n, getattr(s.payload, '__name__', '?')))

    rec = Recorder(convention=conventions.CamelCaseConvention())
    queries.register(rec)
    ycoll.register(rec)
    keys = list(dict.fromkeys(rec.seen))
    rec2 = Recorder(convention=conventions.CamelCaseConvention())
    system.register(rec2)
    keys += [k for k in dict.fromkeys(rec2.seen) if k in MD.EXTRA_KEYS]
    return keys


def lam_combos(cs, every):
    slots = sorted(cs['lams'])
    if not slots:
        return [{}]
    lists = [cs['lams'][s] for s in slots]
    if every:
        return [dict(zip(slots, combo)) for combo in itertools.product(*lists)]
    width = max(len(x) for x in lists)
    return [dict((s, l[n % len(l)]) for s, l in zip(slots, lists)) for n in range(width)]


def cond_for(key, cs, lams, mode, n, nd, nones, margin, timeout, twin=True, emax=2):
    name = key.split('/')[0]
    tag = ','.join('%s=%s' % kv for kv in sorted(lams.items()))
    bounds_txt = '%s via %s; len($c)<=%d%s%s; int arguments in [-len-%d,len+%d] within the documented domain%s; %s' % (
        key, 'context call API + #finalize' if mode == 'api' else 'YAQL text ' + repr(cs['text']), n,
        ', len($d)<=%d' % nd if 'd' in cs['uses'] else '',
        ', <=%d null element(s)' % nones if (cs['nones'] and nones) else ', no nulls', margin, margin,
        ', elements in 0..%d and key constants in -1..%d (dictionary keys)' % (emax, emax + 1) if cs['small'] else '',
        'presented as ' + '+'.join(cs['pres']))
    return {'name': 'fn[%s|%s|%s|%s]' % (key, cs['id'], tag, mode), 'func': 'h_fn', 'timeout': timeout, 'twin': twin,
            'param': {'case': cs['id'], 'name': name, 'lams': lams, 'mode': mode, 'n': n, 'nd': nd, 'nones': nones,
                      'margin': margin, 'emax': emax},
            'bounds': bounds_txt}


def conditions(tier, seed):
    quick = tier == 'quick'
    out = []
    keys = registry()
    seen_cases = set()
    ntext = 0
    for key in keys:
        cids = [cid for cid in MD.BY_KEY.get(key, [])]
        if not cids:
            out.append({'name': 'uncovered[%s]' % key, 'func': 'h_uncovered', 'timeout': 10, 'twin': False,
                        'bounds': 'registered function without a reference model: obligation cannot be discharged'})
            continue
        for cid in cids:
            cs = CASES[cid]
            alias = cid in seen_cases           # same payload under a second name (filter, map, limit, reduce)
            seen_cases.add(cid)
            combos = lam_combos(cs, every=False)
            has_lam = bool(cs['lams'])
            for cn, lams in enumerate(combos):
                if quick:
                    n, nd, t, margin = (1 if alias else 2), 2, 200, 1
                    nones = 1 if cs['cost'] == 1 else 0
                    if cs['cost'] >= 3 and 'd' in cs['uses'] and cid != 'join':
                        nd = 1
                    if cs['api'] is not None:
                        if cn == 0 or (cs['cost'] == 3 and cid.startswith('orderBy')):
                            # (orderBy: both key selectors - ties are only observable with the `$ mod 2` key)
                            out.append(cond_for(key, cs, lams, 'api', n, nd, nones, margin, t, emax=1))
                        elif has_lam and cs['text'] and cn == 1 and not alias and not cid.startswith('generate'):
                            # the second lambda of the family goes through YAQL text (yaql lambda, parser-level call);
                            # half of these per run, rotated by VERIF_SEED
                            ntext += 1
                            if ntext % 2 == seed % 2:
                                out.append(cond_for(key, cs, lams, 'text', n, 1 if cs['cost'] >= 3 else nd, 0, margin,
                                                    t, twin=False, emax=1))
                    elif cn == 0:
                        out.append(cond_for(key, cs, lams, 'text', n, nd, nones, margin, t, emax=1))
                else:
                    n = 3 if (has_lam or cs['cost'] >= 2 or 'd' in cs['uses']) else 4
                    nones = 2 if cs['cost'] < 2 else 1
                    margin = 2 if cs['cost'] < 3 else 1
                    if cs['api'] is not None:
                        out.append(cond_for(key, cs, lams, 'api', n, 2, nones, margin, 900))
                    if cs['text'] and (cs['api'] is None or cn == 0 or has_lam):
                        # YAQL text costs 2-5x the call API per path: len 2 (3 where there is no call-API variant)
                        tn = 3 if (cs['api'] is None and cs['cost'] < 2) else 2
                        out.append(cond_for(key, cs, lams, 'text', tn, 2 if cs['cost'] < 3 else 1, 1, margin, 900))
    # listed findings: probes restricted to the class
    if K_UNPACK in KNOWN:
        out.append({'name': 'probe[unpack-lazy-first-element]', 'func': 'h_fn', 'timeout': 90, 'kind': 'probe',
                    'param': {'case': 'unpack.indexed', 'name': 'unpack', 'lams': {}, 'mode': 'text', 'n': 3, 'nd': 0,
                              'nones': 0, 'probe_key': K_UNPACK},
                    'bounds': 'unpack() without names on a one-shot iterator of len 1..3'})
    if K_INSERT in KNOWN:
        out.append({'name': 'probe[insert-negative-position]', 'func': 'h_fn', 'timeout': 90, 'kind': 'probe',
                    'param': {'case': 'insert.iterator', 'name': 'insert', 'lams': {}, 'mode': 'api', 'n': 2, 'nd': 0,
                              'nones': 0, 'probe_key': K_INSERT},
                    'bounds': 'insert(position < 0, value) on a one-shot iterator, len <= 2'})
    # laws
    lt = 200 if quick else 900
    laws = [('law_order[asc]', 'law_order', {'desc': False}, 2), ('law_order[desc]', 'law_order', {'desc': True}, 2),
            ('law_group[gtk]', 'law_group', {'key': 'gtk'}, 2), ('law_group[id]', 'law_group', {'key': 'id'}, 2),
            ('law_lists[reverse]', 'law_lists', {'part': 'reverse'}, 2),
            ('law_lists[take+skip]', 'law_lists', {'part': 'takeskip'}, 2), ('law_split_enum', 'law_split_enum', {}, 2),
            ('law_distinct', 'law_distinct', {}, 2), ('law_zip', 'law_zip', {}, 2),
            ('law_dict[set]', 'law_dict', {'part': 'set', 'emax': 1 if quick else 2}, 2),
            ('law_dict[delete]', 'law_dict', {'part': 'delete', 'emax': 1 if quick else 2}, 2),
            ('law_dict_roundtrip', 'law_dict_roundtrip', {'emax': 1 if quick else 2}, 2),
            ('law_reuse', 'law_reuse', {}, 2)]
    for pn, part in enumerate('abcd'):
        if not quick or pn % 2 == seed % 2:
            laws.append(('law_sets[%s]' % part, 'law_sets', {'part': part}, 2))
    combos = [(f1, f2) for f1 in ('orderBy', 'orderByDescending') for f2 in ('thenBy', 'thenByDescending')]
    for cn, (f1, f2) in enumerate(combos):
        if not quick or cn % 2 == seed % 2:
            laws.append(('law_thenby[%s,%s]' % (f1, f2), 'law_thenby', {'first': f1, 'then': f2}, 2))
    for name, func, param, n in laws:
        n = n if (quick or func in ('law_sets', 'law_dict', 'law_thenby')) else n + 1
        out.append({'name': name, 'func': func, 'timeout': lt, 'param': dict(param, n=n),
                    'bounds': 'model-free law, symbolic int list(s) len <= %d (+ null where meaningful; dictionary keys '
                              'in a small range), tuple and one-shot iterator' % n})
    # pipelines: first operator fixed per condition, second (third) by symbolic selector
    halves = [list(range(0, NOPS, 2)), list(range(1, NOPS, 2))]
    if quick:
        # per run: two first operators x one third of the second operators, rotated by VERIF_SEED (thorough: all)
        for s1 in [s for s in range(NOPS) if s % 6 == seed % 6]:
            tn = (seed // 6 + s1) % 6
            sixth = list(range(tn, NOPS, 6))
            out.append({'name': 'pipe2[%s|sixth%d]' % (OPS[s1][0], tn), 'func': 'h_pipe', 'timeout': 200,
                        'param': {'s1': s1, 'depth': 2, 'mode': 'api', 'n': 2, 's2set': sixth, 'imargin': 0},
                        'bounds': '$c.%s.<op2>: op2 chosen by a symbolic selector among %s; len($c)<=2, symbolic int '
                                  'arguments and lambda constants; tuple and one-shot iterator; every intermediate '
                                  'consumed once; call API' % (OPS[s1][0], [OPS[x][0] for x in sixth])})
    else:
        thirds = [list(range(t, NOPS, 3)) for t in range(3)]
        small = [0, 2, 4, 9]                   # where skip distinct insert
        for s1 in range(NOPS):
            for tn, third in enumerate(thirds):
                out.append({'name': 'pipe2[%s|third%d|api]' % (OPS[s1][0], tn), 'func': 'h_pipe', 'timeout': 900,
                            'param': {'s1': s1, 'depth': 2, 'mode': 'api', 'n': 2, 's2set': third},
                            'bounds': '$c.%s.<op2>: op2 by symbolic selector among %s; len($c)<=2; call API'
                                      % (OPS[s1][0], [OPS[x][0] for x in third])})
            sixth = list(range(s1 % 6, NOPS, 6))
            if s1 % 2 == 0:
                out.append({'name': 'pipe2[%s|sixth%d|text]' % (OPS[s1][0], s1 % 6), 'func': 'h_pipe', 'timeout': 900,
                        'param': {'s1': s1, 'depth': 2, 'mode': 'text', 'n': 2, 's2set': sixth, 'imargin': 1},
                        'bounds': '$c.%s.<op2>: op2 by symbolic selector among %s; len($c)<=2; YAQL text built from '
                                  'the selectors' % (OPS[s1][0], [OPS[x][0] for x in sixth])})
            if s1 % 2 == 1:
                continue
            out.append({'name': 'pipe3[%s|*|*]' % OPS[s1][0], 'func': 'h_pipe', 'timeout': 900,
                        'param': {'s1': s1, 'depth': 3, 'mode': 'api', 'n': 1, 's2set': small, 's3set': small,
                                  'imargin': 1},
                        'bounds': '3-operator pipelines $c.%s.<op2>.<op3>, op2 and op3 by symbolic selectors among %s, '
                                  'len($c)<=1' % (OPS[s1][0], [OPS[x][0] for x in small])})
    return out


# ------------------------------------------------------------------------------------------------ validate / replay
DOC_EXAMPLES = [
    # (case, lambdas, env, expected)  -- from the doc-strings and yaql/tests (expectations of the repo, not of /repo's code)
    ('where', {'P': 'gt'}, dict(t=(1, 2, 3, 4, 5), k=3), [4, 5]),
    ('skip', {}, dict(t=(1, 2, 3, 4, 5), i=2), [3, 4, 5]),
    ('take', {}, dict(t=(1, 2, 3, 4, 5), i=4), [1, 2, 3, 4]),
    ('append', {}, dict(t=(1, 2, 3), v=4, k=5), [1, 2, 3, 4, 5]),
    ('distinct', {}, dict(t=(1, 2, 3, 1)), [1, 2, 3]),
    ('enumerate.start', {}, dict(t=(7, 8, 9), i=2), [[2, 7], [3, 8], [4, 9]]),
    ('single', {}, dict(t=(1, 2)), Fail),
    ('first', {}, dict(t=()), Fail),
    ('last', {}, dict(t=(0, 1, 2)), 2),
    ('selectMany', {'S': 'pair'}, dict(t=(0, 1), k=5), [0, 5, 1, 5]),
    ('range.step', {}, dict(i=4, j=1, r=-1), [4, 3, 2]),
    ('orderBy', {'K': 'id'}, dict(t=(4, 2, None, 3, 1)), [None, 1, 2, 3, 4]),
    ('orderByDescending', {'K': 'id'}, dict(t=(4, 2, 3, 1)), [4, 3, 2, 1]),
    ('thenByDescending.orderBy', {'K': 'par', 'S': 'id'}, dict(t=(3, 2, 1)), [2, 3, 1]),
    ('groupBy', {'K': 'par'}, dict(t=(1, 2, 3, 4)), [[1, [1, 3]], [0, [2, 4]]]),
    ('groupBy.aggregate', {'K': 'par', 'V': 'id', 'A': 'asum'}, dict(t=(1, 2, 3, 4)), [[1, 4], [0, 6]]),
    ('join', {'B': 'gt2', 'C': 'pair2'}, dict(t=(1, 2, 3, 4), u=(2, 5, 6)), [[3, 2], [4, 2]]),
    ('zip', {}, dict(t=(1, 2, 3), u=(4, 5)), [[1, 4], [2, 5]]),
    ('zipLongest.default', {}, dict(t=(1, 2, 3), u=(4, 5), v=100), [[1, 4], [2, 5], [3, 100]]),
    ('cycle', {}, dict(t=(1, 2), j=5), [1, 2, 1, 2, 1]),
    ('takeWhile', {'P': 'gt'}, dict(t=(5, 4, 1, 9), k=3), [5, 4]),
    ('skipWhile', {'P': 'gt'}, dict(t=(5, 4, 1, 9), k=3), [1, 9]),
    ('indexOf', {}, dict(t=(1, 2, 3, 2), v=2), 1),
    ('lastIndexOf', {}, dict(t=(1, 2, 3, 2), v=2), 3),
    ('indexOf', {}, dict(t=(1, 2, 3, 2), v=102), -1),
    ('slice', {}, dict(t=(1, 2, 3, 4, 5), i=2), [[1, 2], [3, 4], [5]]),
    ('splitWhere', {'P': 'mod'}, dict(t=(1, 2, 3, 4, 5), r=0), [[1], [3], [5]]),
    ('sliceWhere', {'P': 'mod'}, dict(t=(1, 3, 2, 5, 7), r=0), [[1, 3], [2], [5, 7]]),
    ('splitAt', {}, dict(t=(1, 2, 3, 4), i=1), [[1], [2, 3, 4]]),
    ('accumulate.seed', {'B': 'add2'}, dict(t=(1, 2, 3), i=100), [100, 101, 103, 106]),
    ('accumulate', {'B': 'add2'}, dict(t=(1, 2, 3)), [1, 3, 6]),
    ('aggregate.seed', {'B': 'add2'}, dict(t=(), i=1), 1),
    ('reverse', {}, dict(t=(1, 2, 3, 4)), [4, 3, 2, 1]),
    ('delete', {}, dict(t=(0, 1, 3, 4, 2), i=2, j=2), [0, 1, 2]),
    ('delete', {}, dict(t=(1, 2, 3, 4), i=1, j=-1), [1]),
    ('delete', {}, dict(t=(1, 2, 3, 4), i=0, j=0), [1, 2, 3, 4]),
    ('replace', {}, dict(t=(0, 1, 3, 4, 2), i=2, v=100, j=2), [0, 1, 100, 2]),
    ('replace', {}, dict(t=(1, 2, 3, 4), i=1, v=7, j=-1), [1, 7]),
    ('replaceMany', {}, dict(t=(0, 1, 3, 4, 2), i=2, u=(100, 200), j=2), [0, 1, 100, 200, 2]),
    ('insert.list', {}, dict(t=(0, 1, 3), i=2, v=2), [0, 1, 2, 3]),
    ('insert.iterator', {}, dict(t=(1, 2), i=100, v=7), [1, 2, 7]),
    ('insertMany', {}, dict(t=(0, 1, 3), i=2, u=(2, 22)), [0, 1, 2, 22, 3]),
    ('generate', {}, dict(i=0, j=10, r=2), [0, 2, 4, 6, 8]),
    ('generateMany', {}, dict(i=0, j=0, r=0), [0, 1, 2, 3, 4]),
    ('generateMany', {}, dict(i=0, j=0, r=1), [0, 1, 3, 4, 2]),
    ('symmetricDifference', {}, dict(t=(0, 1, 2), u=(0, 1, 3)), {2, 3}),
    ('unpack.indexed', {}, dict(t=(2, 3)), [2, 3, None]),
    ('mergeWith.flat', {}, dict(t=(1, 2), u=(3, 4), i=3, j=2), {'a': 1, 'b': 4}),
]


def validate():
    bad = []
    for cid, lams, envd, want in DOC_EXAMPLES:
        d = dict(t=(), u=(), i=0, j=0, k=0, r=0, v=None)
        d.update(envd)
        e = Env(d['t'], d['u'], d['i'], d['j'], d['k'], d['r'], d['v'], lams)
        try:
            got = CASES[cid]['ref'](e)
        except Fail:
            got = Fail
        if isinstance(got, Weak):
            good = want is not Fail and got.pred(want)
        elif got is Fail or want is Fail:
            good = got is want
        else:
            good = same(want, got) if not isinstance(want, (set, dict)) else got == want
        if not good:
            bad.append('reference model of %s disagrees with the documented example %r: model %r, documented %r'
                       % (cid, envd, got, want))
    # every case must be runnable: texts parse, lambda slots are filled
    for cid, cs in CASES.items():
        for slot, ids in cs['lams'].items():
            for lid in ids:
                if lid not in LAMS:
                    bad.append('case %s: unknown lambda %s' % (cid, lid))
        if cs['text']:
            t = cs['text'].replace('{name}', cs['keys'][0].split('/')[0])
            for slot, ids in cs['lams'].items():
                t = t.replace('{%s}' % slot, LAMS[ids[0]].text)
            try:
                yq.stmt(t, MD.ENG)
            except Exception as ex:
                bad.append('case %s: text %r does not parse: %r' % (cid, t, ex))
    return bad[:8]


def replay(cond, args):
    import props.c13 as me
    func = cond['func']
    vals = dict(args)
    if func != 'h_fn':
        fn = getattr(me, func)
        try:
            ok = fn(**vals)
        except Exception as ex:
            return {'reproduced': True, 'key': 'C13/%s/exception' % cond['name'],
                    'what': '%s%r raised %r' % (cond['name'], vals, ex)}
        if ok:
            return {'reproduced': False}
        what = '%s fails for %r' % (cond['name'], vals)
        if func == 'law_reuse':
            text, table = REUSE[vals['t']]
            st, steps = yq.ENG(text), []
            for n in (vals['i'], vals['j'], vals['k']):
                try:
                    got = st.evaluate(data=table[n][0], context=yq.ROOT.create_child_context())
                except Exception as ex:
                    got = repr(ex)
                steps.append('on %r -> %r (documented: %r)' % (table[n][0], got, table[n][1]))
            what = 'one parsed statement %s evaluated in turn %s' % (text, '; then '.join(steps))
        if func == 'h_pipe':
            sels = [H.P('s1', 0), vals['s2']] + ([vals['s3']] if H.P('depth', 2) >= 3 else [])
            res = pipe_check(sels, vals['c'], vals['i1'], vals['k1'], vals['i2'], vals['k2'], vals['i3'], vals['k3'])
            what = 'pipeline %s with %r (as %s) gives %r, the composition of the per-operator models gives %r' % (
                pipe_text(sels), vals, res[1], res[2], res[3])
        return {'reproduced': True, 'key': 'C13/%s' % cond['name'].split('[')[0], 'what': what}
    if not bounds(**vals):
        return {'reproduced': False, 'error': 'assignment outside the precondition'}
    e = mkenv(**vals)
    try:
        ok, pname, got, exp = check_case(CASE, e)
    except Exception as ex:   # a crash of the reference model is a harness bug, never a violation
        return {'reproduced': False, 'error': 'harness crashed on replay: %r' % (ex,)}
    if ok:
        return {'reproduced': False}
    key = finding_key(CASE, e, pname) or 'C13/%s' % CASE['id']
    shown = exp[1].text if exp[0] == 'ok' and isinstance(exp[1], Weak) else (exp[1] if exp[0] == 'ok' else 'an error')
    call = text_of(CASE) if MODE == 'text' else '%s (case %s through the call API)' % (NAME, CASE['id'])
    what = '%s with c=%r (as %s) d=%r i=%r j=%r k=%r r=%r v=%r lambdas=%r: yaql gives %r, documented meaning gives %r' % (
        call, list(e.t), pname, list(e.u), e.i, e.j, e.k, e.r, e.v, LAMSEL, got[1] if got[0] == 'ok' else got, shown)
    return {'reproduced': True, 'key': key, 'what': what}
