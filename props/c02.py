"""C02 - the operator table decides the parse tree.

A  table -> ply precedence / rule docstrings / lexer tokens, for all small tables (symbolic kinds, group breaks, a
   unary record reusing a binary record's symbol) through the REAL _build_operator_table + Lexer.__init__ +
   Parser._generate_operator_funcs
B  insert_operator vs a list-of-groups reference, symbolic table and arguments
C  the real engine's tree vs a precedence-climbing reference that reads only factory.operators; texts are assembled
   concretely from symbolic selectors (each path = one concrete parse of one text)
"""
import random
import re
from typing import List

from vf import h as H

import yaql
from yaql import legacy as ylegacy
from yaql.language import factory as yfactory
from yaql.language import lexer as ylexer
from yaql.language import parser as yparser

from props import c02_ref as R

ID = 'C02'
KNOWN = set(H.P('known', ()))

FUNCTIONS_ENCODED = [
    'yaql.language.factory.YaqlFactory._build_operator_table (symbolic table)',
    'yaql.language.lexer.Lexer.__init__ (symbolic table)',
    'yaql.language.parser.Parser._generate_operator_funcs (symbolic table)',
    'yaql.language.factory.YaqlFactory.insert_operator (symbolic table and arguments)',
    'yaql.language.factory.YaqlFactory.create + YaqlEngine.__call__ (ply lexer + LALR parser; concrete texts '
    'selected by symbolic indices)', 'yaql.legacy.YaqlFactory']
BOUNDS = {
    'quick': 'A: tables of <=4 records, every kind vector, every group-break vector, <=1 unary record reusing a binary '
             'record\'s symbol, homogeneous groups; B: tables of <=4 records (+ optional keyword-operator record), '
             'symbolic kinds/breaks/anchor/arity flag/new type/create_group; C: every ordered pair of binary operators '
             'x every placement of <=2 prefix operators on the default table; pairs touching changed rows on the '
             'legacy table and on 3 insert_operator tables (incl. suffix operators); paren/index/call/list/map/'
             'white-space variants on 3x3 operator pairs. C selects concrete texts by symbolic indices.',
    'thorough': 'A: <=5 records with reuse, 6 records without; B: <=5 records; C: all pairs x prefix/suffix '
                'placements and all triples of binary operators on default, legacy and 8 insert_operator tables '
                '(seeded), variants on 5x5 pairs'}
OUTSIDE = ['sequences of more than 3 binary operators', 'non-homogeneous groups',
           'that ply resolves shift/reduce conflicts from the precedence declaration as documented is tested per '
           'concrete table by C, not proved for all tables',
           'alias of a symbol that has both a unary and a binary record (one token name carries one alias)',
           'tables with empty groups (not producible by insert_operator from a table without them; B proves that)']
ASSUMPTIONS = ['reference tie rule (adopted from the documented behaviour of the pinned tree): a prefix operator in a '
               'left-associative group closes before a same-level binary operator, in a right-associative group it '
               'does not',
               'C: each symbolic path is one concrete text; the solver guarantees that the bounded index space is '
               'covered exactly once',
               'B: input tables are in normal form (no empty groups), each symbol has at most one unary and one '
               'binary record']
EXPLANATION = ('The configuration (operator table) is symbolic in A and B: CrossHair executes the real table builder, '
               'lexer constructor, rule generator and insert_operator on tables whose record kinds, group breaks and '
               'symbol reuse are solver variables, and the resulting ply precedence tuple, %prec markers, rule '
               'docstrings, token regexes and edited table are compared with what the list-of-groups reading of the '
               'table demands. C parses texts selected by symbolic operator indices with the real engine on '
               'default, legacy and insert_operator tables and compares the tree with a precedence-climbing '
               'reference that reads only factory.operators.')
TECHNIQUE = ('bounded symbolic execution (CrossHair+z3) of the real table/lexer/parser generators over symbolic operator '
             'tables; selector harness over the real ply parser vs precedence-climbing reference; replay on CPython')

# ---------------------------------------------------------------------------------------------- C: engines
INSERT_TABLES = {
    # name: (base, [insert_operator argument tuples])
    'prefix-in-left-group': ('default', [['+', True, '~', R.PREFIX, False]]),
    'prefix-in-right-group': ('default', [['->', True, '~', R.PREFIX, False]]),
    'suffix-group': ('default', [['*', True, '!', R.SUFFIX, True]]),
    'suffix-front': ('default', [[None, True, '!', R.SUFFIX, True]]),
    'unary-reuses-binary-symbol': ('default', [['and', True, '*', R.PREFIX, False]]),
    'right-group-chain': ('default', [['+', False, '**', R.RIGHT, True], ['**', True, '^^', R.RIGHT, False],
                                      [None, True, 'xor', R.LEFT, False]]),
    'reuse-in-right-group': ('default', [['->', True, '/', R.PREFIX, False], ['+', True, '**', R.RIGHT, True],
                                         ['**', True, '^', R.PREFIX, False]]),
    'legacy-plus-prefix': ('legacy', [['=>', True, '~', R.PREFIX, False], ['or', True, '|', R.LEFT, False]]),
}
NEW_SYMS = ['~', '!', '**', '^^', 'xor', '|', '^', '&', '<>', '%', 'nor', '@']


def make_factory(spec):
    """spec: 'default' | 'legacy' | name in INSERT_TABLES | ['default'|'legacy', [insert args...]]"""
    if isinstance(spec, str) and spec in INSERT_TABLES:
        spec = INSERT_TABLES[spec]
    if isinstance(spec, str):
        base, ops = spec, []
    else:
        base, ops = spec
    f = ylegacy.YaqlFactory() if base == 'legacy' else yaql.YaqlFactory()
    for a in ops:
        f.insert_operator(*a)
    return f


def random_insert_spec(rnd):
    """a seeded insert_operator sequence that keeps every group homogeneous (computed with the list-of-groups
    reference, then re-checked on the real table)"""
    base = rnd.choice(['default', 'default', 'legacy'])
    f = make_factory(base)
    groups = R.groups_of(f.operators)
    ops = []
    syms = list(NEW_SYMS)
    rnd.shuffle(syms)
    for _ in range(rnd.randint(1, 3)):
        for _attempt in range(50):
            tab = R.Table(R.flat_of(groups))
            cands = [(s, True) for s in tab.binops] + [(s, False) for s in tab.preops + tab.sufops] + [(None, True)]
            anchor, ab = rnd.choice(cands)
            kind = rnd.choice(R.KINDS)
            create = rnd.random() < 0.5
            if kind in (R.PREFIX,) and rnd.random() < 0.3:
                free = [s for s in tab.binops if s not in tab.prep and s not in tab.sufp]
                sym = rnd.choice(free)
            else:
                sym = syms[0]
            new = R.ref_insert(groups, anchor, ab, (sym, kind, None), create)
            if new is None or not R.homogeneous(new):
                continue
            if sym == syms[0]:
                syms.pop(0)
            groups = new
            ops.append([anchor, ab, sym, kind, create])
            break
    return [base, ops]


_ENG = {}


def engine_for(spec):
    key = repr(spec)
    if key not in _ENG:
        with H.NoTracing():
            f = make_factory(spec)
            _ENG[key] = (f.create(), R.Table(f.operators))
    return _ENG[key]


TABLE = H.P('table', 'default')
if not H.P('driver'):
    ENG, TAB = engine_for(TABLE)
    OPS1 = H.P('ops1') or TAB.binops
    OPS2 = H.P('ops2') or TAB.binops
    OPS3 = H.P('ops3') or TAB.binops
    PRES = [None] + TAB.preops
    SUFS = [None] + TAB.sufops
else:
    ENG = TAB = None
    OPS1 = OPS2 = OPS3 = PRES = SUFS = []


def parse_outcome(text):
    try:
        st = ENG(text)
    except Exception as e:
        return ('EXC', type(e).__name__), True
    return R.dump(st), R.names_ok(st, TAB)


def seq_tokens(ops, pres, sufs):
    """operand (pre? $x suf?) separated by binary operators"""
    toks = []
    names = ['$a', '$b', '$c', '$d']
    for i in range(len(ops) + 1):
        if i < len(pres) and pres[i] is not None:
            toks.append(('pre', pres[i]))
        toks.append(('v', names[i]))
        if i < len(sufs) and sufs[i] is not None:
            toks.append(('suf', sufs[i]))
        if i < len(ops):
            toks.append(('bin', ops[i]))
    return toks


def check_tokens(toks, ws=0):
    text = R.render(toks, ws)
    got, names = parse_outcome(text)
    exp = R.ref_parse(toks, TAB)
    return got == exp and names, text, got, exp


def pairs(o1: int, o2: int, u0: int, u1: int, s0: int, s1: int) -> bool:
    """
    pre: 0 <= o1 < len(OPS1) and 0 <= o2 < len(OPS2)
    pre: 0 <= u0 < len(PRES) and 0 <= u1 < len(PRES)
    pre: 0 <= s0 < len(SUFS) and 0 <= s1 < len(SUFS)
    post: _
    """
    # indexing a concrete list with a symbolic int is the (only) branching point: one path per selection
    a, b, p0, p1, q0, q1 = OPS1[o1], OPS2[o2], PRES[u0], PRES[u1], SUFS[s0], SUFS[s1]
    with H.NoTracing():
        toks = seq_tokens([a, b], [p0, p1], [q0, q1])
        ok = check_tokens(toks, H.P('ws', 0))[0]
    return H.done(ok)


def triples(o1: int, o2: int, o3: int) -> bool:
    """
    pre: 0 <= o1 < len(OPS1) and 0 <= o2 < len(OPS2) and 0 <= o3 < len(OPS3)
    post: _
    """
    a, b, c = OPS1[o1], OPS2[o2], OPS3[o3]
    with H.NoTracing():
        toks = seq_tokens([a, b, c], [], [])
        ok = check_tokens(toks, H.P('ws', 0))[0]
    return H.done(ok)


SHAPES = H.P('shapes') or ['var', 'index', 'call', 'method', 'list', 'map', 'paren-var', 'index-expr', 'call-expr', 'index2']


def operand_tokens(shape, name, inner_op):
    """operand of the given shape; the nested argument of *-expr shapes is itself an operator expression"""
    v = ('v', name)
    inner = [('v', '$x'), ('bin', inner_op), ('v', '$y')]
    if shape == 'var':
        return [v]
    if shape == 'index':
        return [v, ('[',), ('v', '$i'), (']',)]
    if shape == 'index2':
        return [v, ('[',), ('v', '$i'), (',',), ('v', '$j'), (']',), ('[',), ('v', '$k'), (']',)]
    if shape == 'index-expr':
        return [v, ('[',)] + inner + [(']',)]
    if shape == 'call':
        return [('f(', 'f'), v, (')',)]
    if shape == 'call-expr':
        return [('f(', 'f')] + inner + [(',',), v, (')',)]
    if shape == 'method':
        return [v, ('bin', '.'), ('f(', 'g'), ('v', '$i'), (')',)]
    if shape == 'list':
        return [('[',), v, (',',)] + inner + [(']',)]
    if shape == 'map':
        if TAB.nvp is None:
            return [('{',), v, (',',)] + inner + [('}',)]
        return [('{',), v, ('=>',)] + inner + [('}',)]
    if shape == 'paren-var':
        return [('(',), v, (')',)]
    raise ValueError(shape)


PARENS = ['none', 'left', 'right', 'whole', 'prefix-operand']


def variants(o1: int, o2: int, shape: int, where: int, paren: int, ws: int, u: int) -> bool:
    """
    pre: 0 <= o1 < len(OPS1) and 0 <= o2 < len(OPS2)
    pre: 0 <= shape < len(SHAPES) and 0 <= where < 3 and 0 <= paren < len(PARENS) and 0 <= ws < 3
    pre: 0 <= u < len(PRES)
    post: _
    """
    a, b, shape_name, where, p, ws, pu = OPS1[o1], OPS2[o2], SHAPES[shape], [0, 1, 2][where], PARENS[paren], \
        [0, 1, 2][ws], PRES[u]
    with H.NoTracing():
        operands = [[('v', n)] for n in ('$a', '$b', '$c')]
        operands[where] = operand_tokens(shape_name, ('$a', '$b', '$c')[where], a)
        pre = [('pre', pu)] if pu is not None else []
        if p == 'none':
            toks = pre + operands[0] + [('bin', a)] + operands[1] + [('bin', b)] + operands[2]
        elif p == 'left':
            toks = [('(',)] + pre + operands[0] + [('bin', a)] + operands[1] + [(')',), ('bin', b)] + operands[2]
        elif p == 'right':
            toks = pre + operands[0] + [('bin', a), ('(',)] + operands[1] + [('bin', b)] + operands[2] + [(')',)]
        elif p == 'whole':
            toks = [('(',)] + pre + operands[0] + [('bin', a)] + operands[1] + [('bin', b)] + operands[2] + [(')',)]
        else:
            toks = pre + [('(',)] + operands[0] + [('bin', a)] + operands[1] + [(')',), ('bin', b)] + operands[2]
        ok = check_tokens(toks, ws)[0]
    return H.done(ok)


# ---------------------------------------------------------------------------------------------- A: table -> ply
SYMS_A = ['+', '~', 'xor', '**', '<>', '!']
ESC = {s: re.escape(s) for s in SYMS_A}
NA = H.P('n', 4)
FIXED_TOKENS = ['KEYWORD_STRING', 'QUOTED_STRING', 'NUMBER', 'FUNC', 'DOLLAR', 'INDEXER', 'MAPPING', 'MAP',
                'TRUE', 'FALSE', 'NULL']


def decode_table(n, g, ta, tb, p):
    """homogeneous table by construction: g[i] = record i opens a new group; (ta,tb)[i] = type of the group opened at i
    (left / right / suffix-only; the fourth code is rejected); p[i] = record i is a prefix operator (left/right groups).
    Bits that do not matter for a record are never looked at, so they do not split paths."""
    kinds, breaks = [], []
    gtype = None
    for i in range(n):
        new = True if i == 0 else bool(g[i])
        if new:
            if ta[i]:
                if tb[i]:
                    return None
                gtype = 'suffix'
            else:
                gtype = 'right' if tb[i] else 'left'
        if i:
            breaks.append(new)
        if gtype == 'suffix':
            kinds.append(R.SUFFIX)
        elif p[i]:
            kinds.append(R.PREFIX)
        else:
            kinds.append(R.LEFT if gtype == 'left' else R.RIGHT)
    return kinds, breaks


def reuse_candidates(kinds, two):
    """None, or one/two (unary record, binary record) pairs: the unary record takes the binary record's symbol"""
    un = [i for i, k in enumerate(kinds) if k in (R.PREFIX, R.SUFFIX)]
    bi = [i for i, k in enumerate(kinds) if k in (R.LEFT, R.RIGHT)]
    out = [()]
    for u in un:
        for b in bi:
            out.append(((u, b),))
    if two:
        for u in un:
            for b in bi:
                for u2 in un:
                    for b2 in bi:
                        if u < u2 and b != b2:
                            out.append(((u, b), (u2, b2)))
    return out


def table_pre(g, ta, tb, p, r):
    d = decode_table(NA, g, ta, tb, p)
    if d is None:
        return False
    with H.NoTracing():
        ncand = len(reuse_candidates(d[0], H.P('reuse2', False)))
    return 0 <= r < ncand


def split_doc(doc):
    if not doc:
        return []
    if not doc.startswith('value : '):
        return None
    return doc[len('value : '):].split('\n| ')


def check_ply(recs, lx, ps):
    """does the generated ply data encode the list-of-groups reading of `recs`? (concrete, untraced)"""
    groups = R.groups_of(recs)
    flat = [(gi, r) for gi, g in enumerate(groups) for r in g]
    syms = [r[0] for _, r in flat]
    tokname = {}
    for sym in set(syms):
        cands = [t for t in lx.tokens if t not in FIXED_TOKENS and getattr(lx, 't_' + t, None) == re.escape(sym)]
        if len(cands) != 1:
            return False
        tokname[sym] = cands[0]
    extra = [t for t in lx.tokens if t not in FIXED_TOKENS]
    if sorted(extra) != sorted(tokname.values()) or len(set(extra)) != len(extra):
        return False
    shared = set(s for s in syms if syms.count(s) > 1)
    prec = ps.precedence
    if len(prec) < 1 or tuple(prec[-1]) != ('left', ','):
        return False
    where = {}
    for idx, entry in enumerate(prec[:-1]):
        if entry[0] not in ('left', 'right') or len(entry) < 2:
            return False
        for t in entry[1:]:
            if t in where:
                return False
            where[t] = (idx, entry[0])
    un = (R.PREFIX, R.SUFFIX)
    ptok = []
    for gi, r in flat:
        nm = tokname[r[0]]
        ptok.append('UNARY_' + nm if (r[1] in un and r[0] in shared) else nm)
    if sorted(where) != sorted(ptok):
        return False
    ok = True
    for i, (gi, ri) in enumerate(flat):
        ii, ai = where[ptok[i]]
        if ri[1] == R.LEFT:
            ok = ok and ai == 'left'
        elif ri[1] == R.RIGHT:
            ok = ok and ai == 'right'
        for j, (gj, rj) in enumerate(flat):
            ij, aj = where[ptok[j]]
            if gi < gj:
                ok = ok and ii > ij                    # earlier group binds strictly tighter
            elif gi == gj and i != j:
                if ri[1] not in un and rj[1] not in un:
                    ok = ok and ii == ij               # binary operators of one group share a level
                elif ri[1] == R.PREFIX and rj[1] == R.LEFT:
                    ok = ok and ii == ij               # prefix closes before a same-level left-assoc operator
                elif ri[1] == R.PREFIX and rj[1] == R.RIGHT:
                    ok = ok and ii < ij                # ... but not before a same-level right-assoc operator
    bdoc = split_doc(ps.p_binary.__doc__)
    udoc = split_doc(ps.p_unary.__doc__)
    if bdoc is None or udoc is None:
        return False
    exp_b = ['value %s value' % tokname[r[0]] for _, r in flat if r[1] not in un]
    exp_u = []
    for _, r in flat:
        if r[1] in un:
            nm = tokname[r[0]]
            rule = ('%s value' if r[1] == R.PREFIX else 'value %s') % nm
            if r[0] in shared:
                rule += ' %%prec UNARY_%s' % nm
            exp_u.append(rule)
    ok = ok and sorted(bdoc) == sorted(exp_b) and sorted(udoc) == sorted(exp_u)
    for _, r in flat:
        if r[0] not in shared:                          # aliases travel with the token name
            ok = ok and ps._aliases.get(tokname[r[0]]) == (r[2] if len(r) > 2 else None)
    return ok


def table_to_ply(g: List[bool], ta: List[bool], tb: List[bool], p: List[bool], r: int) -> bool:
    """
    pre: len(g) == NA and len(ta) == NA and len(tb) == NA and len(p) == NA
    pre: table_pre(g, ta, tb, p, r)
    post: _
    """
    kinds, breaks = decode_table(NA, g, ta, tb, p)
    with H.NoTracing():
        cands = reuse_candidates(kinds, H.P('reuse2', False))
    reuse = cands[r]
    with H.NoTracing():
        syms = list(SYMS_A[:NA])
        for u, b in reuse:
            syms[u] = SYMS_A[b]
        recs = []
        for i in range(NA):
            if i and breaks[i - 1]:
                recs.append(())
            recs.append((syms[i], kinds[i], 'alias%d' % i) if i % 2 == 0 else (syms[i], kinds[i]))
    # ---- the real code (traced)
    fac = yfactory.YaqlFactory()
    fac.operators = list(recs)
    ops = fac._build_operator_table(fac._name_generator())
    lx = ylexer.Lexer(ops)
    ps = yparser.Parser(lx, ops, fac)
    with H.NoTracing():
        ok = check_ply(recs, lx, ps)
    return H.done(ok)


# ---------------------------------------------------------------------------------------------- B: insert_operator
NB = H.P('n', 4)
SYMS_B = ['+', '~', 'xor', '**', '<>']


def is_un(k):
    return k == R.PREFIX or k == R.SUFFIX


def is_bin(k):
    return k == R.LEFT or k == R.RIGHT


def dup_ok(n, ks, du, db):
    if du == -1:
        return db == -1
    return 0 <= du < n and 0 <= db < n and du != db and is_un(ks[du]) and is_bin(ks[db])


def insert_op(ks: List[str], bs: List[bool], nvp: bool, du: int, db: int, anchor: int, ab: bool, newk: str,
              create: bool) -> bool:
    """
    pre: len(ks) == NB and len(bs) == NB
    pre: -1 <= du < NB and -1 <= db < NB and dup_ok(NB, ks, du, db)
    pre: -1 <= anchor <= NB
    post: _
    """
    n = NB
    recs = []
    if nvp:
        recs.append(('=>', R.NVP))
    syms = []
    for i in range(n):
        if i and bs[i]:
            recs.append(())
        sym = SYMS_B[db] if i == du else SYMS_B[i]
        syms.append(sym)
        recs.append((sym, ks[i]))
    anchor_sym = None if anchor == -1 else ('nosuch' if anchor == n else syms[anchor])
    new = ('@', newk, None)
    fac = yfactory.YaqlFactory()
    fac.operators = list(recs)
    try:
        fac.insert_operator(anchor_sym, ab, '@', newk, create)
        got = fac.operators
    except ValueError:
        got = None
    exp = R.ref_insert(R.groups_of(recs), anchor_sym, ab, new, create)
    if exp is None or got is None:
        return H.done(exp is None and got is None)
    ok = R.is_normal_form(got) and R.groups_of(got) == exp
    if ok and H.P('second'):
        # a second insertion anchored at the operator just inserted
        second_binary = is_bin(newk)
        try:
            fac.insert_operator('@', second_binary, '#', R.LEFT, not create)
            got2 = fac.operators
        except ValueError:
            got2 = None
        exp2 = R.ref_insert(exp, '@', second_binary, ('#', R.LEFT, None), not create)
        if exp2 is None or got2 is None:
            ok = exp2 is None and got2 is None
        else:
            ok = R.is_normal_form(got2) and R.groups_of(got2) == exp2
    return H.done(ok)
