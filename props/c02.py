"""C02 - the operator table decides the parse tree.

A  table -> ply precedence / rule docstrings / lexer tokens, for all small tables (symbolic kinds, group breaks, a
   unary record reusing a binary record's symbol) through the REAL _build_operator_table + Lexer.__init__ +
   Parser._generate_operator_funcs
B  insert_operator vs a list-of-groups reference, symbolic table and arguments
C  the real engine's tree vs a precedence-climbing reference that reads only factory.operators; texts are assembled
   concretely from symbolic selectors (each path = one concrete parse of one text)
"""
import random
import re
from typing import List

from vf import h as H

import yaql
from yaql import legacy as ylegacy
from yaql.language import factory as yfactory
from yaql.language import lexer as ylexer
from yaql.language import parser as yparser

from props import c02_ref as R

ID = 'C02'
KNOWN = set(H.P('known', ()))

FUNCTIONS_ENCODED = [
    'yaql.language.factory.YaqlFactory._build_operator_table (symbolic table)',
    'yaql.language.lexer.Lexer.__init__ (symbolic table)',
    'yaql.language.parser.Parser._generate_operator_funcs (symbolic table)',
    'yaql.language.factory.YaqlFactory.insert_operator (symbolic table and arguments)',
    'yaql.language.factory.YaqlFactory.create + YaqlEngine.__call__ (ply lexer + LALR parser; concrete texts '
    'selected by symbolic indices)', 'yaql.legacy.YaqlFactory']
BOUNDS = {
    'quick': 'A: tables of <=4 records, every kind vector, every group-break vector, <=1 unary record reusing a binary '
             'record\'s symbol, homogeneous groups; B: tables of <=4 records (+ optional keyword-operator record), '
             'symbolic kinds/breaks/anchor/arity flag/new type/create_group; C: every ordered pair of binary operators '
             'x every placement of <=2 prefix operators on the default table; pairs touching changed rows on the '
             'legacy table and on 3 insert_operator tables (incl. suffix operators); paren/index/call/list/map/'
             'white-space variants on 3x3 operator pairs. C selects concrete texts by symbolic indices.',
    'thorough': 'A: <=5 records with reuse, 6 records without; B: <=5 records; C: all pairs x prefix/suffix '
                'placements and all triples of binary operators on default, legacy and 8 insert_operator tables '
                '(4 of them seeded, on their focus operators), variants on 4x4 pairs on default and legacy'}
OUTSIDE = ['sequences of more than 3 binary operators', 'non-homogeneous groups',
           'that ply resolves shift/reduce conflicts from the precedence declaration as documented is tested per '
           'concrete table by C, not proved for all tables',
           'alias of a symbol that has both a unary and a binary record (one token name carries one alias)',
           'tables with empty groups (not producible by insert_operator from a table without them; B proves that)']
ASSUMPTIONS = ['reference tie rule (adopted from the documented behaviour of the pinned tree): a prefix operator in a '
               'left-associative group closes before a same-level binary operator, in a right-associative group it '
               'does not',
               'C: each symbolic path is one concrete text; the solver guarantees that the bounded index space is '
               'covered exactly once',
               'B: input tables are in normal form (no empty groups), each symbol has at most one unary and one '
               'binary record']
EXPLANATION = ('The configuration (operator table) is symbolic in A and B: CrossHair executes the real table builder, '
               'lexer constructor, rule generator and insert_operator on tables whose record kinds, group breaks and '
               'symbol reuse are solver variables, and the resulting ply precedence tuple, %prec markers, rule '
               'docstrings, token regexes and edited table are compared with what the list-of-groups reading of the '
               'table demands. C parses texts selected by symbolic operator indices with the real engine on '
               'default, legacy and insert_operator tables and compares the tree with a precedence-climbing '
               'reference that reads only factory.operators.')
TECHNIQUE = ('bounded symbolic execution (CrossHair+z3) of the real table/lexer/parser generators over symbolic operator '
             'tables; selector harness over the real ply parser vs precedence-climbing reference; replay on CPython')

# ---------------------------------------------------------------------------------------------- C: engines
INSERT_TABLES = {
    # name: (base, [insert_operator argument tuples])
    'prefix-in-left-group': ('default', [['+', True, '~', R.PREFIX, False]]),
    'prefix-in-right-group': ('default', [['->', True, '~', R.PREFIX, False]]),
    'suffix-group': ('default', [['*', True, '!', R.SUFFIX, True]]),
    'suffix-front': ('default', [[None, True, '!', R.SUFFIX, True]]),
    'unary-reuses-binary-symbol': ('default', [['and', True, '*', R.PREFIX, False]]),
    'right-group-chain': ('default', [['+', False, '**', R.RIGHT, True], ['**', True, '^^', R.RIGHT, False],
                                      [None, True, 'xor', R.LEFT, False]]),
    'reuse-in-right-group': ('default', [['->', True, '/', R.PREFIX, False], ['+', True, '**', R.RIGHT, True],
                                         ['**', True, '^', R.PREFIX, False]]),
    'legacy-plus-prefix': ('legacy', [['=>', True, '~', R.PREFIX, False], ['or', True, '|', R.LEFT, False]]),
}
NEW_SYMS = ['~', '!', '**', '^^', 'xor', '|', '^', '&', '<>', '%', 'nor', '@']


def make_factory(spec):
    """spec: 'default' | 'legacy' | name in INSERT_TABLES | ['default'|'legacy', [insert args...]]"""
    if isinstance(spec, str) and spec in INSERT_TABLES:
        spec = INSERT_TABLES[spec]
    if isinstance(spec, str):
        base, ops = spec, []
    else:
        base, ops = spec
    f = ylegacy.YaqlFactory() if base == 'legacy' else yaql.YaqlFactory()
    for a in ops:
        f.insert_operator(*a)
    return f


def random_insert_spec(rnd):
    """a seeded insert_operator sequence that keeps every group homogeneous (computed with the list-of-groups
    reference, then re-checked on the real table)"""
    base = rnd.choice(['default', 'default', 'legacy'])
    f = make_factory(base)
    groups = R.groups_of(f.operators)
    ops = []
    syms = list(NEW_SYMS)
    rnd.shuffle(syms)
    for _ in range(rnd.randint(1, 3)):
        for _attempt in range(50):
            tab = R.Table(R.flat_of(groups))
            cands = [(s, True) for s in tab.binops] + [(s, False) for s in tab.preops + tab.sufops] + [(None, True)]
            anchor, ab = rnd.choice(cands)
            kind = rnd.choice(R.KINDS)
            create = rnd.random() < 0.5
            if kind in (R.PREFIX,) and rnd.random() < 0.3:
                free = [s for s in tab.binops if s not in tab.prep and s not in tab.sufp]
                sym = rnd.choice(free)
            else:
                sym = syms[0]
            new = R.ref_insert(groups, anchor, ab, (sym, kind, None), create)
            if new is None or not R.homogeneous(new):
                continue
            if sym == syms[0]:
                syms.pop(0)
            groups = new
            ops.append([anchor, ab, sym, kind, create])
            break
    return [base, ops]


_ENG = {}


def engine_for(spec):
    key = repr(spec)
    if key not in _ENG:
        with H.NoTracing():
            f = make_factory(spec)
            _ENG[key] = (f.create(), R.Table(f.operators))
    return _ENG[key]


TABLE = H.P('table', 'default')
if not H.P('driver'):
    ENG, TAB = engine_for(TABLE)
    OPS1 = H.P('ops1') or TAB.binops
    OPS2 = H.P('ops2') or TAB.binops
    OPS3 = H.P('ops3') or TAB.binops
    PRES = [None] + (H.P('pres') or TAB.preops)
    SUFS = [None] + TAB.sufops
else:
    ENG = TAB = None
    OPS1 = OPS2 = OPS3 = PRES = SUFS = []


def parse_outcome(text):
    try:
        st = ENG(text)
    except Exception as e:
        return ('EXC', type(e).__name__), True
    return R.dump(st), R.names_ok(st, TAB)


def seq_tokens(ops, pres, sufs):
    """operand (pre? $x suf?) separated by binary operators"""
    toks = []
    names = ['$a', '$b', '$c', '$d']
    for i in range(len(ops) + 1):
        if i < len(pres) and pres[i] is not None:
            toks.append(('pre', pres[i]))
        toks.append(('v', names[i]))
        if i < len(sufs) and sufs[i] is not None:
            toks.append(('suf', sufs[i]))
        if i < len(ops):
            toks.append(('bin', ops[i]))
    return toks


def check_tokens(toks, ws=0):
    text = R.render(toks, ws)
    got, names = parse_outcome(text)
    exp = R.ref_parse(toks, TAB)
    return got == exp and names, text, got, exp


def pairs(o1: int, o2: int, u0: int, u1: int, s0: int, s1: int) -> bool:
    """
    pre: 0 <= o1 < len(OPS1) and 0 <= o2 < len(OPS2)
    pre: 0 <= u0 < len(PRES) and 0 <= u1 < len(PRES)
    pre: 0 <= s0 < len(SUFS) and 0 <= s1 < len(SUFS)
    post: _
    """
    # indexing a concrete list with a symbolic int is the (only) branching point: one path per selection
    a, b, p0, p1, q0, q1 = OPS1[o1], OPS2[o2], PRES[u0], PRES[u1], SUFS[s0], SUFS[s1]
    with H.NoTracing():
        toks = seq_tokens([a, b], [p0, p1], [q0, q1])
        ok = check_tokens(toks, H.P('ws', 0))[0]
    return H.done(ok)


def triples(o1: int, o2: int, o3: int) -> bool:
    """
    pre: 0 <= o1 < len(OPS1) and 0 <= o2 < len(OPS2) and 0 <= o3 < len(OPS3)
    post: _
    """
    a, b, c = OPS1[o1], OPS2[o2], OPS3[o3]
    with H.NoTracing():
        toks = seq_tokens([a, b, c], [], [])
        ok = check_tokens(toks, H.P('ws', 0))[0]
    return H.done(ok)


# ---- histories of factories and engines in one process: every engine parses by ITS table, whatever was created before
HIST_INSERTS = [['and', True, 'xor', R.LEFT, False], ['+', True, '**', R.RIGHT, True], ['not', False, '~', R.PREFIX, False],
                ['*', True, '!', R.SUFFIX, True], ['<', True, '<-', R.RIGHT, True], ['>', True, 'implies', R.LEFT, True]]
HIST_TEXT_OPS = [['+', '*'], ['and', 'or'], ['<', '='], ['or', '->'], ['=', '>'], ['-', '+']]
HBOX = [(i,) for i in range(8)]


def _tree_ok(eng, tab, toks):
    text = R.render(toks, 0)
    try:
        got = R.dump(eng(text))
    except Exception as e:
        got = ('EXC', type(e).__name__)
    return got == R.ref_parse(toks, tab)


def factory_history(i: int, j: int) -> bool:
    """
    pre: 0 <= i < len(HIST_INSERTS) and 0 <= j < len(HIST_INSERTS) and i != j
    post: _
    """
    ins1, ins2 = HIST_INSERTS[HBOX[i][0]], HIST_INSERTS[HBOX[j][0]]
    legacy = bool(H.P('legacy'))
    with H.NoTracing():
        f = ylegacy.YaqlFactory() if legacy else yaql.YaqlFactory()
        other = yaql.YaqlFactory() if legacy else ylegacy.YaqlFactory()
        e0, t0 = f.create(), R.Table(list(f.operators))
        o0, ot = other.create(), R.Table(list(other.operators))
        f.insert_operator(*ins1)
        e1, t1 = f.create(), R.Table(list(f.operators))
        f.insert_operator(*ins2)
        e2, t2 = f.create(), R.Table(list(f.operators))
        # a second factory that gives the SAME new symbol another place in its table: identical texts, different trees
        g = ylegacy.YaqlFactory() if legacy else yaql.YaqlFactory()
        alt = {'and': 'or', '+': '*', 'not': '-', '*': '+', '<': 'or', '>': 'and'}[ins1[0]]
        g.insert_operator(alt, ins1[1] if alt != '-' else False, ins1[2], ins1[3], ins1[4])
        eg, tg = g.create(), R.Table(list(g.operators))
        ok = True
        for eng, tab, ops in [(e, t, o) for o in HIST_TEXT_OPS for (e, t) in ((e0, t0), (o0, ot), (e1, t1), (eg, tg), (e2, t2), (o0, ot), (e1, t1), (eg, tg), (e0, t0))]:
            texts = [seq_tokens(ops, [None, None], [None, None])]
            for sym in (ins1[2], ins2[2]):
                if sym in tab.binops:
                    texts.append(seq_tokens([ops[0], sym], [None, None], [None, None]))
                    texts.append(seq_tokens([sym, ops[1]], [None, None], [None, None]))
                elif sym in tab.preops:
                    texts.append(seq_tokens(ops, [sym, None], [None, None]))
                elif sym in tab.sufops:
                    texts.append(seq_tokens(ops, [None, None], [None, sym]))
            for toks in texts:
                if all(tk[1] in tab.binops for tk in toks if tk[0] == 'bin'):
                    ok = ok and _tree_ok(eng, tab, toks)
    return H.done(ok)


SHAPES_ALL = ['var', 'index', 'call', 'method', 'list', 'map', 'paren-var', 'index-expr', 'call-expr', 'index2']


SHAPES = H.P('shapes') or SHAPES_ALL


def operand_tokens(shape, name, inner_op):
    """operand of the given shape; the nested argument of *-expr shapes is itself an operator expression"""
    v = ('v', name)
    inner = [('v', '$x'), ('bin', inner_op), ('v', '$y')]
    if shape == 'var':
        return [v]
    if shape == 'index':
        return [v, ('[',), ('v', '$i'), (']',)]
    if shape == 'index2':
        return [v, ('[',), ('v', '$i'), (',',), ('v', '$j'), (']',), ('[',), ('v', '$k'), (']',)]
    if shape == 'index-expr':
        return [v, ('[',)] + inner + [(']',)]
    if shape == 'call':
        return [('f(', 'f'), v, (')',)]
    if shape == 'call-expr':
        return [('f(', 'f')] + inner + [(',',), v, (')',)]
    if shape == 'method':
        return [v, ('bin', '.'), ('f(', 'g'), ('v', '$i'), (')',)]
    if shape == 'list':
        return [('[',), v, (',',)] + inner + [(']',)]
    if shape == 'map':
        if TAB.nvp is None:
            return [('{',), v, (',',)] + inner + [('}',)]
        return [('{',), v, ('=>',)] + inner + [('}',)]
    if shape == 'paren-var':
        return [('(',), v, (')',)]
    raise ValueError(shape)


PARENS = ['none', 'left', 'right', 'whole', 'prefix-operand']


def variants(o1: int, o2: int, shape: int, where: int, paren: int, ws: int, u: int) -> bool:
    """
    pre: 0 <= o1 < len(OPS1) and 0 <= o2 < len(OPS2)
    pre: 0 <= shape < len(SHAPES) and 0 <= where < 3 and 0 <= paren < len(PARENS) and 0 <= ws < 3
    pre: 0 <= u < len(PRES)
    post: _
    """
    a, b, shape_name, where, p, ws, pu = OPS1[o1], OPS2[o2], SHAPES[shape], ['0', '1', '2'][where], PARENS[paren], \
        ['0', '1', '2'][ws], PRES[u]
    with H.NoTracing():
        where, ws = int(str(where)), int(str(ws))
        operands = [[('v', n)] for n in ('$a', '$b', '$c')]
        operands[where] = operand_tokens(shape_name, ('$a', '$b', '$c')[where], a)
        pre = [('pre', pu)] if pu is not None else []
        if p == 'none':
            toks = pre + operands[0] + [('bin', a)] + operands[1] + [('bin', b)] + operands[2]
        elif p == 'left':
            toks = [('(',)] + pre + operands[0] + [('bin', a)] + operands[1] + [(')',), ('bin', b)] + operands[2]
        elif p == 'right':
            toks = pre + operands[0] + [('bin', a), ('(',)] + operands[1] + [('bin', b)] + operands[2] + [(')',)]
        elif p == 'whole':
            toks = [('(',)] + pre + operands[0] + [('bin', a)] + operands[1] + [('bin', b)] + operands[2] + [(')',)]
        else:
            toks = pre + [('(',)] + operands[0] + [('bin', a)] + operands[1] + [(')',), ('bin', b)] + operands[2]
        ok = check_tokens(toks, ws)[0]
    return H.done(ok)


# ---------------------------------------------------------------------------------------------- A: table -> ply
SYMS_A = ['+', '~', 'xor', '**', '<>', '!']
ESC = {s: re.escape(s) for s in SYMS_A}
NA = H.P('n', 4)
FIXED_TOKENS = ['KEYWORD_STRING', 'QUOTED_STRING', 'NUMBER', 'FUNC', 'DOLLAR', 'INDEXER', 'MAPPING', 'MAP',
                'TRUE', 'FALSE', 'NULL']


GROUP_TYPE = {(0, 0): 'left', (0, 1): 'right', (1, 0): 'suffix', (1, 1): 'prefix-only'}


def decode_table(n, g, ta, tb, p):
    """homogeneous table by construction, each exactly once: g[i] = record i opens a new group; (ta,tb)[i] = type of
    the group opened at i (left / right / suffix-only / prefix-only); p[i] = record i is a prefix operator (left/right
    groups; the last record of such a group is binary when none was before).  Bits that do not matter for a record
    are never read, so they do not split paths."""
    kinds, breaks = [], []
    gtype = None
    seen_binary = False
    for i in range(n):
        new = True if i == 0 else bool(g[i])
        if new:
            seen_binary = False
            if ta[i]:
                gtype = 'prefix' if tb[i] else 'suffix'
            else:
                gtype = 'right' if tb[i] else 'left'
        if i:
            breaks.append(new)
        if gtype == 'suffix':
            kinds.append(R.SUFFIX)
        elif gtype == 'prefix':
            kinds.append(R.PREFIX)
        else:
            last = i == n - 1 or bool(g[i + 1])
            if (last and not seen_binary) or not p[i]:
                kinds.append(R.LEFT if gtype == 'left' else R.RIGHT)
                seen_binary = True
            else:
                kinds.append(R.PREFIX)
    return kinds, breaks


def reuse_candidates(kinds, two):
    """None, or one/two (unary record, binary record) pairs: the unary record takes the binary record's symbol"""
    un = [i for i, k in enumerate(kinds) if k in (R.PREFIX, R.SUFFIX)]
    bi = [i for i, k in enumerate(kinds) if k in (R.LEFT, R.RIGHT)]
    out = [()]
    for u in un:
        for b in bi:
            out.append(((u, b),))
    if two:
        for u in un:
            for b in bi:
                for u2 in un:
                    for b2 in bi:
                        if u < u2 and b != b2:
                            out.append(((u, b), (u2, b2)))
    return out


def table_pre(g, ta, tb, p, r):
    first = H.P('first')            # shard: type code of the first group, and whether record 1 opens a group
    if first is not None and (bool(ta[0]), bool(tb[0]), bool(g[1])) != (bool(first[0]), bool(first[1]), bool(first[2])):
        return False
    d = decode_table(NA, g, ta, tb, p)
    with H.NoTracing():
        ncand = len(reuse_candidates(d[0], H.P('reuse2', False)))
    return 0 <= r < ncand


def split_doc(doc):
    if not doc:
        return []
    if not doc.startswith('value : '):
        return None
    return doc[len('value : '):].split('\n| ')


def check_ply(recs, lx, ps):
    """does the generated ply data encode the list-of-groups reading of `recs`? (concrete, untraced)"""
    groups = R.groups_of(recs)
    flat = [(gi, r) for gi, g in enumerate(groups) for r in g]
    syms = [r[0] for _, r in flat]
    tokname = {}
    for sym in set(syms):
        cands = [t for t in lx.tokens if t not in FIXED_TOKENS and getattr(lx, 't_' + t, None) == re.escape(sym)]
        if len(cands) != 1:
            return False
        tokname[sym] = cands[0]
    extra = [t for t in lx.tokens if t not in FIXED_TOKENS]
    if sorted(extra) != sorted(tokname.values()) or len(set(extra)) != len(extra):
        return False
    shared = set(s for s in syms if syms.count(s) > 1)
    prec = ps.precedence
    if len(prec) < 1 or tuple(prec[-1]) != ('left', ','):
        return False
    where = {}
    for idx, entry in enumerate(prec[:-1]):
        if entry[0] not in ('left', 'right') or len(entry) < 2:
            return False
        for t in entry[1:]:
            if t in where:
                return False
            where[t] = (idx, entry[0])
    un = (R.PREFIX, R.SUFFIX)
    ptok = []
    for gi, r in flat:
        nm = tokname[r[0]]
        ptok.append('UNARY_' + nm if (r[1] in un and r[0] in shared) else nm)
    if sorted(where) != sorted(ptok):
        return False
    ok = True
    for i, (gi, ri) in enumerate(flat):
        ii, ai = where[ptok[i]]
        if ri[1] == R.LEFT:
            ok = ok and ai == 'left'
        elif ri[1] == R.RIGHT:
            ok = ok and ai == 'right'
        for j, (gj, rj) in enumerate(flat):
            ij, aj = where[ptok[j]]
            if gi < gj:
                ok = ok and ii > ij                    # earlier group binds strictly tighter
            elif gi == gj and i != j:
                if ri[1] not in un and rj[1] not in un:
                    ok = ok and ii == ij               # binary operators of one group share a level
                elif ri[1] == R.PREFIX and rj[1] == R.LEFT:
                    ok = ok and ii == ij               # prefix closes before a same-level left-assoc operator
                elif ri[1] == R.PREFIX and rj[1] == R.RIGHT:
                    ok = ok and ii < ij                # ... but not before a same-level right-assoc operator
    bdoc = split_doc(ps.p_binary.__doc__)
    udoc = split_doc(ps.p_unary.__doc__)
    if bdoc is None or udoc is None:
        return False
    exp_b = ['value %s value' % tokname[r[0]] for _, r in flat if r[1] not in un]
    exp_u = []
    for _, r in flat:
        if r[1] in un:
            nm = tokname[r[0]]
            rule = ('%s value' if r[1] == R.PREFIX else 'value %s') % nm
            if r[0] in shared:
                rule += ' %%prec UNARY_%s' % nm
            exp_u.append(rule)
    ok = ok and sorted(bdoc) == sorted(exp_b) and sorted(udoc) == sorted(exp_u)
    for _, r in flat:
        if r[0] not in shared:                          # aliases travel with the token name
            ok = ok and ps._aliases.get(tokname[r[0]]) == (r[2] if len(r) > 2 else None)
    return ok


def table_to_ply(g: List[bool], ta: List[bool], tb: List[bool], p: List[bool], r: int) -> bool:
    """
    pre: len(g) == NA and len(ta) == NA and len(tb) == NA and len(p) == NA
    pre: table_pre(g, ta, tb, p, r)
    post: _
    """
    kinds, breaks = decode_table(NA, g, ta, tb, p)
    with H.NoTracing():
        cands = reuse_candidates(kinds, H.P('reuse2', False))
    reuse = cands[r]
    with H.NoTracing():
        syms = list(SYMS_A[:NA])
        for u, b in reuse:
            syms[u] = SYMS_A[b]
        recs = []
        for i in range(NA):
            if i and breaks[i - 1]:
                recs.append(())
            recs.append((syms[i], kinds[i], 'alias%d' % i) if i % 2 == 0 else (syms[i], kinds[i]))
        # ---- the real code; every input is concrete on this path (the solver booleans were all read by decode_table),
        # so it runs natively
        fac = yfactory.YaqlFactory()
        fac.operators = list(recs)
        ops = fac._build_operator_table(fac._name_generator())
        lx = ylexer.Lexer(ops)
        ps = yparser.Parser(lx, ops, fac)
        ok = check_ply(recs, lx, ps)
    return H.done(ok)


# ---------------------------------------------------------------------------------------------- B: insert_operator
NB = H.P('n', 4)
SYMS_B = ['+', '~', 'xor', '**', '<>']


def is_un(k):
    return k == R.PREFIX or k == R.SUFFIX


def is_bin(k):
    return k == R.LEFT or k == R.RIGHT


ANCHOR = H.P('anchor')          # shard: index of the anchor record (-1 = None, n = a symbol not in the table)


class LazyKind:
    """stands for one of the four operator-type constants; which one is decided by two solver booleans the first
    time the code under test compares it with a constant (records whose type is never read stay undecided, so one
    path covers all their types)"""
    __slots__ = ('a', 'b')

    def __init__(self, a, b):
        self.a, self.b = a, b

    def value(self):
        if self.a:
            return R.PREFIX if self.b else R.SUFFIX
        return R.LEFT if self.b else R.RIGHT

    def __eq__(self, other):
        if isinstance(other, LazyKind):
            return other is self or self.value() == other.value()
        return self.value() == other

    def __ne__(self, other):
        return not self.__eq__(other)

    def __hash__(self):
        return hash(self.value())

    def __repr__(self):
        return 'Kind(%s)' % self.value()


def insert_op(ka: List[bool], kb: List[bool], bs: List[bool], dup: int, rev: bool, na: bool, nb: bool, ab: bool,
              create: bool) -> bool:
    """
    pre: len(ka) == NB and len(kb) == NB and len(bs) == NB
    pre: -1 <= dup < NB - 1
    post: _
    """
    n = NB
    anchor = ANCHOR
    recs = []
    if H.P('nvp', True):
        recs.append(('=>', R.NVP))
    syms = list(SYMS_B[:n])
    kinds = [LazyKind(ka[i], kb[i]) for i in range(n)]
    newk = LazyKind(na, nb)
    if dup >= 0:
        # records dup and dup+1 carry one symbol: one unary and one binary record (either order, as '+' / '-' in the
        # default table)
        u, b = (dup, dup + 1) if rev else (dup + 1, dup)
        syms[u] = syms[b]
        kinds[u] = LazyKind(True, ka[u])
        kinds[b] = LazyKind(False, ka[b])
    for i in range(n):
        if i and bs[i]:
            recs.append(())
        recs.append((syms[i], kinds[i]))
    anchor_sym = None if anchor == -1 else ('nosuch' if anchor == n else syms[anchor])
    new = ('@', newk, None)
    fac = yfactory.YaqlFactory()
    fac.operators = list(recs)
    try:
        fac.insert_operator(anchor_sym, ab, '@', newk, create)
        got = fac.operators
    except ValueError:
        got = None
    exp = R.ref_insert(R.groups_of(recs), anchor_sym, ab, new, create)
    if exp is None or got is None:
        return H.done(exp is None and got is None)
    ok = R.is_normal_form(got) and R.groups_of(got) == exp
    if ok and H.P('second'):
        # a second insertion anchored at the operator just inserted
        second_binary = is_bin(newk)
        try:
            fac.insert_operator('@', second_binary, '#', R.LEFT, not create)
            got2 = fac.operators
        except ValueError:
            got2 = None
        exp2 = R.ref_insert(exp, '@', second_binary, ('#', R.LEFT, None), not create)
        if exp2 is None or got2 is None:
            ok = exp2 is None and got2 is None
        else:
            ok = R.is_normal_form(got2) and R.groups_of(got2) == exp2
    return H.done(ok)


# ---------------------------------------------------------------------------------------------- conditions
def focus_ops(tab, base_tab):
    """operators whose relative binding an insertion can have changed: the new symbols, the members of their groups,
    one operator of each adjacent group, and the first and last binary operator of the table"""
    new = [s for s in list(tab.binp) + list(tab.prep) + list(tab.sufp)
           if s not in base_tab.binp and s not in base_tab.prep and s not in base_tab.sufp]
    new += [s for s in tab.prep if s in base_tab.binp and s not in base_tab.prep]
    lv = set()
    for s in new:
        for d in (tab.binp, tab.prep, tab.sufp):
            if s in d:
                lv.add(d[s][0] if isinstance(d[s], tuple) else d[s])
    out = []
    for s in tab.binops:
        if tab.binp[s][0] in lv and s not in out:
            out.append(s)
    for l in sorted(lv):
        for d in (-1, 1):
            near = [s for s in tab.binops if tab.binp[s][0] == l + d]
            if not near:
                near = [s for s in tab.binops if tab.binp[s][0] == l + 2 * d]
            if near and near[0] not in out:
                out.append(near[0])
    for s in (tab.binops[0], tab.binops[-1]):
        if s not in out:
            out.append(s)
    return out, new


def conditions(tier, seed):
    hist = [{'name': 'factory_history[%s]' % ('legacy' if lg else 'default'), 'func': 'factory_history', 'timeout': 600, 'param': {'legacy': lg},
            'bounds': 'one factory (default or legacy): create, insert_operator, create, insert_operator, create, with an engine of '
                      'the other stock table alive in the same process; every engine must parse %d operator pairs (plus the inserted '
                      'operators) by its own table; %d x %d insertion pairs (selectors)' % (len(HIST_TEXT_OPS), len(HIST_INSERTS), len(HIST_INSERTS) - 1)}
            for lg in (False, True)]
    quick = tier == 'quick'
    out = []

    def add(name, func, param, bounds, timeout=300, **kw):
        out.append(dict({'name': name, 'func': func, 'timeout': timeout, 'param': param, 'bounds': bounds}, **kw))

    # ---- A
    nmax = 4 if quick else 5
    for n in range(1, nmax + 1):
        firsts = [None] if n < 4 else [[a, b, c] for a in (0, 1) for b in (0, 1) for c in (0, 1)]
        for first in firsts:
            add('A.table_to_ply[n=%d%s]' % (n, '' if first is None else ',first=%s%s' % (
                GROUP_TYPE[tuple(first[:2])], '|' if first[2] else '')),
                'table_to_ply', {'n': n, 'reuse2': (not quick and n <= 4), 'first': first},
                'all homogeneous tables of exactly %d records (kinds, group breaks as solver booleans)%s, each with '
                'every choice of <=%d unary record(s) taking a binary record\'s symbol; each path is one table'
                % (n, '' if first is None else ', first group %s of %s' % (
                    GROUP_TYPE[tuple(first[:2])], 'one record' if first[2] else 'at least two records'),
                   2 if (not quick and n <= 4) else 1), timeout=600 if quick else 3000)
    # ---- B
    nb = 3 if quick else 4
    for n in range(1, nb + 1):
        for anchor in range(-1, n + 1):
            add('B.insert_operator[n=%d,anchor=%d]' % (n, anchor), 'insert_op',
                {'n': n, 'anchor': anchor, 'second': n < nb, 'nvp': True},
                'table of %d records after the keyword-operator record; record types undecided until read (4 types), '
                'all group-break vectors, optionally two adjacent records sharing a symbol (unary+binary), anchor = %s, '
                'symbolic arity flag / new type / create_group%s'
                % (n, 'None' if anchor < 0 else ('missing symbol' if anchor == n else 'record %d' % anchor),
                   '; followed by a second insertion anchored at the new operator' if n < nb else ''),
                timeout=400)
    if not quick:
        for anchor in range(-1, 3):
            add('B.insert_operator[n=2,anchor=%d,no-nvp]' % anchor, 'insert_op',
                {'n': 2, 'anchor': anchor, 'second': True, 'nvp': False}, 'as above, table without keyword operator '
                '(legacy)', timeout=400)
    # ---- C
    dtab = R.Table(make_factory('default').operators)
    for a in dtab.binops:
        add('C.pairs[default,%s]' % a, 'pairs', {'table': 'default', 'ops1': [a]},
            'default table: first operator %s, every second binary operator (%d), every placement of <=2 prefix '
            'operators (none,+,-,not)^2; text selected by symbolic indices, one concrete parse per path'
            % (a, len(dtab.binops)), timeout=300)
    ltab = R.Table(make_factory('legacy').operators)
    if quick:
        add('C.pairs[legacy,=> first]', 'pairs', {'table': 'legacy', 'ops1': ['=>']},
            'legacy table: => against every binary operator, <=2 prefix operators', timeout=300)
        add('C.pairs[legacy,=> second]', 'pairs', {'table': 'legacy', 'ops2': ['=>']},
            'legacy table: every binary operator against =>, <=2 prefix operators', timeout=300)
    else:
        for a in ltab.binops:
            add('C.pairs[legacy,%s]' % a, 'pairs', {'table': 'legacy', 'ops1': [a]},
                'legacy table: first operator %s, every second operator, <=2 prefix operators' % a, timeout=300)
    names = ['prefix-in-left-group', 'prefix-in-right-group', 'suffix-group', 'unary-reuses-binary-symbol'] if quick \
        else list(INSERT_TABLES)
    specs = [(n, n) for n in names]
    if not quick:
        rnd = random.Random(seed)
        for k in range(4):
            sp = random_insert_spec(rnd)
            specs.append(('seeded%d:%s' % (k, ';'.join('%s/%s/%s' % (o[0], o[2], o[3][:3] + ('+g' if o[4] else ''))
                                                       for o in sp[1])), sp))
    for label, sp in specs:
        f = make_factory(sp)
        tab = R.Table(f.operators)
        base = R.Table(make_factory(INSERT_TABLES[sp][0] if isinstance(sp, str) else sp[0]).operators)
        foc, new = focus_ops(tab, base)
        pres = [p for p in tab.preops if p in new] + ['-']
        if quick or label.startswith('seeded'):
            param = {'table': sp, 'ops1': foc, 'ops2': foc, 'pres': pres if quick else pres + ['not']}
            add('C.pairs[%s]' % label, 'pairs', param,
                'table %s: ordered pairs over %s x placements of <=2 prefix operators from %s (and <=2 suffix '
                'operators)' % (label, foc, param['pres']), timeout=600)
        else:
            for a in tab.binops:
                param = {'table': sp, 'ops1': [a], 'pres': pres + ['not']}
                add('C.pairs[%s,%s]' % (label, a), 'pairs', param,
                    'table %s: first operator %s x every second operator x placements of <=2 prefix operators from '
                    '%s (and <=2 suffix operators)' % (label, a, param['pres']), timeout=600)
    # triples without prefixes
    if not quick:
        for tname in ('default', 'legacy'):
            t = R.Table(make_factory(tname).operators)
            for a in t.binops:
                add('C.triples[%s,%s]' % (tname, a), 'triples', {'table': tname, 'ops1': [a]},
                    '%s table: first operator %s, every 2nd and 3rd binary operator, no prefix' % (tname, a),
                    timeout=400)
    else:
        for a in ('*', '->', 'and'):
            add('C.triples[default,%s]' % a, 'triples', {'table': 'default', 'ops1': [a]},
                'default table: first operator %s, every 2nd and 3rd binary operator, no prefix' % a, timeout=400)
    # variants: parentheses, index, call, list, map, white space
    vops = ['.', '*', '->'] if quick else ['.', '*', 'and', '->']
    vops2 = ['*', '->'] if quick else vops
    for tname in (('default',) if quick else ('default', 'legacy')):
        for sh in SHAPES_ALL:
            add('C.variants[%s,%s]' % (tname, sh), 'variants', {'table': tname, 'ops1': vops2 if sh == 'method' else vops, 'ops2': vops2,
                                                               'shapes': [sh], 'pres': ['-'] if quick else ['-', 'not']},
                '%s table: operator pairs over %s, operand shape %s at each of 3 positions, 5 parenthesisations, 3 '
                'white-space renderings, optional leading prefix operator' % (tname, vops, sh), timeout=400)
    out.extend(hist)
    return out


# ---------------------------------------------------------------------------------------------- validate / replay
def _eval_ref(tree, env):
    k = tree[0]
    if k == 'V':
        return env[tree[1]]
    if k == 'U':
        v = _eval_ref(tree[2], env)
        return {'-': lambda: -v, '+': lambda: +v, 'not': lambda: not v}[tree[1]]()
    a, b = _eval_ref(tree[2], env), _eval_ref(tree[3], env)
    import operator as op
    return {'+': op.add, '-': op.sub, '*': op.mul, '/': op.floordiv, 'mod': op.mod, '>': op.gt, '<': op.lt,
            '>=': op.ge, '<=': op.le, '=': op.eq, '!=': op.ne, 'and': lambda x, y: x and y,
            'or': lambda x, y: x or y}[tree[1]](a, b)


def validate():
    """the reference's reading of the default table reproduces the values yaql's own tests and documentation expect
    (grouping visible through arithmetic), evaluated on the reference TREE with Python operators"""
    bad = []
    f = make_factory('default')
    tab = R.Table(f.operators)
    eng = f.create()
    ctx = yaql.create_context()
    env = {'$a': 7, '$b': 2, '$c': 3, '$d': 5}
    for k, v in env.items():
        ctx[k] = v
    ops = ['+', '-', '*', '/', 'mod', '>', '<=', '=', '!=']
    n = 0
    for o1 in ops:
        for o2 in ops:
            for o3 in ('+', '*', '-'):
                for u in (None, '-'):
                    toks = seq_tokens([o1, o2, o3], [None, u], [])
                    text = R.render(toks)
                    tree = R.ref_parse(toks, tab)
                    try:
                        exp = ('ok', _eval_ref(tree, env))
                    except Exception as e:
                        exp = ('err', type(e).__name__)
                    try:
                        got = ('ok', eng(text).evaluate(context=ctx))
                    except Exception as e:
                        got = ('err', type(e).__name__)
                    n += 1
                    if exp[0] == 'ok' and got[0] == 'ok' and (got[1] != exp[1] or type(got[1]) is not type(exp[1])):
                        bad.append('reference tree of %r evaluates to %r, yaql gives %r' % (text, exp[1], got[1]))
    # documented examples (doc/source/language_reference.rst, tests/test_engine.py)
    for text, exp in [('1 + 2 * 3', 7), ('(1 + 2) * 3', 9), ('not true or true', True), ('2 - 1 - 1', 0),
                      ('-2 + 5', 3), ('1 < 2 and 2 < 3', True), ('[1, 2][0] + 1', 2), ('let(x => 3) -> $x + 1', 4)]:
        got = eng(text).evaluate(context=ctx)
        if got != exp:
            bad.append('documented example %r gives %r, expected %r' % (text, got, exp))
    return bad[:5]


def _c_tokens(cond, a):
    fn = cond['func']
    if fn == 'pairs':
        return seq_tokens([OPS1[a['o1']], OPS2[a['o2']]], [PRES[a['u0']], PRES[a['u1']]], [SUFS[a['s0']], SUFS[a['s1']]])
    if fn == 'triples':
        return seq_tokens([OPS1[a['o1']], OPS2[a['o2']], OPS3[a['o3']]], [], [])
    return None


def replay(cond, args):
    """re-run the selection on plain CPython: the text is parsed by a freshly built real engine (public API) and
    compared with the reference; for A/B the real table code is re-run on the concrete table"""
    import props.c02 as me
    fn = getattr(me, cond['func'])
    try:
        ok = fn(**args)
    except Exception as e:
        return {'reproduced': True, 'key': 'C02/exception/%s/%s' % (cond['func'], type(e).__name__),
                'what': '%s%r raised %r' % (cond['name'], args, e)}
    if ok:
        return {'reproduced': False}
    table = (cond.get('param') or {}).get('table', 'default')
    label = table if isinstance(table, str) else 'inserted'
    if cond['func'] == 'factory_history':
        return {'reproduced': True, 'key': 'C02/factory-history',
                'what': 'one %s factory: create(), insert_operator%r, create(), insert_operator%r, create() (and a %s engine in the same '
                        'process): some engine does not parse by its own operator table' % (
                            'legacy' if (cond.get('param') or {}).get('legacy') else 'default', tuple(HIST_INSERTS[args['i']]),
                            tuple(HIST_INSERTS[args['j']]), 'default' if (cond.get('param') or {}).get('legacy') else 'legacy')}
    if cond['func'] in ('pairs', 'triples'):
        toks = _c_tokens(cond, args)
        okk, text, got, exp = check_tokens(toks, H.P('ws', 0))
        return {'reproduced': True, 'key': 'C02/tree/%s' % label,
                'what': 'table %s: %r parses as %r, the operator table demands %r' % (table, text, got, exp)}
    if cond['func'] == 'variants':
        return {'reproduced': True, 'key': 'C02/tree-variant/%s' % label,
                'what': 'table %s: variant %r: real parse differs from the reference' % (table, args)}
    if cond['func'] == 'table_to_ply':
        kinds, breaks = decode_table(NA, args['g'], args['ta'], args['tb'], args['p'])
        return {'reproduced': True, 'key': 'C02/table-to-ply',
                'what': 'table kinds=%r breaks=%r reuse#%r: generated ply precedence/rules do not encode the table'
                        % (kinds, breaks, args['r'])}
    return {'reproduced': True, 'key': 'C02/insert-operator',
            'what': 'insert_operator on %r differs from the list-of-groups reference' % (args,)}


# ---------------------------------------------------------------------------------------------------------------
# the stock tables themselves (C-conditions compare trees with whatever table the factory holds; the stock default and
# legacy tables are pinned here, written from the language: member access, then indexing, unary sign, regex match,
# multiplicative, additive, comparison/equality/in, not, and, or, then the right-associative context-passing '->';
# the legacy dialect has no keyword operator and '=>' as a left-associative binary operator in its own group below 'or')
_L, _R, _P = 'BINARY_LEFT_ASSOCIATIVE', 'BINARY_RIGHT_ASSOCIATIVE', 'PREFIX_UNARY'
DEFAULT_SPEC = [[('.', _L), ('?.', _L)], [('[]', _L), ('{}', _L)], [('+', _P), ('-', _P)], [('=~', _L), ('!~', _L)],
                [('*', _L), ('/', _L), ('mod', _L)], [('+', _L), ('-', _L)],
                [('>', _L), ('<', _L), ('>=', _L), ('<=', _L), ('!=', _L), ('=', _L), ('in', _L)],
                [('not', _P)], [('and', _L)], [('or', _L)], [('->', _R)]]
LEGACY_SPEC = DEFAULT_SPEC[:-1] + [[('=>', _L)], [('->', _R)]]


def _groups_of(fct):
    groups, cur, kv = [], [], None
    for rec in fct.operators:
        if not rec:
            if cur:
                groups.append(cur)
                cur = []
            continue
        if rec[1] == 'NAME_VALUE_PAIR':
            kv = rec[0]
            continue
        cur.append((rec[0], rec[1]))
    if cur:
        groups.append(cur)
    return [sorted(g) for g in groups], kv


def lemmas(tier):
    import yaql
    from yaql import legacy as yl
    out = []
    for label, fct, spec, kv in (('default', yaql.YaqlFactory(), DEFAULT_SPEC, '=>'), ('legacy', yl.YaqlFactory(), LEGACY_SPEC, None)):
        got, gkv = _groups_of(fct)
        want = [sorted(g) for g in spec]
        ok = got == want and gkv == kv
        r = {'name': 'stock-table[%s]' % label, 'query': 'groups (tightest first) and name-value operator of the stock %s factory' % label,
             'result': 'equal' if ok else 'differs', 'expected': 'equal', 'ok': ok, 'time_s': 0}
        if not ok:
            diff = [(i, a, b) for i, (a, b) in enumerate(zip(got + [None] * len(want), want + [None] * len(got))) if a != b][:3]
            r['violation'] = {'key': 'C02/stock-table/%s' % label, 'args': {'table': label},
                              'what': 'the %s operator table differs from the language\'s precedence order: first differing groups '
                                      '(index, table, expected) %r; keyword operator %r (expected %r)' % (label, diff, gkv, kv)}
        out.append(r)
    return out
