"""Reference models for C19, written from the doc-strings of yaql/standard_library/strings.py and the property text
with explicit index loops (no str.find/str.split/str.strip/str.replace/slicing-with-adjusted-indexes)."""
import collections.abc
import string as _string

CHAR_FLAGS = ['digits', 'hexdigits', 'ascii_lowercase', 'ascii_uppercase', 'ascii_letters', 'letters', 'octdigits',
              'punctuation', 'printable', 'lowercase', 'uppercase', 'whitespace']


def camel(name):
    parts = name.split('_')
    return parts[0] + ''.join(p.title() for p in parts[1:])


def m_len(s):
    n = 0
    for _ in s:
        n += 1
    return n


def m_cmp(a, b):
    """lexicographic by code point: -1, 0, 1"""
    i = 0
    while i < len(a) and i < len(b):
        if a[i] != b[i]:
            return -1 if ord(a[i]) < ord(b[i]) else 1
        i += 1
    if len(a) == len(b):
        return 0
    return -1 if len(a) < len(b) else 1


def at(s, k, sub):
    """sub occurs in s at offset k"""
    m = len(sub)
    if k < 0 or k + m > len(s):
        return False
    j = 0
    while j < m:
        if s[k + j] != sub[j]:
            return False
        j += 1
    return True


def m_first(s, sub, lo, hi):
    """least k >= lo with sub at k and k+len(sub) <= hi (hi <= len(s)), else -1"""
    k = lo
    while k + len(sub) <= hi:
        if at(s, k, sub):
            return k
        k += 1
    return -1


def m_last(s, sub, lo, hi):
    k = hi - len(sub)
    while k >= lo:
        if at(s, k, sub):
            return k
        k -= 1
    return -1


def m_index(s, sub, start, length, last):
    """indexOf / lastIndexOf: negative start counts from the end; the window is [start, start+length) cut at the end
    of the string; negative or missing length = up to the end of the string"""
    n = len(s)
    st = start + n if start < 0 else start
    if length is None or length < 0:
        end = n
    else:
        end = st + length
        if end > n:
            end = n
    return m_last(s, sub, st, end) if last else m_first(s, sub, st, end)


def m_substring(s, start, length):
    n = len(s)
    st = start + n if start < 0 else start
    out = ''
    k = st
    while k < n and (length < 0 or k < st + length):
        out += s[k]
        k += 1
    return out


def m_starts(s, p):
    return at(s, 0, p)


def m_ends(s, p):
    return at(s, len(s) - len(p), p)


def _strippable(c, chars):
    if chars is None:
        return c.isspace()
    for x in chars:
        if x == c:
            return True
    return False


def m_trim(s, chars, left, right):
    i, j = 0, len(s)
    if left:
        while i < j and _strippable(s[i], chars):
            i += 1
    if right:
        while j > i and _strippable(s[j - 1], chars):
            j -= 1
    return s[i:j]


def m_norm(s, chars):
    if s is None:
        return None
    v = m_trim(s, chars, True, True)
    return v if len(v) > 0 else None


def m_is_empty(s, trim_spaces, chars):
    if s is None:
        return True
    if trim_spaces:
        s = m_trim(s, chars, True, True)
    return len(s) == 0


def m_join(sep, items):
    out = ''
    first = True
    for x in items:
        if not first:
            out += sep
        out += x
        first = False
    return out


def m_split(s, sep, maxsplit):
    n = len(s)
    out = []
    cnt = 0
    if sep is None:
        i = 0
        while True:
            while i < n and s[i].isspace():
                i += 1
            if i >= n:
                break
            if 0 <= maxsplit <= cnt:
                out.append(s[i:])
                break
            j = i
            while j < n and not s[j].isspace():
                j += 1
            out.append(s[i:j])
            cnt += 1
            i = j
        return out
    m = len(sep)
    i = 0
    cur = 0
    while i + m <= n and not (0 <= maxsplit <= cnt):
        if at(s, i, sep):
            out.append(s[cur:i])
            i += m
            cur = i
            cnt += 1
        else:
            i += 1
    out.append(s[cur:])
    return out


def m_rsplit(s, sep, maxsplit):
    n = len(s)
    out = []
    cnt = 0
    if sep is None:
        j = n
        while True:
            while j > 0 and s[j - 1].isspace():
                j -= 1
            if j <= 0:
                break
            if 0 <= maxsplit <= cnt:
                out.append(s[:j])
                break
            i = j
            while i > 0 and not s[i - 1].isspace():
                i -= 1
            out.append(s[i:j])
            cnt += 1
            j = i
        out.reverse()
        return out
    m = len(sep)
    j = n            # candidate separator occupies [j-m, j)
    cur = n
    while j - m >= 0 and not (0 <= maxsplit <= cnt):
        if at(s, j - m, sep):
            out.append(s[j:cur])
            j -= m
            cur = j
            cnt += 1
        else:
            j -= 1
    out.append(s[:cur])
    out.reverse()
    return out


def m_replace(s, old, new, count):
    """first `count` leftmost non-overlapping occurrences (all when count < 0); old non-empty"""
    out = ''
    i = 0
    c = 0
    n = len(s)
    while i < n:
        if (count < 0 or c < count) and at(s, i, old):
            out += new
            i += len(old)
            c += 1
        else:
            out += s[i]
            i += 1
    return out


def m_replace_pairs(s, pairs, count):
    for k, v in pairs:
        s = m_replace(s, k, v, count)
    return s


def m_repeat(s, n):
    out = ''
    k = 0
    while k < n:
        out += s
        k += 1
    return out


def m_upper(s):
    return s.upper()


def m_lower(s):
    return s.lower()


def m_str(v):
    if v is None:
        return 'null'
    if v is True:
        return 'true'
    if v is False:
        return 'false'
    if isinstance(v, str):
        return v
    return str(v)


def m_hex(n):
    digits = '0123456789abcdef'
    a = -n if n < 0 else n
    out = ''
    while True:
        out = digits[a % 16] + out
        a //= 16
        if a == 0:
            break
    return ('-0x' if n < 0 else '0x') + out


_ASCII_LOWER = 'abcdefghijklmnopqrstuvwxyz'
_ASCII_UPPER = 'ABCDEFGHIJKLMNOPQRSTUVWXYZ'
_DIGITS = '0123456789'
_PUNCT = '!"#$%&\'()*+,-./:;<=>?@[\\]^_`{|}~'
_WS = ' \t\n\r\x0b\x0c'
CHAR_SETS = {
    'digits': _DIGITS, 'hexdigits': _DIGITS + 'abcdefABCDEF', 'ascii_lowercase': _ASCII_LOWER,
    'ascii_uppercase': _ASCII_UPPER, 'ascii_letters': _ASCII_LOWER + _ASCII_UPPER,
    # "letters"/"lowercase"/"uppercase": documented as lowercase and uppercase letters; the only letter constants the
    # doc-string of the string module defines in Python 3 are the ASCII ones
    'letters': _ASCII_LOWER + _ASCII_UPPER, 'octdigits': '01234567', 'punctuation': _PUNCT,
    'printable': _DIGITS + _ASCII_LOWER + _ASCII_UPPER + _PUNCT + _WS, 'lowercase': _ASCII_LOWER,
    'uppercase': _ASCII_UPPER, 'whitespace': _WS}


def m_characters(flags):
    out = set()
    for name, f in zip(CHAR_FLAGS, flags):
        if f:
            out |= set(CHAR_SETS[name])
    return out


class PairMapping(collections.abc.Mapping):
    """an ordered mapping that never hashes its (symbolic) keys"""

    def __init__(self, pairs):
        self._pairs = list(pairs)

    def __getitem__(self, k):
        for a, b in self._pairs:
            if a == k:
                return b
        raise KeyError(k)

    def __iter__(self):
        return iter([a for a, _ in self._pairs])

    def __len__(self):
        return len(self._pairs)

    def items(self):
        return list(self._pairs)


# -----------------------------------------------------------------------------------------------------------------
DOC_EXAMPLES = [   # (model value, documented value) - the doc-string examples of strings.py
    (lambda: m_substring('abcd', 1, -1), 'bcd'), (lambda: m_substring('abcd', 1, 2), 'bc'),
    (lambda: m_index('cabcdab', 'ab', 0, None, False), 1), (lambda: m_index('cabcdab', 'ab', 2, None, False), 5),
    (lambda: m_index('cabcdab', 'ab', 6, None, False), -1), (lambda: m_index('cabcdab', 'bc', 2, 2, False), 2),
    (lambda: m_index('cabcdab', 'ab', 0, None, True), 5), (lambda: m_index('cabcdbc', 'bc', 2, 5, True), 5),
    (lambda: m_split('abc     de  f', None, -1), ['abc', 'de', 'f']), (lambda: m_split('abc     de  f', None, 1), ['abc', 'de  f']),
    (lambda: m_split('abcde', 'c', -1), ['ab', 'de']), (lambda: m_rsplit('abc     de  f', None, 1), ['abc     de', 'f']),
    (lambda: m_join('|', ['abc', 'de', 'f']), 'abc|de|f'), (lambda: m_trim('  abcd ', None, True, True), 'abcd'),
    (lambda: m_trim('aababa', 'a', True, True), 'bab'), (lambda: m_trim('aababa', 'a', True, False), 'baba'),
    (lambda: m_trim('aababa', 'a', False, True), 'aabab'), (lambda: m_norm('aaaa', 'a'), None),
    (lambda: m_is_empty('abaab', True, 'ab'), True), (lambda: m_is_empty('aba', True, 'a'), False),
    (lambda: m_replace('abaab', 'ab', 'cd', -1), 'cdacd'),
    (lambda: m_replace_pairs('abc ab abc', [('abc', 'xx'), ('ab', 'yy')], -1), 'xx yy xx'),
    (lambda: m_replace_pairs('abc ab abc', [('ab', 'yy'), ('abc', 'xx')], -1), 'yyc yy yyc'),
    (lambda: m_replace_pairs('abc ab abc', [('ab', 'yy'), ('abc', 'xx')], 1), 'yyc ab xx'),
    (lambda: m_repeat('ab', 2), 'abab'), (lambda: m_hex(256), '0x100'), (lambda: m_str(123), '123'),
    (lambda: m_starts('abcd', 'ab') or m_starts('abcd', 'xx'), True), (lambda: m_ends('abcd', 'cd'), True),
    (lambda: sorted(m_characters([True] + [False] * 11)), sorted('0123456789')),
]


def validate():
    bad = []
    for i, (f, want) in enumerate(DOC_EXAMPLES):
        got = f()
        if got != want:
            bad.append('C19 model disagrees with doc-string example #%d: %r != %r' % (i, got, want))
    words = ['', 'a', 'ab', 'aa', 'aba', 'abab', ' a ', '  ', 'a b', '\ta\n', 'aaa', 'é x']
    subs = ['a', 'b', 'ab', 'aa', ' ', 'ba']
    for s in words:
        for sub in subs:
            for n in range(-1, 4):
                for mine, ref in ((m_split(s, sub, n), s.split(sub, n)), (m_rsplit(s, sub, n), s.rsplit(sub, n)),
                                  (m_replace(s, sub, 'xy', n), s.replace(sub, 'xy', n))):
                    if mine != ref:
                        bad.append('C19 model vs CPython on %r/%r/%d: %r != %r' % (s, sub, n, mine, ref))
            for st in range(0, len(s) + 3):
                for ln in list(range(0, len(s) + 3)):
                    if m_index(s, sub, st, ln, False) != s.find(sub, st, st + ln) or \
                            m_index(s, sub, st, ln, True) != s.rfind(sub, st, st + ln):
                        bad.append('C19 index model vs CPython on %r/%r/%d/%d' % (s, sub, st, ln))
            if m_trim(s, sub, True, True) != s.strip(sub) or m_trim(s, sub, True, False) != s.lstrip(sub) \
                    or m_trim(s, sub, False, True) != s.rstrip(sub):
                bad.append('C19 trim model vs CPython on %r/%r' % (s, sub))
        for n in range(-1, 4):
            if m_split(s, None, n) != s.split(None, n) or m_rsplit(s, None, n) != s.rsplit(None, n):
                bad.append('C19 whitespace split model vs CPython on %r/%d' % (s, n))
        if m_trim(s, None, True, True) != s.strip():
            bad.append('C19 whitespace trim model vs CPython on %r' % s)
    for n in (0, 1, -1, 15, 16, 255, -256, 4095):
        if m_hex(n) != hex(n):
            bad.append('C19 hex model on %d' % n)
    for name in CHAR_FLAGS:
        if hasattr(_string, name) and set(getattr(_string, name)) != set(CHAR_SETS[name]):
            bad.append('C19 character set %s differs from the string module' % name)
    return bad[:5]
