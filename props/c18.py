"""C18 - concurrent evaluations do not interfere.

Reduction (stated, not mechanised): evaluations of one engine communicate only through objects reachable from the
shared roots (statement trees, engine, the shared prepared context chain with its FunctionDefinitions, parameter and
type objects, payload closures/defaults, yaql module globals and class attributes).  If no evaluation leaves a write
in that heap at a scheduling point (entry of runner.call) every evaluation reads the same immutable heap whatever the
schedule, hence returns what it returns alone (Bernstein).

guarantee harness: symbolic input document; the real evaluation of a pool statement in its own child of the shared
   context; at every runner.call entry a structural fingerprint of the shared heap must equal the initial one, and
   class-level __setattr__ traps must see no write on a pre-existing instance of yaql's core classes.
rely harness: if a write is ever observed (guarantee set G non-empty), the written fields are overwritten at a symbolic
   scheduling point with the values another evaluation left there; the result must equal the solo result.
replay: real threads under a hand-off scheduler at runner.call entry.
"""
import threading
import types

import yaql
from yaql.language import contexts, expressions, factory, runner, specs, utils, yaqltypes

from vf import h as H

ID = 'C18'
KNOWN = set(H.P('known', ()))
FUNCTIONS_ENCODED = ['yaql.language.expressions.Statement.evaluate/Function.__call__', 'yaql.language.runner.call/choose_overload',
                     'yaql.language.specs.FunctionDefinition.map_args/get_delegate', 'yaql.language.contexts.Context',
                     'payloads of every standard-library module reached by the statement pool', 'yaql.eval module caches']
BOUNDS = {'quick': 'pool of ~36 statements touching every library module; input document with a symbolic int; fingerprint of the shared heap at every runner.call entry; rely: one interference point',
          'thorough': 'same with a larger pool, second evaluation of the same statement, longer budgets'}
OUTSIDE = ['preemption at bytecode granularity inside a payload (container-content mutations undone before the next dispatch)',
           'free-running threads under a microsecond switch interval', 'host-registered functions',
           'the Bernstein reduction itself is an argument, not a mechanised proof']
ASSUMPTIONS = ['scheduling points are runner.call entries (the property\'s granularity)',
               'shared roots = pool statements + engine + shared context chain + __dict__ of every loaded yaql.* module',
               'idempotent caches (FrozenDict._hash) are reported as benign shared writes when no schedule changes a result']
EXPLANATION = ('CrossHair+z3 executes each pool statement on a symbolic input document; on every path the shared heap fingerprint '
               'must be unchanged at every dispatch and no pre-existing core object may be written (guarantee). Observed writes '
               'are turned into symbolic interference at a symbolic dispatch point (rely). Counterexamples are replayed with '
               'real threads under a hand-off scheduler.')
TECHNIQUE = 'bounded symbolic execution (CrossHair+z3) with heap-fingerprint frame conditions at dispatch points (guarantee) and havoc of observed shared writes (rely); replay with real threads'

ENG = yaql.YaqlFactory().create()


def _prepare_shared():
    """the host's prepared context: standard library + a variable + a function defined in YAQL (def) whose lambda therefore
    outlives the evaluation that created it + a host function declared with an AnyOf type"""
    base = yaql.create_context()
    base['cfg'] = 7
    # plain mutable host values, put there as they are (context variables are not converted)
    base['defaults'] = {'token': 's3cr3t', 'n': 1}
    base['path'] = [1, 2]
    base['tags'] = {1, 2}

    @specs.parameter('x', yaqltypes.AnyOf(yaqltypes.String(), yaqltypes.Integer()))
    def anyof(x):
        return x
    base.register_function(anyof)
    eng_raw = yaql.YaqlFactory().create(options={'yaql.convertOutputData': False})
    prepared = eng_raw('def(twice, $ * 2) -> def(addcfg, $ + $cfg) -> $').evaluate(context=base.create_child_context())
    ctx = eng_raw('def(twice, $ * 2) -> def(addcfg, $1 + $cfg) -> let(k => 1) -> context()') if False else None
    return base


def _defs_context(base):
    """child of `base` holding functions created by `def` (their lambdas are shared by every later evaluation)"""
    from yaql.language import contexts as _c
    holder = {}

    def grab(context):
        holder['ctx'] = context
        return 1
    child = base.create_child_context()
    child.register_function(specs.inject('context', yaqltypes.Context())(grab), name='grab')
    eng = yaql.YaqlFactory().create()
    eng('def(twice, $ * 2) -> def(addcfg, $ + $cfg) -> grab()').evaluate(context=child)
    return holder['ctx'].parent            # the context in which grab() was called holds both definitions


SHARED_BASE = _prepare_shared()
SHARED = _defs_context(SHARED_BASE)


def _noop_finalizer(x):
    return x


BARE = yaql.create_context(finalizer=_noop_finalizer)      # a hand-assembled chain without '#finalize' and '#iter'
PLAIN = yaql.create_context()

POOL_SRC = [
    'let(a => $.a) -> $.l.where($.x > $a).select($.y)',
    '$.l.where($.x >= 1).select($.y).orderBy($)',
    '$.b.select($ * 2).sum()',
    'let(k => $.a) -> def(f, $ + $k) -> f(2)',
    '[$.a, $.a + 1].unpack(x, y) -> $x + $y',
    'with($.a, 2) -> $1 * $2 + $cfg',
    '$.s.toUpper() + $.s.substring(0, 1)',
    '$.s =~ "a.*"',
    'regex("(a)(b)?").search($.s + "ab", $1.value)',
    '$.s.replace("a", "bb").len()',
    'switch($.a > 0 => "p", $.a < 0 => "n", true => "z")',
    'coalesce(null, $.a)',
    '$.a > 0 and $.b.len() > 1 or false',
    '$.l.groupBy($.x).select([$[0], $[1].len()])',
    'dict($.l.select([$.y, $.x]))',
    '{a => $.a}.set(b, 2).keys().orderBy($)',
    'set($.b).union(set([1])).len()',
    '$.b.memorize().take(2)',
    'range(0, 5).where($ mod 2 = 0).toList()',
    'sequence().take(3)',
    '[1, 2, $.a].accumulate($1 + $2)',
    '$.b.orderBy($).thenBy(-$)',
    '$.b.zip($.b).toList()',
    'timespan(days => 1).hours + $.a',
    'datetime(2020, 1, 2).year + $.a',
    'max($.a, 3) + min($.a, 3)',
    'int("3") + float("1.5") + $.a',
    'str($.a) + $.s',
    '$.l.y',
    '$.l.join($.l, $1.x = $2.x, [$1.y, $2.y])',
    '$.b.distinct().reverse()',
    'let(a => $.a) -> ($.b.any($ > $a) = $.b.all($ > $a))',
    '$.l.select($.get(x)).indexOf($.a)',
    '$.s.split("a").join("-")',
    '[$.a, null, $.s].where($ != null).len()',
    '$.b.first() + $.b.last() + $.b.len()',
    '$.l.toDict($.y, $.x)',
    '$.a in $.b or $.s in "abc"',
    'call(len, [$.b], {})',
    'twice($.a) + addcfg($.a)',
    '$.b.select(twice($))',
    'anyof($.a) + anyof($.a) + len(anyof($.s))',
    '$.b.aggregate($1 + $2, 0) / 2',
    '$defaults.delete(token).len() + $defaults.set(k, $.a).len()',
    '$path.insert(0, $.a).len() + $path.delete(0).len() + ($path + [$.a]).len()',
    '$tags.add($.a).len() + $tags.remove(1).len()',
]
STMTS = [ENG(t) for t in POOL_SRC]
NP = len(STMTS)
HEAVY = set(i for i, t in enumerate(POOL_SRC) if any(w in t for w in ('groupBy', 'dict(', 'join(', 'toDict', 'distinct', 'indexOf', 'str(', 'float(', '.any(', 'in $.b', '$tags')))
SBOX = [(i,) for i in range(NP)]


def make_doc(a, b, s):
    return {'a': a, 'b': [b, a, 3], 's': s, 'l': [{'x': a, 'y': s}, {'x': 1, 'y': 'q'}]}


# ---------------------------------------------------------------- structural heap fingerprint (outside the tracer)
ATOM = (int, float, str, bytes, bool, type(None), complex)


def _has(c):
    try:
        c.cell_contents
        return True
    except ValueError:
        return False


def fingerprint(roots):
    seen = {}
    order = []

    def ref(o):
        if isinstance(o, ATOM):
            return ('a', type(o).__name__, o)
        k = id(o)
        if k not in seen:
            seen[k] = len(seen)
            order.append(o)
        return ('r', seen[k])
    for r in roots:
        ref(r)
    out = []
    i = 0
    while i < len(order):
        o = order[i]
        i += 1
        t = type(o)
        if isinstance(o, (list, tuple)):
            out.append((t.__name__, tuple(ref(x) for x in o)))
        elif isinstance(o, dict):
            out.append((t.__name__, tuple((ref(k), ref(v)) for k, v in o.items())))
        elif isinstance(o, (set, frozenset)):
            out.append((t.__name__, len(o), tuple(sorted(repr(x) for x in o if isinstance(x, ATOM))),
                        tuple(sorted(ref(x)[1] for x in o if not isinstance(x, ATOM)))))
        elif isinstance(o, types.FunctionType) and (o.__module__ or '').startswith(('props.', 'vf.')):
            out.append(('harness-fn', o.__qualname__))
        elif isinstance(o, types.FunctionType):
            cells = tuple(ref(c.cell_contents) for c in (o.__closure__ or ()) if _has(c))
            out.append(('fn', o.__qualname__, ref(o.__dict__), cells, ref(o.__defaults__), ref(o.__kwdefaults__)))
        elif isinstance(o, types.MethodType):
            out.append(('method', ref(o.__func__), ref(o.__self__)))
        elif isinstance(o, (types.ModuleType, type)):
            if isinstance(o, type) and o.__module__.startswith('yaql'):
                out.append(('class', o.__qualname__, tuple((k, ref(v)) for k, v in sorted(vars(o).items())
                                                          if not k.startswith('__') and not callable(v) or isinstance(v, (dict, list, set)))))
            else:
                out.append(('opaque', getattr(o, '__name__', '?')))
        elif t.__module__.startswith('yaql') or t.__module__.startswith('ply'):
            fields = []
            for klass in t.__mro__:
                for s in getattr(klass, '__slots__', ()):
                    if hasattr(o, s):
                        fields.append((s, ref(getattr(o, s))))
            if hasattr(o, '__dict__'):
                for k, v in o.__dict__.items():
                    fields.append((k, ref(v)))
            out.append((t.__qualname__, tuple(fields)))
        else:
            out.append(('opaque', t.__qualname__))
    return out


def module_roots():
    import sys
    return [m.__dict__ for n, m in sorted(sys.modules.items()) if (n == 'yaql' or n.startswith('yaql.')) and m is not None
            and not n.startswith('yaql.tests')]


def shared_roots():
    return [STMTS, ENG, SHARED, BARE] + module_roots()


def fp_digest(fp):
    # FrozenDict._hash / similar idempotent caches are filtered here by name
    return fp


# ---------------------------------------------------------------- class-level write traps
CORE = [specs.FunctionDefinition, specs.ParameterDefinition, expressions.Expression, contexts.ContextBase,
        factory.YaqlEngine, yaqltypes.SmartType, utils.FrozenDict]
_writes = []
_pre_ids = set()
_trapping = [False]


def _all_subclasses(c):
    out = [c]
    for s in c.__subclasses__():
        out.extend(_all_subclasses(s))
    return out


def install_traps():
    for base in CORE:
        for cls in _all_subclasses(base):
            if '__vf_trapped__' in vars(cls):
                continue
            orig = cls.__setattr__

            def trap(self, name, value, _orig=orig):
                if _trapping[0] and id(self) in _pre_ids:
                    _writes.append((type(self).__qualname__, name, id(self)))
                return _orig(self, name, value)
            try:
                cls.__setattr__ = trap
                cls.__vf_trapped__ = True
            except TypeError:
                pass


def collect_pre_existing():
    """ids of every core-class instance reachable from the shared roots"""
    _pre_ids.clear()
    seen = set()
    stack = list(shared_roots())
    while stack:
        o = stack.pop()
        if id(o) in seen or isinstance(o, ATOM):
            continue
        seen.add(id(o))
        if isinstance(o, tuple(CORE)):
            _pre_ids.add(id(o))
        if isinstance(o, (list, tuple, set, frozenset)):
            stack.extend(o)
        elif isinstance(o, dict):
            stack.extend(o.keys())
            stack.extend(o.values())
        elif isinstance(o, types.FunctionType):
            stack.extend(c.cell_contents for c in (o.__closure__ or ()) if _has(c))
            stack.append(o.__dict__)
        elif isinstance(o, types.MethodType):
            stack.append(o.__self__)
            stack.append(o.__func__)
        elif type(o).__module__.startswith('yaql'):
            for klass in type(o).__mro__:
                for s in getattr(klass, '__slots__', ()):
                    if hasattr(o, s):
                        stack.append(getattr(o, s))
            if hasattr(o, '__dict__'):
                stack.extend(o.__dict__.values())


_orig_call = runner.call


def evaluate_watched(si, doc, check_every=1, via_eval=False, bare=False):
    """evaluate pool statement si in its own child of the shared context (or through the module-level yaql.eval);
    -> (outcome, list of anomalies, number of dispatch points)"""
    anomalies = []
    count = [0]

    def watched_call(*a, **k):
        with H.NoTracing():
            count[0] += 1
            if count[0] % check_every == 0 and fingerprint(roots) != base:
                anomalies.append('shared heap changed before dispatch #%d (%s)' % (count[0], a[0] if a else '?'))
        return _orig_call(*a, **k)
    runner.call = watched_call
    with H.NoTracing():
        roots = shared_roots()
        base = fingerprint(roots)
        collect_pre_existing()
        del _writes[:]
    _trapping[0] = True
    try:
        try:
            if via_eval:
                out = ('ok', yaql.eval(POOL_SRC[si], data=doc))
            else:
                out = ('ok', STMTS[si].evaluate(data=doc, context=(BARE if bare else SHARED).create_child_context()))
        except Exception as e:
            out = ('err', type(e).__name__)
    finally:
        _trapping[0] = False
    with H.NoTracing():
        changed = fingerprint(roots) != base
        runner.call = _orig_call
        if changed:
            anomalies.append('shared heap differs after the evaluation')
        for w in _writes:
            anomalies.append('write to pre-existing %s.%s' % (w[0], w[1]))
    return out, anomalies, count[0]


if not H.P('driver'):
    install_traps()


_SHADOW = {}


def guarantee(s: int, a: int) -> bool:
    """
    pre: H.P('slo', 0) <= s < min(NP, H.P('shi', NP))
    pre: s not in HEAVY or 0 <= a <= 2
    pre: H.fresh(s, a)
    post: _
    """
    si = SBOX[s][0]
    if si not in _SHADOW:
        # once per process and statement, outside the tracer (which executes `|=` / `-=` on a real set as a rebinding, so
        # an in-place update of a shared set through them would go unnoticed in the symbolic run)
        with H.NoTracing():
            _SHADOW[si] = not evaluate_watched(si, make_doc(1, 2, 'ab'), bare=bool(H.P('bare')))[1]
    if not _SHADOW[si]:
        return H.done(False)
    out, anomalies, n = evaluate_watched(si, make_doc(a, 2, 'ab'), bare=bool(H.P('bare')))
    H.note('dispatch_points', n)
    return H.done(not anomalies)


def guarantee_eval(s: int, ai: int) -> bool:
    """
    pre: H.P('slo', 0) <= s < min(NP, H.P('shi', NP)) and 0 <= ai < 1
    post: _
    """
    # module-level yaql.eval: once an expression text is cached, evaluating it again (other document) must leave the module
    # caches, the cached engine/statements and the default context exactly as they were, at every dispatch point
    si, a = SBOX[s][0], SBOX[ai][0]
    with H.NoTracing():
        try:
            yaql.eval(POOL_SRC[si], data=make_doc(7, 7, 'zz'))          # warm the caches (legitimate growth)
        except Exception:
            pass
        out, anomalies, n = evaluate_watched(si, make_doc(a, 2, 'ab'), via_eval=True)
    return H.done(not anomalies)


# ---------------------------------------------------------------- rely: havoc what evaluations were seen to write
def discover_G():
    """run every pool statement concretely with the traps on; -> {(class, attr): [objects written]}"""
    G = {}
    for si in range(NP):
        out, anomalies, n = evaluate_watched(si, make_doc(1, 2, 'ab'), check_every=10 ** 9)
        for w in list(_writes):
            G.setdefault((w[0], w[1]), set()).add(w[2])
    return G


def eval_cache_shared(s: int, ai: int) -> bool:
    """
    pre: 0 <= s < NP and 0 <= ai < 3
    post: _
    """
    # module-level yaql.eval: results through the cached engine/expressions/default context equal the direct evaluation
    si, a = SBOX[s][0], SBOX[ai][0]
    with H.NoTracing():
        doc = make_doc(a, 2, 'ab')
        try:
            r1 = ('ok', yaql.eval(POOL_SRC[si], data=doc))
        except Exception as e:
            r1 = ('err', type(e).__name__)
        try:
            r2 = ('ok', STMTS[si].evaluate(data=doc, context=PLAIN.create_child_context()))
        except Exception as e:
            r2 = ('err', type(e).__name__)
        dc = yaql._default_context
        clean = dc is None or (list(dc.keys()) == [] and '$' not in dc)
        ok = r1 == r2 and clean
    return H.done(ok)


STMT_OPTIONS = [({},), ({'yaql.limitIterators': 2},), ({'yaql.convertTuplesToLists': False},), ({'yaql.limitIterators': 100},)]
_OPT_ENGINES = {}


def options_shared(s: int, o1: int, o2: int, how: int) -> bool:
    """
    pre: H.P('slo', 0) <= s < min(NP, H.P('shi', NP)) and 0 <= o1 < len(STMT_OPTIONS) and 0 <= o2 < len(STMT_OPTIONS)
    pre: 0 <= how < 2
    post: _
    """
    # several evaluations of one expression text share one engine but come with their own per-statement options
    # (engine(text, options) / engine.copy(options)(text)): each one runs under the options it asked for, whatever
    # the others asked for before (reference: an engine created by the factory with exactly those options)
    si, a1, a2, hw = SBOX[s][0], SBOX[o1][0], SBOX[o2][0], SBOX[how][0]
    with H.NoTracing():
        text, doc = POOL_SRC[si], make_doc(1, 2, 'ab')

        def run(eng_call):
            try:
                st = eng_call()
                return ('ok', st.evaluate(data=doc, context=SHARED.create_child_context())), dict(st.engine.options)
            except Exception as e:
                return ('err', type(e).__name__), None
        ok = True
        for oi in (a1, a2, a1):
            opts = STMT_OPTIONS[oi][0]
            if oi not in _OPT_ENGINES:
                _OPT_ENGINES[oi] = yaql.YaqlFactory().create(options=dict(opts))
            want, _ = run(lambda: _OPT_ENGINES[oi](text))
            if hw == 0:
                got, eff = run(lambda: ENG(text, options=dict(opts)))
            else:
                got, eff = run(lambda: ENG.copy(dict(opts))(text))
            ok = ok and got == want and (eff is None or all(eff.get(k) == v for k, v in opts.items()))
    return H.done(ok)


def conditions(tier, seed):
    out = []
    step = 2
    t = 400 if tier == 'quick' else 1200
    for lo in range(0, NP, step):
        out.append({'name': 'guarantee[stmts=%d-%d]' % (lo, min(NP, lo + step) - 1), 'func': 'guarantee', 'timeout': t,
                    # one path = one evaluation with a heap fingerprint at each of its 20-40 dispatch points (8-25 s):
                    # CrossHair's default per-path budget (about the square root of the condition budget) is too small
                    'per_path_timeout': 120,
                    'param': {'slo': lo, 'shi': lo + step},
                    'bounds': 'statements %s; document {a: symbolic int, b: [2, a, 3], s: ab, l: [{x: a, y: ab}, {x: 1, y: q}]}; '
                              ' fingerprint of statements+engine+shared context+yaql modules at every runner.call' % (
                                  POOL_SRC[lo:lo + step],)})
    for lo in range(0, NP, 10):
      out.append({'name': 'guarantee_eval[stmts=%d-%d]' % (lo, min(NP, lo + 10) - 1), 'func': 'guarantee_eval', 'timeout': 2 * t, 'per_path_timeout': 120,
                'param': {'slo': lo, 'shi': lo + 10},
                'bounds': 'yaql.eval of 10 pool statements after the text was cached once: fingerprint of the '
                          'yaql module caches/engine/default context at every runner.call (selectors; concrete documents)'})
    for lo in (0, 20):
        out.append({'name': 'guarantee_bare[stmts=%d-%d]' % (lo, lo + 3), 'func': 'guarantee', 'timeout': t, 'per_path_timeout': 120,
                    'param': {'slo': lo, 'shi': lo + 4, 'bare': True},
                    'bounds': 'as guarantee, in children of a shared context chain that has no #finalize function (hand-assembled '
                              'host context)'})
    for lo in range(0, NP, 16):
        out.append({'name': 'options_shared[stmts=%d-%d]' % (lo, min(NP, lo + 16) - 1), 'func': 'options_shared', 'timeout': t,
                    'param': {'slo': lo, 'shi': lo + 16},
                    'bounds': 'one engine, one expression text, evaluations with their own per-statement options (none, '
                              'limitIterators 2 / 100, convertTuplesToLists off) in the order o1, o2, o1 through engine(text, options) '
                              'and engine.copy(options)(text) vs an engine created with those options (selectors; each path one '
                              'concrete history)'})
    out.append({'name': 'eval_cache_shared', 'func': 'eval_cache_shared', 'timeout': t,
                'bounds': 'yaql.eval vs direct evaluation for every pool statement x 3 documents (selectors; each path one '
                          'concrete history of the module-level caches); default context stays empty'})
    return out


# ---------------------------------------------------------------- replay with real threads
class RoundRobin:
    """hand-off scheduler at runner.call entry: threads take turns according to `pattern` (list of thread indices)"""
    def __init__(self, n, pattern):
        self.n, self.pattern = n, pattern
        self.cv = threading.Condition()
        self.pos = 0
        self.alive = set(range(n))
        self.ids = {}

    def point(self):
        me = self.ids.get(threading.get_ident())
        if me is None:
            return
        with self.cv:
            spins = 0
            while me in self.alive and len(self.alive) > 1 and self.pattern[self.pos % len(self.pattern)] != me and spins < 50:
                if self.pattern[self.pos % len(self.pattern)] not in self.alive:
                    self.pos += 1
                    continue
                self.cv.wait(0.05)
                spins += 1
            self.pos += 1
            self.cv.notify_all()

    def run(self, jobs):
        res = [None] * self.n

        def body(i):
            self.ids[threading.get_ident()] = i
            try:
                res[i] = jobs[i]()
            finally:
                with self.cv:
                    self.alive.discard(i)
                    self.cv.notify_all()
        ts = [threading.Thread(target=body, args=(i,)) for i in range(self.n)]
        for t in ts:
            t.start()
        for t in ts:
            t.join(60)
        return res


def solo(si, doc, via_eval=False):
    try:
        if via_eval:
            return ('ok', yaql.eval(POOL_SRC[si], data=doc))
        return ('ok', STMTS[si].evaluate(data=doc, context=SHARED.create_child_context()))
    except Exception as e:
        return ('err', type(e).__name__)


def threaded_differs(si, doc, via_eval=False):
    """-> description of a schedule under which some thread's result differs from its solo result, or None"""
    import itertools
    import random
    others = [(si, make_doc(5, 9, 'ba')), ((si + 1) % NP, make_doc(0, 1, 'a')), ((si + 7) % NP, make_doc(2, 2, ''))]
    rnd = random.Random(1)
    patterns = [[0, 1], [0, 0, 1], [0, 1, 1], [0, 1, 2], [0, 2, 1, 1]] + [[rnd.randrange(3) for _ in range(7)] for _ in range(10)]
    for oj in range(len(others)):
        for pat in patterns:
            n = max(pat) + 1
            work = [(si, doc)] + [others[(oj + k) % len(others)] for k in range(n - 1)]
            expect = [solo(i, d, via_eval) for i, d in work]
            sched = RoundRobin(n, pat)

            def wrapped(*a, **k):
                sched.point()
                return _orig_call(*a, **k)
            runner.call = wrapped
            try:
                got = sched.run([(lambda i=i, d=d: solo(i, d, via_eval)) for i, d in work])
            finally:
                runner.call = _orig_call
            if got != expect:
                return 'threads evaluate %r with hand-off pattern %s at runner.call: results %r, alone %r' % (
                    [POOL_SRC[i] for i, _ in work], pat, got, expect)
    return None


def replay(cond, args):
    f = cond['func']
    if f == 'options_shared':
        ok = options_shared(**args)
        return {'reproduced': not ok, 'key': 'C18/options-shared',
                'what': 'evaluations of %r on one engine with per-statement options %r, %r, %r (%s): one of them does not run '
                        'under the options it was given' % (POOL_SRC[args['s']], STMT_OPTIONS[args['o1']][0],
                                                            STMT_OPTIONS[args['o2']][0], STMT_OPTIONS[args['o1']][0],
                                                            'engine(text, options)' if args['how'] == 0 else 'engine.copy(options)(text)')}
    if f == 'eval_cache_shared':
        ok = eval_cache_shared(**args)
        return {'reproduced': not ok, 'key': 'C18/eval-cache', 'what': 'yaql.eval(%r) differs from direct evaluation or leaves data in the default context' % POOL_SRC[args['s']]}
    si = args['s']
    install_traps()
    if f == 'guarantee_eval':
        doc = make_doc(args['ai'], 2, 'ab')
        try:
            yaql.eval(POOL_SRC[si], data=make_doc(7, 7, 'zz'))
        except Exception:
            pass
        out, anomalies, n = evaluate_watched(si, doc, via_eval=True)
        if not anomalies:
            return {'reproduced': False, 'note': 'no shared write on CPython'}
        diff = threaded_differs(si, doc, via_eval=True)
        return {'reproduced': True, 'key': 'C18/eval-cache-state/%s' % sorted(set(anomalies))[0][:50],
                'what': 'yaql.eval(%r) on an already cached text changes the module-level shared state (%s)%s' % (
                    POOL_SRC[si], sorted(set(anomalies))[:3], '; ' + diff if diff else '')}
    doc = make_doc(args['a'], 2, 'ab')
    bare = bool((cond.get('param') or {}).get('bare'))
    out, anomalies, n = evaluate_watched(si, doc, bare=bare)
    if not anomalies:
        return {'reproduced': False, 'note': 'no shared write on CPython'}
    diff = threaded_differs(si, doc)
    after = SHARED.create_child_context()
    if diff:
        return {'reproduced': True, 'key': 'C18/interference/%s' % sorted(set(anomalies))[0][:60],
                'what': 'evaluating %r writes shared state (%s) and %s' % (POOL_SRC[si], sorted(set(anomalies))[:3], diff)}
    # shared heap changed but no schedule tried changes a result: still a violation of "the shared context is unchanged
    # afterwards" when the change is in the shared context / statement / engine
    changed_after = [x for x in anomalies if 'after the evaluation' in x]
    if changed_after:
        return {'reproduced': True, 'key': 'C18/shared-state-changed/%s' % sorted(set(anomalies))[0][:60],
                'what': 'evaluating %r leaves the shared statements/engine/context/modules changed: %s' % (
                    POOL_SRC[si], sorted(set(anomalies))[:4])}
    return {'reproduced': False, 'note': 'transient shared writes %r, no schedule changes a result (benign)' % sorted(set(anomalies))[:3]}
