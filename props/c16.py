"""C16 - literals denote exactly the values they spell.

Real code run: the token actions of the live ply lexer (t_QUOTED_STRING, t_DOUBLE_QUOTED_STRING,
t_QUOTED_VERBATIM_STRING, t_NUMBER, t_KEYWORD_STRING with decode_escapes / ESCAPE_SEQUENCE_RE) on symbolic token text; the
whole engine (lexer + parser + Constant/KeywordConstant evaluation) on texts concretised per path; z3 regular-language
lemmas generated from the live token regexes (sre2z3).
"""
import re
import sys
import unicodedata
from fractions import Fraction

from vf import h as H
from vf import yq
from ply import lex
from yaql.language import exceptions as X
from yaql.language import expressions as E
from yaql.language import lexer as L

ID = 'C16'
REPLAYS_LEMMAS = True
KNOWN = set(H.P('known', ()))
K_VERB = 'C16/verbatim-odd-backslash-run'

FUNCTIONS_ENCODED = [
    'yaql.language.lexer.Lexer.t_QUOTED_STRING / t_DOUBLE_QUOTED_STRING / t_QUOTED_VERBATIM_STRING / t_NUMBER / '
    't_KEYWORD_STRING (the functions registered in the live ply lexer), decode_escapes, ESCAPE_SEQUENCE_RE',
    'yaql.language.factory.YaqlEngine.__call__ + Statement.evaluate (parser.p_value_to_const, p_keyword_constant, '
    'expressions.Constant/KeywordConstant)']
BOUNDS = {
    'quick': 'string values symbolic, unrestricted alphabet, len <= 4, spelled by the harness in each quote style and read by '
             'the real token action; the same through the whole engine for every value of len <= 3 over a 7-character '
             'alphabet (enumerated by the solver); escapes: all \\xHH and octal forms, \\u/\\U/\\N/single-character forms '
             'from boundary tables chosen by symbolic selectors, unknown escapes with a symbolic character; numerals: digit '
             'strings len <= 3 (+ fraction len <= 2) over {0,1,5,9} and the 4299/4300-digit boundary; keywords: symbolic word '
             'len <= 3; z3 lemmas over unbounded length from the live token regexes',
    'thorough': 'same with string values len <= 5 (engine: 4), numerals len <= 4 + fraction <= 2, words len <= 4'}
OUTSIDE = ['strings longer than the bound except through the z3 lemmas L1/L2 (which speak about the token language, not the '
           'decoder)', 'astral code points are in the z3 alphabet only as "not in \\w/\\d"; E1 string model is trusted for them',
           'exponent notation (not part of the language)', 'integers beyond the int() digit limit (C03)']
ASSUMPTIONS = ['documented escapes = the forms listed in ESCAPE_SEQUENCE_RE with the meaning of Python string literals',
               'the harness-side spelling functions quote only the backslash and the style\'s own quote character',
               'Fraction -> float conversion is correctly rounded (reference value of decimal literals)',
               'CrossHair models of str/re on symbolic strings; every counterexample is replayed on CPython through the engine']
EXPLANATION = ('Symbolic string values are spelled in each quote style and read back by the real token actions (CrossHair+z3, '
               'all code points, bounded length) and, concretised, by the whole engine; z3 lemmas generated from the live '
               'token regexes show for unbounded length that every spelling is exactly one token (L1) and characterise the '
               'strings that have no back-quoted spelling (L2); escape forms, numerals and keywords are compared with '
               'independent reference values.')
TECHNIQUE = ('bounded symbolic execution (CrossHair+z3) of the token actions vs. an independent spelling/decoding reference; '
             'z3 regular-language lemmas generated from the live regexes (sre2z3); replay through the engine on CPython')

SLEN = H.P('slen', 3)
STYLE = H.P('style', "'")
BS = '\\'
BQ = '`'
NL = '\n'


def live_actions():
    lx = yq.ENG.lexer
    out = {}
    owner = None
    for rx, index in lx.lexstatere['INITIAL']:
        for gname, gi in rx.groupindex.items():
            item = index[gi]
            if item and item[0] is not None:
                out[gname] = item[0]
                if getattr(item[0], '__self__', None) is not None:
                    owner = item[0].__self__
    return out, owner, lx


ACTIONS, OWNER, PLY = live_actions()


def rule_doc(name):
    fn = ACTIONS[name]
    return (getattr(fn, 'regex', None) or fn.__doc__).strip()


# quote character -> rule of the live lexer whose regex starts and ends with it
STYLE_RULE = {}
for _n in ACTIONS:
    _d = rule_doc(_n)
    if _d[:1] in ('\'', '"', '`') and _d[:1] == _d[-1:]:
        STYLE_RULE[_d[0]] = _n
STYLES = sorted(STYLE_RULE)
VERBATIM = [q for q in STYLES if 'decode_escapes' not in getattr(ACTIONS[STYLE_RULE[q]], '__code__').co_names]
RXS = {q: re.compile(rule_doc(STYLE_RULE[q]), re.UNICODE) for q in STYLES}
RX_NUM = re.compile(rule_doc('t_NUMBER'), re.UNICODE) if 't_NUMBER' in ACTIONS else None
RX_KW = re.compile(rule_doc('t_KEYWORD_STRING'), re.UNICODE) if 't_KEYWORD_STRING' in ACTIONS else None


def tok(rule, value):
    t = lex.LexToken()
    t.type = rule[2:]
    t.value = value
    t.lineno = 1
    t.lexpos = 0
    t.lexer = PLY
    return t


def spell(v, q):
    """the harness's own quoting: decoding styles escape the backslash and the quote, the verbatim style only the quote"""
    out = q
    for c in v:
        if c == q:
            out += BS + c
        elif c == BS and q not in VERBATIM:
            out += BS + BS
        else:
            out += c
    return out + q


def no_verbatim_spelling(v):
    """class of F8 (characterised by lemma L2): some maximal backslash run of odd length is followed by a back quote,
    a newline or the end of the string"""
    i = 0
    n = len(v)
    while i < n:
        if v[i] != BS:
            i += 1
            continue
        j = i
        while j < n and v[j] == BS:
            j += 1
        if (j - i) % 2 == 1 and (j == n or v[j] == BQ or v[j] == '\n'):
            return True
        i = j
    return False


def read_token(text, q):
    """-> ('ok', type, value) | ('err', ...) from the real token action of style q"""
    if RXS[q].fullmatch(text) is None:
        return ('notoken',)
    try:
        t = ACTIONS[STYLE_RULE[q]](tok(STYLE_RULE[q], text))
        return ('ok', t.type, t.value)
    except Exception as e:
        return ('err', type(e).__name__)


def read_engine(text):
    """value of the literal through the whole engine + the Constant node in the tree"""
    try:
        st = yq.ENG(text)
        node = st.expression if hasattr(st, 'expression') else None
        val = st.evaluate(context=yq.ROOT.create_child_context())
        if isinstance(node, E.Constant) and not (node.value == val or (node.value != node.value and val != val)):
            return ('err', 'Constant.value %r differs from the evaluated value %r' % (node.value, val))
        return ('ok', val)
    except Exception as e:
        return ('err', type(e).__name__)


def same_str(a, b):
    """a (produced by yaql) equals the reference b.  Character-wise: CrossHair 0.0.110 answers `x[1:-1] == y` wrongly
    (False for equal strings) when x is a concatenation of literals and symbolic parts, while element comparison is right"""
    if not isinstance(a, str) or len(a) != len(b):
        return False
    for i in range(len(b)):
        if a[i] != b[i]:
            return False
    return True


def roundtrip(v: str) -> bool:
    """
    pre: len(v) <= SLEN
    pre: not (STYLE in VERBATIM and K_VERB in KNOWN and no_verbatim_spelling(v))
    pre: H.fresh(v)
    post: _
    """
    r = read_token(spell(v, STYLE), STYLE)
    return H.done(r[0] == 'ok' and r[1] == 'QUOTED_STRING' and same_str(r[2], v))


def probe_verbatim(v: str) -> bool:
    """
    pre: len(v) <= SLEN
    pre: no_verbatim_spelling(v)
    post: _
    """
    r = read_token(spell(v, BQ), BQ)
    return H.done(r[0] == 'ok' and same_str(r[2], v))


RT_ALPHA = H.P('rt_alpha') or '\\\'"`n0\n'
# characters that are not in Unicode normal form C (alone or next to each other): combining acute, ANGSTROM SIGN,
# OHM SIGN, Hangul jamo L+V, a CJK compatibility ideograph
RT_UNICODE = 'e\u0301\u212b\u2126\u1100\u1161\uf900'


def roundtrip_engine(v: str) -> bool:
    """
    pre: len(v) <= SLEN and all(c in RT_ALPHA for c in v)
    post: _
    """
    with H.NoTracing():
        v = H.deep_realize(v)
        ok = True
        for q in STYLES:
            if q in VERBATIM and no_verbatim_spelling(v):
                if K_VERB in KNOWN:
                    continue
            r = read_engine(spell(v, q))
            ok = ok and r[0] == 'ok' and same_str(r[1], v)
    return H.done(ok)


# ---- escapes --------------------------------------------------------------------------------------------------------
U_POINTS = [0, 0x41, 0x7F, 0x80, 0xFF, 0x100, 0x7FF, 0x800, 0xD7FF, 0xD800, 0xDFFF, 0xE000, 0xFFFD, 0xFFFF] + \
           [i * 0x1111 for i in range(1, 15)]
UU_POINTS = [0, 0x41, 0xFFFF, 0x10000, 0x1F600, 0xFFFFF, 0x100000, 0x10FFFF, 0xD800]
SINGLE = {BS: BS, "'": "'", '"': '"', 'a': '\a', 'b': '\b', 'f': '\f', 'n': '\n', 'r': '\r', 't': '\t', 'v': '\v'}
SINGLE_KEYS = sorted(SINGLE)
NAMES = ['DIGIT ONE', 'LATIN SMALL LETTER A', 'GREEK SMALL LETTER ALPHA', 'SNOWMAN', 'GRINNING FACE', 'digit one', 'NULL']
INTRODUCERS = 'UuxN01234567' + ''.join(SINGLE_KEYS)
DEC_STYLES = [q for q in STYLES if q not in VERBATIM]


def escape_case(kind, n, upper, width):
    """-> (escape text, the character(s) it denotes) for the reference meaning (Python string literal semantics)"""
    if kind == 'x':
        return (BS + 'x' + (('%02X' if upper else '%02x') % n), chr(n))
    if kind == 'u':
        cp = U_POINTS[n]
        return (BS + 'u' + (('%04X' if upper else '%04x') % cp), chr(cp))
    if kind == 'U':
        cp = UU_POINTS[n]
        return (BS + 'U' + (('%08X' if upper else '%08x') % cp), chr(cp))
    if kind == 'o':
        return (BS + (('%0' + str(width) + 'o') % n), chr(n))
    if kind == 's':
        return (BS + SINGLE_KEYS[n], SINGLE[SINGLE_KEYS[n]])
    if kind == 'N':
        return (BS + 'N{' + NAMES[n] + '}', unicodedata.lookup(NAMES[n]))
    raise ValueError(kind)


KIND = H.P('kind', 'x')
KIND_N = {'x': 256, 'u': len(U_POINTS), 'U': len(UU_POINTS), 'o': 512, 's': len(SINGLE_KEYS), 'N': len(NAMES)}


def escape_check(kind, n, upper, width, q):
    """one concrete escape: alone, embedded between characters, through the token action and the engine"""
    text, val = escape_case(kind, n, upper, width)
    ok = True
    for pre, post in (('', ''), ('a', 'z'), ('é', NL), (BS + BS, ' ')):
        want = pre.replace(BS + BS, BS) + val + post
        body = pre + text + post
        r = read_token(q + body + q, q)
        ok = ok and r[0] == 'ok' and same_str(r[2], want)
        r = read_engine(q + body + q)
        ok = ok and r[0] == 'ok' and same_str(r[1], want)
        for vq in VERBATIM:                               # the verbatim style decodes nothing
            if not no_verbatim_spelling(body) and vq not in body:
                r = read_engine(vq + body + vq)
                ok = ok and r[0] == 'ok' and same_str(r[1], body)
    return ok


def escape_variants(kind, n):
    for q in DEC_STYLES:
        if kind == 'o':
            for width in (1, 2, 3):
                if n < 8 ** width:
                    yield (False, width, q)
        elif kind in 'xuU':
            yield (False, 0, q)
            yield (True, 0, q)
        else:
            yield (False, 0, q)


INNER = 16 if KIND in 'xo' else 1


def escape_form(k: int) -> bool:
    """
    pre: 0 <= k * INNER < KIND_N[KIND]
    post: _
    """
    # selector: every path is one block of INNER consecutive code points / one table entry, each in all digit cases,
    # widths and decoding styles
    with H.NoTracing():
        k = int(k)
        ok = all(escape_check(KIND, n, upper, width, q) for n in range(k * INNER, min(KIND_N[KIND], (k + 1) * INNER))
                 for upper, width, q in escape_variants(KIND, n))
    return H.done(ok)


EMB = [(BS + 'x41', 'A'), (BS + 'u00e9', 'é'), (BS + '101', 'A'), (BS + 'n', NL), (BS + BS, BS), (BS + "'", "'"), (BS + '"', '"'),
       (BS + 'N{DIGIT ONE}', '1'), (BS + 'U0001F600', chr(0x1F600)), (BS + '0', chr(0))]


def escape_embedded(v: str, w: str, k: int, dq: bool) -> bool:
    """
    pre: len(v) <= 1 and len(w) <= 1 and 0 <= k < len(EMB)
    pre: not (k == len(EMB) - 1 and len(w) > 0 and w[0] in '01234567')
    post: _
    """
    # a documented escape between symbolic (spelled) neighbours decodes to its character, the neighbours to themselves
    q = DEC_STYLES[1 if dq and len(DEC_STYLES) > 1 else 0]
    text, val = EMB[k]
    r = read_token(q + spell(v, q)[1:-1] + text + spell(w, q)[1:-1] + q, q)
    return H.done(r[0] == 'ok' and same_str(r[2], v + val + w))


def unknown_escape(c: str, a: str, dq: bool) -> bool:
    """
    pre: len(c) == 1 and len(a) <= 1
    pre: c not in INTRODUCERS and c != NL
    pre: a != BS and a != "'" and a != '"'
    post: _
    """
    # a backslash followed by a character that introduces no escape stays two characters
    q = DEC_STYLES[1 if dq and len(DEC_STYLES) > 1 else 0]
    r = read_token(q + a + BS + c + a + q, q)
    return H.done(r[0] == 'ok' and same_str(r[2], a + BS + c + a))


# ---- numbers --------------------------------------------------------------------------------------------------------
DIGITS = '0159'
NLEN = H.P('nlen', 3)
FLEN = H.P('flen', 2)


def digits_value(s):
    v = 0
    for ch in s:
        v = v * 10 + '0123456789'.index(ch)
    return v


def number(i: str, f: str) -> bool:
    """
    pre: 0 < len(i) <= NLEN and len(f) <= FLEN and all(c in DIGITS for c in i) and all(c in DIGITS for c in f)
    post: _
    """
    # int()/float() realise their argument: the solver enumerates the digit strings, each path is concrete
    with H.NoTracing():
        i, f = H.deep_realize(i), H.deep_realize(f)
        text = i + ('.' + f if f else '')
        if f:
            want = float(Fraction(digits_value(i + f), 10 ** len(f)))
        else:
            want = digits_value(i)
        ok = RX_NUM.fullmatch(text) is not None
        if ok:
            t = ACTIONS['t_NUMBER'](tok('t_NUMBER', text))
            ok = t.type == 'NUMBER' and type(t.value) is type(want) and t.value == want
            r = read_engine(text)
            ok = ok and r[0] == 'ok' and type(r[1]) is type(want) and r[1] == want
            r = read_engine('-' + text)
            ok = ok and r[0] == 'ok' and type(r[1]) is type(want) and r[1] == -want
    return H.done(ok)


# ---- keywords -------------------------------------------------------------------------------------------------------
WLEN = H.P('wlen', 3)
CONSTS = {'true': True, 'false': False, 'null': None}


def keyword_action(w: str) -> bool:
    """
    pre: 0 < len(w) <= WLEN
    pre: RX_KW.fullmatch(w) is not None
    post: _
    """
    t = ACTIONS['t_KEYWORD_STRING'](tok('t_KEYWORD_STRING', w))
    ops = OWNER._operators_table
    if w in ops:
        ok = t.type == ops[w][2] and t.value == w
    elif w in CONSTS:
        ok = t.type == w.upper() and t.value is CONSTS[w]
    else:
        ok = t.type == 'KEYWORD_STRING' and same_str(t.value, w)
    return H.done(ok)


KW_ALPHA = H.P('kw_alpha') or 'inot_1é'
WORD_SHAPE = re.compile(r'[^\W\d]\w*')      # documented keyword shape: a letter or underscore, then word characters
OP_WORDS = sorted(k for k in (OWNER._operators_table if OWNER is not None else {}) if k[:1].isalpha())


def keyword_engine(w: str) -> bool:
    """
    pre: 0 < len(w) <= WLEN and all(c in KW_ALPHA for c in w)
    post: _
    """
    with H.NoTracing():
        w = H.deep_realize(w)
        ok = keyword_verdict(w)
    return H.done(ok)


def keyword_verdict(w):
    r = read_engine(w)
    if w in OP_WORDS:
        return True                                   # an operator word alone is not an expression; covered by keyword_action
    if w in CONSTS:
        return r == ('ok', CONSTS[w]) and (r[1] is CONSTS[w])
    if w.startswith('__'):
        return r[0] == 'err' and r[1] == 'YaqlLexicalException'
    if WORD_SHAPE.fullmatch(w) is not None:        # identifier-shaped word (reference independent of the live lexer regex)
        if r[0] != 'ok':
            return False
        st = yq.ENG(w)
        return r[0] == 'ok' and same_str(r[1], w) and isinstance(st.expression, E.KeywordConstant)
    if w[:1].isdigit():
        return True                                   # starts with a digit: a number or an error, not a keyword
    return True


def keyword_words(k: int) -> bool:
    """
    pre: 0 <= k < len(WORDS)
    post: _
    """
    with H.NoTracing():
        ok = keyword_verdict(WORDS[int(k)])
    return H.done(ok)


WORDS = ['true', 'false', 'null', 'True', 'NULL', 'nulls', 'truth', 'android', 'inner', 'notable', 'orb', 'modulo', '_', '_x', '_1', '_1a', '_0_',
         'x__y', '__x', '__', '___', 'a__', 'x1', 'élan', 'Ünï', 'if', 'else', 'None', 'nil', 'nan', 'inf', 'e10', 'x_', 'a' * 300]


# ---------------------------------------------------------------------------------------------------------------

# literals in company: each literal of an expression denotes its own value whatever other literals occur next to it
LITS = [('1', 1), ('1.0', 1.0), ('0', 0), ('0.0', 0.0), ('2', 2), ('2.0', 2.0), ('10', 10), ('10.0', 10.0), ('true', True),
        ('false', False), ('null', None), ("'1'", '1'), ('"1"', '1'), ('`1`', '1'), ('one', 'one'), ("'one'", 'one'),
        ("'a\\\\'", 'a\\'), ("'b'", 'b'), ('"a\\\\"', 'a\\'), ('`a\\\\`', 'a\\\\'), ('`c`', 'c')]
LITBOX = [(i,) for i in range(len(LITS))]


def literal_pair(i: int, j: int) -> bool:
    """
    pre: 0 <= i < len(LITS) and 0 <= j < len(LITS)
    post: _
    """
    a, b = LITS[LITBOX[i][0]], LITS[LITBOX[j][0]]
    with H.NoTracing():
        ok = True
        for text in ('list(%s, %s)' % (a[0], b[0]), '[%s, [%s]]' % (a[0], b[0])):
            try:
                r = yq.ENG(text).evaluate(context=yq.ROOT.create_child_context())
                x, y = r[0], (r[1][0] if isinstance(r[1], list) else r[1])
                ok = ok and type(x) is type(a[1]) and x == a[1] and type(y) is type(b[1]) and y == b[1]
            except Exception:
                ok = False
    return H.done(ok)


# literals through the module-level yaql.eval (parsed-expression cache): whitespace inside a literal is part of its value
WS_VALUES = ['a b', 'a  b', 'a\tb', 'a\nb', 'a\u00a0b', ' a', 'a ', 'ab']
WSBOX = [(i,) for i in range(len(WS_VALUES))]


def eval_literal_history(i: int, j: int, k: int) -> bool:
    """
    pre: 0 <= i < len(WS_VALUES) and 0 <= j < len(WS_VALUES) and 0 <= k < len(STYLES)
    post: _
    """
    import yaql
    a, b, q = WS_VALUES[WSBOX[i][0]], WS_VALUES[WSBOX[j][0]], STYLES[WSBOX[k][0]]
    with H.NoTracing():
        ok = True
        for v in (a, b, a):
            for text, want in ((spell(v, q), v), ('len(%s)' % spell(v, q), len(v))):
                try:
                    ok = ok and yaql.eval(text) == want
                except Exception:
                    ok = False
    return H.done(ok)


# a word is an operator only for the engine whose table lists it: engines with other tables read it as a keyword
def _table_engines():
    import yaql
    from yaql.language import factory as F
    std = yaql.YaqlFactory()
    fewer = yaql.YaqlFactory()
    fewer.operators = [r for r in fewer.operators if not (r and r[0] in ('in', 'mod'))]
    more = yaql.YaqlFactory()
    more.insert_operator('or', True, 'xor', F.OperatorType.BINARY_LEFT_ASSOCIATIVE, False)
    return [std.create(), fewer.create(), more.create()], [set(['in', 'mod', 'and', 'or', 'not']), set(['and', 'or', 'not']),
                                                          set(['in', 'mod', 'and', 'or', 'not', 'xor'])]


TABLE_WORDS = ['in', 'mod', 'xor', 'out', 'and']
if not H.P('driver'):
    TABLE_ENGINES, TABLE_OPS = _table_engines()


def keyword_tables(e1: int, e2: int, w: int) -> bool:
    """
    pre: 0 <= e1 < 3 and 0 <= e2 < 3 and 0 <= w < len(TABLE_WORDS)
    post: _
    """
    i1, i2, word = WSBOX[e1][0], WSBOX[e2][0], TABLE_WORDS[WSBOX[w][0]]
    with H.NoTracing():
        ok = True
        for ei in (i1, i2, i1):
            eng, ops = TABLE_ENGINES[ei], TABLE_OPS[ei]
            try:
                r = ('ok', eng('len(%s)' % word).evaluate(context=yq.ROOT.create_child_context()))
            except Exception as e:
                r = ('err', type(e).__name__)
            if word in ops:
                ok = ok and r[0] == 'err'                 # an operator word alone is not an operand
            else:
                ok = ok and r == ('ok', len(word))        # any other word denotes its own text
    return H.done(ok)


def conditions(tier, seed):
    quick = tier == 'quick'
    slen = 4 if quick else 5
    t = 200 if quick else 1200
    out = []
    for q in STYLES:
        out.append({'name': 'roundtrip[%s]' % STYLE_RULE[q], 'func': 'roundtrip', 'timeout': t, 'param': {'style': q, 'slen': slen},
                    'bounds': 'v symbolic over an unrestricted alphabet, len <= %d; spelled as %s...%s with %s escaped; read by '
                              'the real token action %s' % (slen, q, q, 'the quote' if q in VERBATIM else 'backslash and quote',
                                                           STYLE_RULE[q])})
    out.append({'name': 'roundtrip[engine]', 'func': 'roundtrip_engine', 'timeout': t, 'param': {'slen': slen - 1},
                'bounds': 'every v of len <= %d over the alphabet %r (enumerated by the solver: each path is one concrete value) '
                          'spelled in the %d quote styles and evaluated by the whole engine' % (slen - 1, RT_ALPHA, len(STYLES))})
    out.append({'name': 'roundtrip[engine,non-NFC]', 'func': 'roundtrip_engine', 'timeout': t,
                'param': {'slen': 2, 'rt_alpha': RT_UNICODE},
                'bounds': 'every v of len <= 2 over characters that are not in Unicode normal form C %r (enumerated), spelled in '
                          'the %d quote styles and evaluated by the whole engine: unescaped characters stand for themselves'
                          % (RT_UNICODE, len(STYLES))})
    for kind, what in (('x', 'all 256 \\xHH, both digit cases'), ('o', 'all octal escapes \\o, \\oo, \\ooo'),
                       ('u', '%d boundary code points as \\uHHHH' % len(U_POINTS)),
                       ('U', '%d boundary code points as \\UHHHHHHHH' % len(UU_POINTS)),
                       ('s', 'the %d single-character escapes' % len(SINGLE_KEYS)), ('N', '%d \\N{name} escapes' % len(NAMES))):
        out.append({'name': 'escape[%s]' % kind, 'func': 'escape_form', 'timeout': t, 'param': {'kind': kind},
                    'bounds': '%s, alone and embedded in 3 contexts, both decoding quote styles, token action and engine; '
                              'selectors: each path is one concrete escape' % what})
    out.append({'name': 'escape[embedded]', 'func': 'escape_embedded', 'timeout': t,
                'bounds': '%d escape forms between two symbolic neighbour strings (len <= 1, unrestricted alphabet, spelled by the '
                          'harness), both decoding styles; token action' % len(EMB)})
    out.append({'name': 'escape[unknown]', 'func': 'unknown_escape', 'timeout': t,
                'bounds': 'backslash + symbolic character that introduces no escape, between symbolic neighbours'})
    nlen, flen = (3, 2) if quick else (4, 2)
    out.append({'name': 'number', 'func': 'number', 'timeout': t, 'param': {'nlen': nlen, 'flen': flen},
                'bounds': 'integer part len 1..%d, fraction len 0..%d over the digits %r (enumerated: int()/float() realise '
                          'their argument); token action and engine, also negated' % (nlen, flen, DIGITS)})
    wlen = 3 if quick else 4
    out.append({'name': 'keyword[action]', 'func': 'keyword_action', 'timeout': t, 'param': {'wlen': wlen},
                'bounds': 'word symbolic over an unrestricted alphabet, len <= %d, constrained to the live t_KEYWORD_STRING regex' % wlen})
    out.append({'name': 'keyword[engine]', 'func': 'keyword_engine', 'timeout': t, 'param': {'wlen': wlen},
                'bounds': 'every word of len <= %d over %r (enumerated) through the whole engine' % (wlen, KW_ALPHA)})
    out.append({'name': 'keyword[engine,non-NFC]', 'func': 'keyword_engine', 'timeout': t,
                'param': {'wlen': 2, 'kw_alpha': 'R\u212b\u2126e\u0301\uf900'},
                'bounds': 'every word of len <= 2 over letters that are not in Unicode normal form C (enumerated) through the whole engine'})
    out.append({'name': 'keyword[words]', 'func': 'keyword_words', 'timeout': 100,
                'bounds': '%d selected words (constants, operator look-alikes, underscores, non-ASCII, long)' % len(WORDS)})
    out.append({'name': 'eval_literal_history', 'func': 'eval_literal_history', 'timeout': t,
                'bounds': 'ordered pairs of %d strings that differ only in inner/outer white space, 3 quote styles, evaluated one after '
                          'the other through the module-level yaql.eval (selectors; each path one concrete history)' % len(WS_VALUES)})
    out.append({'name': 'keyword_tables', 'func': 'keyword_tables', 'timeout': t,
                'bounds': 'the words in/mod/xor/out/and read by three engines (standard table, table without in and mod, table with a '
                          'host-defined xor) in every order (selectors; each path one concrete history)'})
    out.append({'name': 'literal_pair', 'func': 'literal_pair', 'timeout': t,
                'bounds': 'every ordered pair of %d literal spellings (ints, integral floats, constants, the three quote styles, '
                          'values ending in a backslash, keywords) in one expression: each keeps its own value and type '
                          '(selectors: each path one concrete text)' % len(LITS)})
    if K_VERB in KNOWN:
        out.append({'name': 'probe[verbatim-odd-backslash-run]', 'func': 'probe_verbatim', 'timeout': 60, 'kind': 'probe',
                    'param': {'probe_key': K_VERB, 'slen': 3},
                    'bounds': 'v len <= 3 with an odd backslash run before a back quote, a newline or the end'})
    return out


# ---------------------------------------------------------------------------------------------------------------

def lemmas(tier):
    import z3
    from props import sre2z3 as Z
    out = []

    def lemma(name, query, constraints, expected='unsat', timeout=120000, unspell=None):
        res, w, dt = Z.solve(constraints, timeout)
        item = {'name': name, 'query': query, 'result': res, 'expected': expected, 'ok': res == expected,
                'time_s': dt, 'witness': w}
        if res == 'sat' and expected == 'unsat' and unspell is not None:
            # the lemma fails: run the witness (a spelling) on the real engine; a wrong value is a violation of C16
            want = unspell(w)
            r = read_engine(w)
            item['observed'] = repr(r)
            if not (r[0] == 'ok' and r[1] == want):
                item['violation'] = {'key': 'C16/lemma/%s' % name, 'args': {'text': w, 'want': want},
                                     'what': 'lemma %s fails: the spelling %r of %r evaluates to %r' % (name, w, want, r)}
        out.append(item)
        return res, w

    def unspell_decoding(x):
        body, q, o, i = x[1:-1], x[0], '', 0
        while i < len(body):
            if body[i] == BS and i + 1 < len(body) and body[i + 1] in (BS, q):
                o += body[i + 1]
                i += 2
            else:
                o += body[i]
                i += 1
        return o

    T = {}
    for q in STYLES:
        try:
            T[q] = Z.translate(rule_doc(STYLE_RULE[q]))
        except Z.Unsupported as e:
            out.append({'name': 'translate[%s]' % STYLE_RULE[q], 'query': 'sre2z3', 'result': 'unsupported: %s' % e,
                        'expected': 'translated', 'ok': False, 'time_s': 0})
    bs, bq, nl = Z.text(BS), Z.text(BQ), Z.text('\n')
    anystar = z3.Star(Z.ANY)
    for q in STYLES:
        if q not in T or q in VERBATIM:
            continue
        qq = Z.text(q)
        plain = Z.not_char(z3.Union(bs, qq))
        H_ = z3.Concat(qq, z3.Star(z3.Union(plain, z3.Concat(bs, bs), z3.Concat(bs, qq))), qq)
        lemma('L1[%s]' % STYLE_RULE[q], 'exists spelling x in %s(c | \\\\ | \\%s)*%s with x not in L(%s)' % (q, q, q, STYLE_RULE[q]),
              [Z.inre(H_), Z.notin(T[q])], unspell=unspell_decoding)
        lemma('L1-one-token[%s]' % STYLE_RULE[q], 'exists spelling x with a proper prefix in L(%s)' % STYLE_RULE[q],
              [Z.inre(H_), Z.inre(z3.Concat(T[q], z3.Plus(Z.ANY)))], unspell=unspell_decoding)
        # controls (must be sat): without escaping the backslash / the quote the inclusion fails
        lemma('control-L1[%s,backslash unescaped]' % STYLE_RULE[q], 'exists x in q(c | bs q)*q not in L(rule) when c may be a backslash (%s%s%s %s)' % (q, q, q, STYLE_RULE[q]),
              [Z.inre(z3.Concat(qq, z3.Star(z3.Union(Z.not_char(qq), z3.Concat(bs, qq))), qq)), Z.notin(T[q])], expected='sat')
        lemma('control-L1-one-token[%s,quote unescaped]' % STYLE_RULE[q], 'exists x = q c* q (c any character but a backslash) with a proper prefix in L(%s)' % STYLE_RULE[q],
              [Z.inre(z3.Concat(qq, z3.Star(Z.not_char(bs)), qq)), Z.inre(z3.Concat(T[q], z3.Plus(Z.ANY)))], expected='sat')
    for q in VERBATIM:
        if q not in T:
            continue
        qq = Z.text(q)
        nb = Z.not_char(bs)                                   # not a backslash
        nbq = Z.not_char(z3.Union(bs, qq))                    # neither backslash nor back quote
        nbqn = Z.not_char(z3.Union(bs, qq, nl))
        even = z3.Star(z3.Concat(bs, bs))
        start = z3.Union(Z.EPS, z3.Concat(anystar, nb))       # a maximal run starts here
        # GoodV: no odd maximal backslash run followed by back quote / newline / end.  ClassV: the complement, by definition
        good = z3.Concat(z3.Star(z3.Concat(even, z3.Union(nbq, qq, z3.Concat(bs, nbqn)))), even)
        cls = z3.Concat(start, even, bs, z3.Union(Z.EPS, z3.Concat(z3.Union(qq, nl), anystar)))
        lemma('class-partition[a]', 'exists v both in GoodV and in ClassV (odd run before `/newline/end)', [Z.inre(good), Z.inre(cls)])
        lemma('class-partition[b]', 'exists v neither in GoodV nor in ClassV', [Z.notin(good), Z.notin(cls)])
        body = z3.Concat(qq, anystar, qq)
        tokv = T[q]
        # L2: what a token body can never look like (hence which values cannot be produced by removing one backslash
        # before each back quote)
        lemma('L2a[no body ends with an odd backslash run]', 'exists token `B` of %s with B ending in an odd maximal backslash run' % STYLE_RULE[q],
              [Z.inre(tokv), Z.inre(z3.Concat(qq, start, even, bs, qq))])
        lemma('control-L2a[a body may end with an even backslash run]', 'exists token `B` with B ending in a non-empty even backslash run',
              [Z.inre(tokv), Z.inre(z3.Concat(qq, start, z3.Plus(z3.Concat(bs, bs)), qq))], expected='sat')
        lemma('L2b[no body has an odd backslash run before a newline]', 'exists token with an odd maximal backslash run followed by newline',
              [Z.inre(tokv), Z.inre(z3.Concat(qq, start, even, bs, nl, anystar, qq))])
        lemma('L2c[every back quote in a body follows an odd backslash run]',
              'exists token whose body has a back quote after an even (or empty) maximal backslash run',
              [Z.inre(tokv), Z.inre(z3.Concat(qq, start, even, qq, anystar, qq))])
        # L1 for the verbatim style: the spelling of every GoodV value is exactly one token
        hgood = z3.Concat(qq, z3.Star(z3.Concat(even, z3.Union(nbq, z3.Concat(bs, qq), z3.Concat(bs, nbqn)))), even, qq)
        lemma('L1[%s]' % STYLE_RULE[q], 'exists v in GoodV whose spelling (` -> \\`) is not in L(%s)' % STYLE_RULE[q],
              [Z.inre(hgood), Z.notin(tokv)], unspell=lambda x: x[1:-1].replace(BS + q, q))
        lemma('L1-one-token[%s]' % STYLE_RULE[q], 'exists v in GoodV whose spelling has a proper prefix in L(%s)' % STYLE_RULE[q],
              [Z.inre(hgood), Z.inre(z3.Concat(tokv, z3.Plus(Z.ANY)))], unspell=lambda x: x[1:-1].replace(BS + q, q))
        lemma('control-L1[%s,all values]' % STYLE_RULE[q], 'exists v (any string) whose spelling (` -> \\`) is not in L(%s)' % STYLE_RULE[q],
              [Z.inre(z3.Concat(qq, z3.Star(z3.Union(Z.not_char(qq), z3.Concat(bs, qq))), qq)), Z.notin(tokv)], expected='sat')
        # the finding itself, as a witness executed on the real engine: a ClassV value and its best spelling
        res, w, dt = Z.solve([Z.inre(cls), lambda x: z3.Length(x) <= 3, lambda x: z3.Length(x) >= 1], 60000)
        if res == 'sat':
            r = read_engine(spell(w, q))
            bad = not (r[0] == 'ok' and r[1] == w)
            item = {'name': 'L2-witness', 'query': 'a member of ClassV, spelled with ` -> \\` and evaluated by the real engine',
                    'result': 'sat', 'expected': 'sat; the engine does not read the value back (F8)', 'witness': w,
                    'ok': not bad, 'time_s': dt, 'observed': repr(r)}
            if bad:
                item['violation'] = {'key': K_VERB, 'args': {'v': w, 'style': q},
                                     'what': 'no back-quoted spelling of %r: %s evaluates to %r' % (w, spell(w, q), r)}
            out.append(item)
    if 't_KEYWORD_STRING' in ACTIONS:
        try:
            kw = Z.translate(rule_doc('t_KEYWORD_STRING'))
            res, w = lemma('keyword-guard', 'exists x in L(t_KEYWORD_STRING) starting with "__"',
                           [Z.inre(kw), Z.inre(z3.Concat(Z.text('__'), anystar))])
            if res == 'sat':
                r = read_engine(w)
                out[-1]['observed'] = repr(r)
                if r[0] == 'ok':
                    out[-1]['violation'] = {'key': 'C16/lemma/keyword-guard', 'args': {'text': w, 'reject': True},
                                            'what': 'the word %r starts with two underscores and is accepted: %r' % (w, r)}
            lemma('keyword-shape', 'exists identifier-shaped x ([A-Za-z_][A-Za-z0-9_]*, not starting with __) not in L(t_KEYWORD_STRING)',
                  [Z.inre(Z.minus(z3.Concat(z3.Union(z3.Range('a', 'z'), z3.Range('A', 'Z'), Z.text('_')),
                                            z3.Star(z3.Union(z3.Range('a', 'z'), z3.Range('A', 'Z'), z3.Range('0', '9'), Z.text('_')))),
                                  z3.Concat(Z.text('__'), anystar))), Z.notin(kw)])
        except Z.Unsupported as e:
            out.append({'name': 'translate[t_KEYWORD_STRING]', 'query': 'sre2z3', 'result': 'unsupported: %s' % e,
                        'expected': 'translated', 'ok': False, 'time_s': 0})
    # numerals at the int() digit limit: the literal denotes the same integer as in Python
    lim = sys.get_int_max_str_digits() or 4300
    for n in (lim - 1, lim):
        text = '9' * n
        r = read_engine(text)
        ok = r[0] == 'ok' and type(r[1]) is int and r[1] == 10 ** n - 1
        item = {'name': 'numeral[%d digits]' % n, 'query': 'the literal of %d nines evaluates to 10**%d - 1' % (n, n),
                'result': 'executed', 'expected': 'equal', 'ok': ok, 'time_s': 0}
        if not ok:
            item['violation'] = {'key': 'C16/long-numeral', 'args': {'digits': n}, 'what': '%d nines evaluate to %r' % (n, r[:1])}
        out.append(item)
    # numerals at the precision boundaries of C-level number types (a literal read through a double or a machine word
    # would change here): each is executed through the real engine, as written and negated
    for v in sorted({b + d for b in (2 ** 24, 2 ** 31, 2 ** 32, 2 ** 53, 2 ** 63, 2 ** 64, 10 ** 16, 10 ** 17, 10 ** 22,
                                      10 ** 23, 2 ** 100, 2 ** 1024) for d in (-1, 0, 1, 3)}):
        text = str(v)
        name = 'numeral[%s]' % (text if len(text) <= 24 else text[:10] + '..%d digits' % len(text))
        r, rn = read_engine(text), read_engine('-' + text)
        ok = r[0] == 'ok' and type(r[1]) is int and r[1] == v and rn[0] == 'ok' and type(rn[1]) is int and rn[1] == -v
        item = {'name': name, 'query': 'the literal %s and its negation evaluate to that integer exactly' % name[8:-1],
                'result': 'executed', 'expected': 'equal', 'ok': ok, 'time_s': 0}
        if not ok:
            bad_pos = not (r[0] == 'ok' and r[1] == v)
            item['violation'] = {'key': 'C16/lemma/%s' % name,
                                 'args': {'text': text if bad_pos else '-' + text, 'want': v if bad_pos else -v},
                                 'what': 'the literal %s evaluates to %r, its negation to %r' % (text, r, rn)}
        out.append(item)
    return out


def validate():
    bad = []
    if sorted(STYLES) != sorted(['"', "'", '`']) or VERBATIM != ['`']:
        bad.append('C16: expected three quote styles with one verbatim style, found %r / %r' % (STYLES, VERBATIM))
    # the repo's own literal tests (yaql/tests/test_strings.py etc.) as reference for the harness's helpers
    for text, want in (("'abc'", 'abc'), ('"abc"', 'abc'), ('`abc`', 'abc'), ("'a\\'b'", "a'b"), ('`a\\`b`', 'a`b'),
                       ('`a\\nb`', 'a\\nb'), ("'a\\nb'", 'a\nb'), ('123', 123), ('1.5', 1.5), ('true', True), ('null', None),
                       ('abc', 'abc')):
        r = read_engine(text)
        if r != ('ok', want):
            bad.append('C16 helper read_engine(%r) = %r, expected %r' % (text, r, want))
    for v in ('', 'a', "it's", 'a\\b', '\\\\', 'q"`'):
        for q in STYLES:
            if q in VERBATIM and no_verbatim_spelling(v):
                continue
            if read_token(spell(v, q), q) != ('ok', 'QUOTED_STRING', v):
                bad.append('C16 spelling helper fails on %r style %s: %r' % (v, q, read_token(spell(v, q), q)))
    for kind in KIND_N:
        t, v = escape_case(kind, 1, False, 3 if kind == 'o' else 0)
        if eval("'" + t + "'") != v:
            bad.append('C16 escape reference differs from Python literal semantics for %r' % t)
    return bad[:5]


def replay(cond, args):
    f = cond['func']
    vals = dict(args)
    p = cond.get('param') or {}
    if f == '__lemma__':
        v, q = vals.get('v'), vals.get('style', BQ)
        if vals.get('reject'):
            r = read_engine(vals['text'])
            return {'reproduced': r[0] == 'ok', 'key': 'C16/lemma/keyword-guard',
                    'what': 'the word %r starts with two underscores and evaluates to %r' % (vals['text'], r)}
        if vals.get('text') is not None:
            r = read_engine(vals['text'])
            return {'reproduced': not (r[0] == 'ok' and r[1] == vals.get('want')), 'key': 'C16/lemma/%s' % cond.get('name'),
                    'what': 'the spelling %r of %r evaluates to %r' % (vals['text'], vals.get('want'), r)}
        if v is None:
            n = vals.get('digits', 4300)
            r = read_engine('9' * n)
            bad = not (r[0] == 'ok' and r[1] == 10 ** n - 1)
            return {'reproduced': bad, 'key': 'C16/long-numeral', 'what': '%d nines evaluate to %r' % (n, r[:1])}
        r = read_engine(spell(v, q))
        bad = not (r[0] == 'ok' and r[1] == v)
        return {'reproduced': bad, 'key': K_VERB if no_verbatim_spelling(v) and q in VERBATIM else 'C16/roundtrip',
                'what': 'value %r spelled %s evaluates to %r' % (v, spell(v, q), r)}
    if f in ('roundtrip', 'probe_verbatim'):
        q = BQ if f == 'probe_verbatim' else p.get('style', "'")
        v = vals['v']
        text = spell(v, q)
        r = read_engine(text)
        bad = not (r[0] == 'ok' and isinstance(r[1], str) and r[1] == v)
        key = K_VERB if (q in VERBATIM and no_verbatim_spelling(v)) else 'C16/roundtrip/%s' % STYLE_RULE[q]
        return {'reproduced': bad, 'key': key,
                'what': 'string %r spelled %s: engine gives %r%s' % (v, text, r, ' (no back-quoted spelling exists: lemma L2)'
                                                                     if key == K_VERB else '')}
    import props.c16 as me
    try:
        ok = getattr(me, f)(**vals)
    except Exception as e:
        return {'reproduced': True, 'key': 'C16/harness-exception/%s' % type(e).__name__, 'what': '%s%r raised %r' % (f, vals, e)}
    if ok:
        return {'reproduced': False}
    what = '%s fails for %r' % (cond['name'], vals)
    if f == 'escape_form':
        kind = p.get('kind', 'x')
        inner = 16 if kind in 'xo' else 1
        for n in range(vals['k'] * inner, min(KIND_N[kind], (vals['k'] + 1) * inner)):
            for upper, width, q in escape_variants(kind, n):
                if not escape_check(kind, n, upper, width, q):
                    text, val = escape_case(kind, n, upper, width)
                    what = 'escape %s in %s-quotes: engine gives %r, reference %r' % (text, q, read_engine(q + text + q), val)
    elif f == 'literal_pair':
        a, b = LITS[vals['i']], LITS[vals['j']]
        what = 'list(%s, %s) evaluates to %r, expected [%r, %r]' % (a[0], b[0], read_engine('list(%s, %s)' % (a[0], b[0])), a[1], b[1])
    elif f == 'unknown_escape':
        q = DEC_STYLES[1 if vals['dq'] and len(DEC_STYLES) > 1 else 0]
        text = q + vals['a'] + BS + vals['c'] + vals['a'] + q
        what = 'undocumented escape %r: engine gives %r, expected the two characters to stay' % (text, read_engine(text))
    elif f == 'number':
        text = vals['i'] + ('.' + vals['f'] if vals['f'] else '')
        what = 'numeral %s: engine gives %r' % (text, read_engine(text))
    elif f in ('keyword_action', 'keyword_engine'):
        what = 'word %r: engine gives %r' % (vals['w'], read_engine(vals['w']))
    elif f == 'roundtrip_engine':
        what = 'value %r: ' % vals['v'] + '; '.join('%s -> %r' % (spell(vals['v'], q), read_engine(spell(vals['v'], q))) for q in STYLES)
        if no_verbatim_spelling(vals['v']) and all(read_engine(spell(vals['v'], q)) == ('ok', vals['v']) for q in DEC_STYLES):
            return {'reproduced': True, 'key': K_VERB, 'what': what}
    return {'reproduced': True, 'key': 'C16/%s/%s' % (f, p.get('kind', p.get('style', ''))), 'what': what}
