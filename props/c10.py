"""C10 - data round-trips and every result is finalised into plain data.

Real code run symbolically: utils.convert_output_data through the real '#finalize' / '#iter' functions of
yaql/__init__.py (statement `$v` with the value placed in the context untouched), YaqlInterface.__call__,
utils.convert_input_data through Statement.evaluate(data=...), with the value decoded from symbolic shape selectors
and the two output options as symbolic booleans.
"""
import itertools

from vf import h as H
from vf import yq

import yaql
from yaql.language import expressions, utils
from yaql import yaql_interface
from yaql.standard_library import queries

ID = 'C10'
KNOWN = set(H.P('known', ()))

FUNCTIONS_ENCODED = ['yaql.language.utils.convert_output_data', 'yaql.language.utils.convert_input_data',
                     'yaql.__init__ #finalize / #iter', 'yaql.language.expressions.Statement.evaluate',
                     'yaql.yaql_interface.YaqlInterface.__call__ / __getattr__ stub',
                     'yaql.language.utils.limit_iterable (limit -1)', 'yaql.language.utils.FrozenDict']
BOUNDS = {
    'quick': 'value = outer container (one of 21 kinds, one condition each) of 0..2 children; child = leaf (int, str, None, '
             'bool, float) or one of 19 inner container kinds holding two leaves (depth 2), placed as element, dict value, '
             'dict key or set element according to the outer kind; leaves in value positions are symbolic (int unbounded, '
             'str len <= 2), leaves in hashed positions concrete; convertTuplesToLists x convertSetsToLists symbolic; '
             'documents for the round trip: outer x mid x inner over {dict, list, tuple, set, generator, leaf}, depth 3',
    'thorough': 'same with 0..3 children and str leaves (len <= 1); depth 3 for library shapes: every buildable outer x mid, inner '
                'over leaf-int, tuple, frozenset, generator, itemsview; YaqlInterface routes per outer kind over 19 child kinds; '
                'documents: every outer x mid x inner over the 10 document kinds, both entry points'}
OUTSIDE = ['depth > 3, host-defined collection classes', 'hosts passing frozenset (convert_input_data treats only mutable sets '
           'as sets: a host frozenset comes back as a list - unspecified by the property, not asserted)',
           'symbolic values in hashed positions (dict keys, set elements are concrete strings/ints/tuples)',
           'limitIterators >= 0 (C08)']
ASSUMPTIONS = ['reference canonical form (written from the property text): mapping -> dict; set -> set or list per '
               'convertSetsToLists; tuple -> list or tuple per convertTuplesToLists; list -> list; any other iterable '
               '(dict views, generators, map, chain, ordering/remembering iterables, range) -> list; dict key/item views '
               'may come back as list or (when convertSetsToLists is off and the elements stay hashable) as set',
               'set-derived lists are compared without regard to order']
EXPLANATION = ('Symbolic execution (CrossHair+z3) of the real output/input converters through the real #finalize function '
               'and YaqlInterface for values decoded from symbolic shape selectors (all container kinds the library can '
               'return, nested, in element/value/key/set-element positions) under symbolic option booleans; the result is '
               'compared with a reference canonical form and its recursive type census must be plain data. '
               'Counterexamples are replayed on plain CPython through engine(text).evaluate.')
TECHNIQUE = 'bounded symbolic execution (CrossHair+z3) of the converters on shape-decoded values vs a reference canonical form'

ENG0 = yq.ENG
ROOT = yq.ROOT
yaql.eval('1')          # build the module-level engine/context of yaql.eval now, outside any symbolic run


# ------------------------------------------------------------------ shapes
class Unbuildable(Exception):
    """the combination cannot exist as a Python value (unhashable child in a hashed position)"""


SEQ_KINDS = ['tuple', 'list', 'generator', 'map', 'chain', 'ordering', 'remembering', 'limited', 'islice', 'deque']
MAP_VALUE_KINDS = ['frozendict', 'dict']                       # children are values
MAP_KEY_KINDS = ['frozendict-keys', 'dict-keys']               # children are keys
SET_KINDS = ['frozenset', 'set']
VIEW_KINDS = ['keysview', 'valuesview', 'itemsview', 'itemsview-keys']     # keys(): children are keys; values()/items(): values;
OUTER_KINDS = SEQ_KINDS + MAP_VALUE_KINDS + MAP_KEY_KINDS + SET_KINDS + VIEW_KINDS + ['range']
LEAF_KINDS = ['leaf-int', 'leaf-str', 'leaf-none', 'leaf-bool', 'leaf-float']
INNER_KINDS = LEAF_KINDS + [k for k in OUTER_KINDS]
HASHED_PARENT = set(MAP_KEY_KINDS + SET_KINDS + ['keysview', 'itemsview-keys'])
HASHABLE_KINDS = set(['tuple', 'frozenset', 'frozendict', 'frozendict-keys', 'generator', 'map', 'chain', 'ordering',
                      'remembering', 'limited', 'islice', 'valuesview', 'range'] + LEAF_KINDS)


def spec_leaf(kind, j, a, b, hashed):
    """leaf number j; symbolic payload only where no hashing happens"""
    if kind == 'leaf-int':
        return ('leaf', (j + 10) if hashed else a + j)
    if kind == 'leaf-str':
        return ('leaf', ('k%d' % j) if hashed else b + ('x' * j))
    if kind == 'leaf-none':
        return ('leaf', None if j == 0 else 'n%d' % j)
    if kind == 'leaf-bool':
        return ('leaf', (j == 0) if j < 2 else 'b%d' % j)
    return ('leaf', 0.5 + j)


def make_spec(kind, children):
    return (kind, children)


def inner_spec(kind, j, a, b, hashed):
    """depth-2 child number j: a leaf or a container of two leaves (distinct per j)"""
    if kind in LEAF_KINDS:
        return spec_leaf(kind, j, a, b, hashed)
    if kind == 'range':
        return ('range', j + 1)
    deep_hashed = hashed or kind in HASHED_PARENT
    return (kind, [spec_leaf('leaf-int', 2 * j, a, b, deep_hashed), spec_leaf('leaf-str', 2 * j + 1, a, b, deep_hashed)])


def hashable_spec(spec):
    kind = spec[0]
    if kind == 'leaf':
        return True
    if kind not in HASHABLE_KINDS:
        return False
    if kind in ('tuple', 'frozenset', 'frozendict', 'frozendict-keys'):
        return all(hashable_spec(c) for c in spec[1])
    return True          # iterators/generators/range hash by identity


def build(spec):
    """the Python value (fresh lazy objects on every call)"""
    kind = spec[0]
    if kind == 'leaf':
        return spec[1]
    if kind == 'range':
        return range(spec[1])
    kids = spec[1]
    if kind in HASHED_PARENT and not all(hashable_spec(c) for c in kids):
        raise Unbuildable(kind)
    vals = [build(c) for c in kids]
    if kind == 'tuple':
        return tuple(vals)
    if kind == 'list':
        return list(vals)
    if kind == 'generator':
        return (v for v in vals)
    if kind == 'map':
        return map(lambda v: v, vals)
    if kind == 'chain':
        return itertools.chain(vals[:1], vals[1:])
    if kind == 'islice':
        return itertools.islice(vals, 0, None)
    if kind == 'deque':
        return utils.QueueType(vals)
    if kind == 'ordering':
        return queries.OrderingIterable(vals, lambda x, y: False, lambda x, y: False)
    if kind == 'remembering':
        return utils.memorize(iter(vals), ENG0)
    if kind == 'limited':
        return utils.limit_iterable(iter(vals), -1)
    if kind == 'frozendict':
        return utils.FrozenDict(('f%d' % i, v) for i, v in enumerate(vals))
    if kind == 'dict':
        return {'f%d' % i: v for i, v in enumerate(vals)}
    if kind == 'frozendict-keys':
        return utils.FrozenDict((v, i) for i, v in enumerate(vals))
    if kind == 'dict-keys':
        return {v: i for i, v in enumerate(vals)}
    if kind == 'frozenset':
        return frozenset(vals)
    if kind == 'set':
        return set(vals)
    if kind == 'keysview':
        return {v: i for i, v in enumerate(vals)}.keys()
    if kind == 'valuesview':
        return {'f%d' % i: v for i, v in enumerate(vals)}.values()
    if kind == 'itemsview':
        return {'f%d' % i: v for i, v in enumerate(vals)}.items()
    if kind == 'itemsview-keys':
        return {v: i for i, v in enumerate(vals)}.items()
    raise ValueError(kind)


# ------------------------------------------------------------------ reference canonical form
def expected(spec):
    """node tree: ('leaf', v) | ('dict', [(knode, vnode)]) | ('list', [..]) | ('tuple', [..]) | ('set', [..]) |
    ('view', [..])"""
    kind = spec[0]
    if kind == 'leaf':
        return spec
    if kind == 'range':
        return ('list', [('leaf', i) for i in range(spec[1])])
    kids = [expected(c) for c in spec[1]]
    if kind == 'tuple':
        return ('tuple', kids)
    if kind in MAP_VALUE_KINDS:
        return ('dict', [(('leaf', 'f%d' % i), k) for i, k in enumerate(kids)])
    if kind in MAP_KEY_KINDS:
        return ('dict', [(k, ('leaf', i)) for i, k in enumerate(kids)])
    if kind in SET_KINDS:
        return ('set', kids)
    if kind == 'keysview':
        return ('view', kids)
    if kind == 'itemsview':
        return ('view', [('tuple', [('leaf', 'f%d' % i), k]) for i, k in enumerate(kids)])
    if kind == 'itemsview-keys':
        return ('view', [('tuple', [k, ('leaf', i)]) for i, k in enumerate(kids)])
    return ('list', kids)                 # list, deque and every lazy kind, dict values view


def plain_hashable(node, t2l, s2l):
    """can the canonical plain form of this node be hashed?"""
    k = node[0]
    if k == 'leaf':
        return True
    if k == 'tuple':
        return (not t2l) and all(plain_hashable(c, t2l, s2l) for c in node[1])
    return False                          # dict, list, set (a plain `set` is unhashable), view


def problems(node, t2l, s2l):
    """known-finding classes present in this value under these options, in the order finalisation meets them"""
    k = node[0]
    out = []
    if k == 'leaf':
        return out
    if k == 'dict':
        for kn, vn in node[1]:
            out += problems(kn, t2l, s2l) + problems(vn, t2l, s2l)
            if not plain_hashable(kn, t2l, s2l):
                out.append('C10/dict-key-collection')
        return out
    for c in node[1]:
        out += problems(c, t2l, s2l)
    if k == 'set' and not s2l and not all(plain_hashable(c, t2l, s2l) for c in node[1]):
        out.append('C10/set-element-collection')
    if k == 'view' and not s2l and not all(plain_hashable(c, t2l, s2l) for c in node[1]):
        out.append('C10/mapping-view-unhashable')
    return out


def is_scalar(v):
    return v is None or isinstance(v, (bool, int, float, str))


def match_unordered(res_items, nodes, t2l, s2l):
    if len(res_items) != len(nodes):
        return False
    if not nodes:
        return True
    for perm in itertools.permutations(range(len(nodes))):
        ok = True
        for r, pi in zip(res_items, perm):
            if not match(r, nodes[pi], t2l, s2l):
                ok = False
                break
        if ok:
            return True
    return False


def match(res, node, t2l, s2l):
    """res is plain data of exactly the canonical shape and types of node"""
    k = node[0]
    if k == 'leaf':
        return is_scalar(res) and yq.same(res, node[1]) and (type(res) is bool) == (type(node[1]) is bool)
    if k == 'dict':
        if type(res) is not dict or len(res) != len(node[1]):
            return False
        items = list(res.items())
        for perm in itertools.permutations(range(len(items))):
            if all(match(items[pi][0], kn, t2l, s2l) and match(items[pi][1], vn, t2l, s2l)
                   for pi, (kn, vn) in zip(perm, node[1])):
                return True
        return not items
    if k == 'list':
        return type(res) is list and len(res) == len(node[1]) and all(match(r, c, t2l, s2l) for r, c in zip(res, node[1]))
    if k == 'tuple':
        want = list if t2l else tuple
        return type(res) is want and len(res) == len(node[1]) and all(match(r, c, t2l, s2l) for r, c in zip(res, node[1]))
    if k == 'set':
        if type(res) is not (list if s2l else set):
            return False
        return match_unordered(list(res), node[1], t2l, s2l)
    if k == 'view':
        if type(res) is list or (type(res) is set and not s2l):
            return match_unordered(list(res), node[1], t2l, s2l)
        return False
    raise ValueError(k)


def census_ok(v, t2l, s2l):
    """recursive type census: plain data only"""
    if is_scalar(v):
        return True
    t = type(v)
    if t is dict:
        return all(census_ok(k, t2l, s2l) and census_ok(x, t2l, s2l) for k, x in v.items())
    if t is list or (t is tuple and not t2l) or (t is set and not s2l):
        return all(census_ok(x, t2l, s2l) for x in v)
    return False


# ------------------------------------------------------------------ harnesses
def engine_with(t2l, s2l, **more):
    opts = {'yaql.convertTuplesToLists': t2l, 'yaql.convertSetsToLists': s2l}
    opts.update({'yaql.' + k: v for k, v in more.items()})
    return ENG0.copy(opts)


def run_finalize(value, eng, via):
    """the three public ways a result gets finalised"""
    if via == 0:          # statement `$v`, value placed in the context untouched
        st = yq.stmt('$v')
        c = ROOT.create_child_context()
        c['v'] = value
        return expressions.Statement(st.expression, eng).evaluate(context=c)
    if via == 1:          # YaqlInterface.__call__ (evaluates, then converts once more)
        iface = yaql_interface.YaqlInterface(ROOT.create_child_context(), eng)
        iface['v'] = value
        return iface('$v')
    # YaqlInterface function stub: result of a library function called from Python
    ctx = ROOT.create_child_context()
    ctx.register_function(lambda: value, name='produce')
    return yaql_interface.YaqlInterface(ctx, eng).produce()


def pick(table, i):
    """table entry selected by a (symbolic) index: the index is realised, so each path works on one concrete kind"""
    with H.NoTracing():
        return table[int(i)]


def shape_spec(outer, inner_kind, n, a, b):
    hashed = outer in HASHED_PARENT
    return (outer, [inner_spec(inner_kind, j, a, b, hashed) for j in range(n)])


def excluded(outer, inner_kind, n, t2l, s2l):
    node = expected(shape_spec(outer, inner_kind, n, 0, ''))
    return any(p in KNOWN for p in problems(node, t2l, s2l))


def buildable(outer, inner_kind, n):
    try:
        build(shape_spec(outer, inner_kind, n, 0, ''))
        return True
    except Unbuildable:
        return False


REP_KINDS = ['leaf-int', 'tuple', 'frozenset', 'frozendict', 'generator', 'itemsview', 'list']      # representative inner kinds
REP = [INNER_KINDS.index(k) for k in REP_KINDS]


def allowed(i, which):
    sub = H.P(which)
    return sub is None or i in sub


def finalize_shape(inner: int, n: int, a: int, b: str, t2l: bool, s2l: bool, via: int) -> bool:
    """
    pre: 0 <= inner < len(INNER_KINDS) and allowed(inner, 'inners') and H.P('nlo', 0) <= n <= H.P('nhi', 2)
    pre: len(b) <= H.P('slen', 1) and via in H.P('vias', [0])
    pre: buildable(H.P('outer'), pick(INNER_KINDS, inner), n)
    pre: not excluded(H.P('outer'), pick(INNER_KINDS, inner), n, t2l, s2l)
    pre: H.fresh(inner, n, a, b, t2l, s2l, via)
    post: _
    """
    outer = H.P('outer')
    spec = shape_spec(outer, pick(INNER_KINDS, inner), n, a, b)
    value = build(spec)
    eng = engine_with(t2l, s2l)
    try:
        res = run_finalize(value, eng, via)
    except Exception:
        return H.done(False)
    return H.done(census_ok(res, t2l, s2l) and match(res, expected(spec), t2l, s2l))


TRI = [(None,), (True,), (False,)]      # an option absent / on / off at one level
LEVEL_VALUES = [('tuple', 'frozenset'), ('generator', 'tuple'), ('list', 'tuple'), ('frozendict', 'frozenset')]   # no collections in hashed positions (listed findings)


def level_opts(t, s):
    o = {}
    if t is not None:
        o['yaql.convertTuplesToLists'] = t
    if s is not None:
        o['yaql.convertSetsToLists'] = s
    return o


def effective(stmt_level, engine_level, default):
    return stmt_level if stmt_level is not None else (engine_level if engine_level is not None else default)


_LEVEL_ENGINES = {}


def level_engine(et, es):
    """engine created by the real factory with the given creation-time options (built once per combination, outside
    the symbolic run: building a parser is not the subject)"""
    with H.NoTracing():
        key = (et, es)
        if key not in _LEVEL_ENGINES:
            _LEVEL_ENGINES[key] = yq.FACTORY.create(options=level_opts(et, es))
        return _LEVEL_ENGINES[key]


def run_levels(et, es, st_, ss, how, value):
    """the conversion options given at engine creation and again per statement; the later level wins"""
    eng = level_engine(et, es)
    c = ROOT.create_child_context()
    c['v'] = value
    so = level_opts(st_, ss)
    if how == 0:
        return eng('$v', options=so).evaluate(context=c)
    if how == 1:
        return eng.copy(so)('$v').evaluate(context=c)
    return eng.copy(level_opts(st_, None)).copy(level_opts(None, ss))('$v').evaluate(context=c)


def option_levels(et: int, es: int, st_: int, ss: int, shape: int) -> bool:
    """
    pre: 0 <= et < 3 and 0 <= es < 3 and 0 <= st_ < 3 and 0 <= ss < 3 and 0 <= shape < H.P('nshapes', 2)
    pre: H.fresh(et, es, st_, ss, shape)
    post: _
    """
    how, a = H.P('how', 0), 10
    et, es, st_, ss = TRI[et][0], TRI[es][0], TRI[st_][0], TRI[ss][0]
    outer, inner = pick(LEVEL_VALUES, shape)
    spec = shape_spec(outer, inner, 1, a, 'v')
    t2l, s2l = effective(st_, et, True), effective(ss, es, False)
    try:
        res = run_levels(et, es, st_, ss, how, build(spec))
    except Exception:
        return H.done(False)
    return H.done(census_ok(res, t2l, s2l) and match(res, expected(spec), t2l, s2l))


def run_snapshot(et, es, mt, ms, value):
    """the host keeps and later changes the dict it passed to factory.create(options=...): the engine works with the
    options it was created with"""
    with H.NoTracing():
        d = level_opts(et, es)
        eng = yq.FACTORY.create(options=d)
        d.clear()
        d.update(level_opts(mt, ms))
    c = ROOT.create_child_context()
    c['v'] = value
    return eng('$v').evaluate(context=c)


def option_snapshot(et: int, es: int, mt: int, ms: int, shape: int) -> bool:
    """
    pre: 0 <= et < 3 and 0 <= es < 3 and 0 <= mt < 3 and mt == ms and 0 <= shape < 2
    pre: H.fresh(et, es, mt, ms, shape)
    post: _
    """
    et, es, mt, ms = TRI[et][0], TRI[es][0], TRI[mt][0], TRI[ms][0]
    outer, inner = pick(LEVEL_VALUES, shape)
    spec = shape_spec(outer, inner, 1, 10, 'v')
    t2l, s2l = effective(None, et, True), effective(None, es, False)
    try:
        res = run_snapshot(et, es, mt, ms, build(spec))
    except Exception:
        return H.done(False)
    return H.done(census_ok(res, t2l, s2l) and match(res, expected(spec), t2l, s2l))


def run_bare_history(spec, t2l, s2l, how):
    """a host context without any finaliser is used once (results are raw there by design) and afterwards becomes the
    root of a full standard context / the linked part of a LinkedContext over one: results are finalised there"""
    import yaql
    from yaql.language import contexts
    with H.NoTracing():
        base = contexts.Context()
        base.register_function(lambda: 42, name='answer')
        eng = engine_with(t2l, s2l)
        eng('answer()').evaluate(context=base)
        if how == 0:
            full = yaql.create_context(context=base)
        else:
            full = contexts.LinkedContext(yaql.create_context(), base)
    c = full.create_child_context()
    c['v'] = build(spec)
    return eng('[$v, answer()][0]').evaluate(context=c)


def bare_history(shape: int, t2l: bool, s2l: bool, how: int) -> bool:
    """
    pre: 0 <= shape < len(LEVEL_VALUES) and 0 <= how < 2
    pre: H.fresh(shape, t2l, s2l, how)
    post: _
    """
    outer, inner = pick(LEVEL_VALUES, shape)
    how = pick([0, 1], how)
    spec = shape_spec(outer, inner, 1, 10, 'v')
    try:
        res = run_bare_history(spec, t2l, s2l, how)
    except Exception:
        return H.done(False)
    return H.done(census_ok(res, t2l, s2l) and match(res, expected(spec), t2l, s2l))


OUTERS = [k for k in OUTER_KINDS if k != 'range']


def finalize_via(outer: int, inner: int, n: int, t2l: bool, s2l: bool) -> bool:
    """
    pre: 0 <= outer < len(OUTERS) and 0 <= inner < len(INNER_KINDS) and allowed(inner, 'inners') and 0 <= n <= 1
    pre: allowed(outer, 'outers')
    pre: buildable(pick(OUTERS, outer), pick(INNER_KINDS, inner), n)
    pre: not excluded(pick(OUTERS, outer), pick(INNER_KINDS, inner), n, t2l, s2l)
    pre: H.fresh(outer, inner, n, t2l, s2l)
    post: _
    """
    # the other two public routes to the converter (YaqlInterface call / function stub), all outer kinds in one condition
    spec = shape_spec(pick(OUTERS, outer), pick(INNER_KINDS, inner), n, 3, 'v')
    try:
        res = run_finalize(build(spec), engine_with(t2l, s2l), H.P('via'))
    except Exception:
        return H.done(False)
    return H.done(census_ok(res, t2l, s2l) and match(res, expected(spec), t2l, s2l))


def deep_spec(outer, mid_kind, inner_kind, a, b):
    """depth 3: outer [ mid [ inner [leaves] ] , leaf ]"""
    h1 = outer in HASHED_PARENT
    h2 = h1 or mid_kind in HASHED_PARENT
    innermost = inner_spec(inner_kind, 0, a, b, h2)
    if mid_kind in LEAF_KINDS or mid_kind == 'range':
        mid = inner_spec(mid_kind, 1, a, b, h1)
    else:
        mid = (mid_kind, [innermost, spec_leaf('leaf-int', 3, a, b, h2)])
    return (outer, [mid, spec_leaf('leaf-str', 5, a, b, h1)])


def deep_ok(outer, mid_kind, inner_kind):
    try:
        build(deep_spec(outer, mid_kind, inner_kind, 0, ''))
        return True
    except Unbuildable:
        return False


def deep_excluded(outer, mid_kind, inner_kind, t2l, s2l):
    return any(p in KNOWN for p in problems(expected(deep_spec(outer, mid_kind, inner_kind, 0, '')), t2l, s2l))


def finalize_deep(mid: int, inner: int, a: int, b: str, t2l: bool, s2l: bool) -> bool:
    """
    pre: 0 <= mid < len(INNER_KINDS) and 0 <= inner < len(INNER_KINDS) and len(b) <= H.P('slen', 1)
    pre: allowed(mid, 'mids') and allowed(inner, 'inners')
    pre: deep_ok(H.P('outer'), pick(INNER_KINDS, mid), pick(INNER_KINDS, inner))
    pre: not deep_excluded(H.P('outer'), pick(INNER_KINDS, mid), pick(INNER_KINDS, inner), t2l, s2l)
    pre: H.fresh(mid, inner, a, b, t2l, s2l)
    post: _
    """
    spec = deep_spec(H.P('outer'), pick(INNER_KINDS, mid), pick(INNER_KINDS, inner), a, b)
    value = build(spec)
    try:
        res = run_finalize(value, engine_with(t2l, s2l), 0)
    except Exception:
        return H.done(False)
    return H.done(census_ok(res, t2l, s2l) and match(res, expected(spec), t2l, s2l))


# ---- round trip of JSON-like host documents (and tuples, sets, generators of such)
DOC_KINDS = ['dict', 'list', 'tuple', 'set', 'generator'] + LEAF_KINDS
DOC_OUTER = ['dict', 'list', 'tuple', 'set', 'generator']


def doc_spec(outer, mid_kind, inner_kind, a, b):
    return deep_spec(outer, mid_kind, inner_kind, a, b)


def input_expected(spec):
    """canonical form of a host document after convert_input_data + finalisation: the same as for the library kinds
    (list/tuple -> tuple node, dict -> dict, set -> set, generator -> list)"""
    kind = spec[0]
    if kind == 'leaf':
        return spec
    kids = [input_expected(c) for c in spec[1]]
    if kind in ('list', 'tuple'):
        return ('tuple', kids)            # convert_input_data freezes every sequence into a tuple
    if kind == 'dict':
        return ('dict', [(('leaf', 'f%d' % i), k) for i, k in enumerate(kids)])
    if kind == 'set':
        return ('set', kids)
    return ('list', kids)


def doc_ok(outer, mid_kind, inner_kind):
    return deep_ok(outer, mid_kind, inner_kind)


def doc_excluded(outer, mid_kind, inner_kind, t2l, s2l):
    return any(p in KNOWN for p in problems(input_expected(doc_spec(outer, mid_kind, inner_kind, 0, '')), t2l, s2l))


def roundtrip(mid: int, inner: int, a: int, b: str, t2l: bool, s2l: bool, via: int) -> bool:
    """
    pre: 0 <= mid < len(DOC_KINDS) and 0 <= inner < len(DOC_KINDS) and len(b) <= H.P('slen', 1) and via == H.P('via', 0)
    pre: allowed(mid, 'mids') and allowed(inner, 'inners')
    pre: doc_ok(H.P('outer'), pick(DOC_KINDS, mid), pick(DOC_KINDS, inner))
    pre: not doc_excluded(H.P('outer'), pick(DOC_KINDS, mid), pick(DOC_KINDS, inner), t2l, s2l)
    pre: H.fresh(mid, inner, a, b, t2l, s2l, via)
    post: _
    """
    spec = doc_spec(H.P('outer'), pick(DOC_KINDS, mid), pick(DOC_KINDS, inner), a, b)
    doc = build(spec)
    eng = engine_with(t2l, s2l)
    try:
        if via == 0:
            st = yq.stmt('$')
            res = expressions.Statement(st.expression, eng).evaluate(data=doc, context=ROOT.create_child_context())
        else:
            res = yaql_interface.YaqlInterface(ROOT.create_child_context(), eng)('$1', doc)
    except Exception:
        return H.done(False)
    return H.done(census_ok(res, t2l, s2l) and match(res, input_expected(spec), t2l, s2l))


def roundtrip_json(a: int, b: str, c: float, flag: bool, shape: int) -> bool:
    """
    pre: len(b) <= 3 and 0 <= shape < 6 and c == c
    pre: H.fresh(a, b, c, flag, shape)
    post: _
    """
    # pure JSON documents with the library-default engine: the result is the very same document
    docs = [{'a': a, 'b': [b, {'c': c, 'd': [flag, None]}]}, [a, [b, [c, {'k': flag}]], {}], {'x': {'y': {'z': [a, b]}}, 'e': []},
            [{'n': None, 's': b}, {'n': a, 's': ''}], {'list': [[a], [b, c]], 'flag': flag}, [[], {}, [{}], {'a': []}, a]]
    doc = docs[shape]
    res = yq.stmt('$').evaluate(data=doc, context=ROOT.create_child_context())
    res2 = yaql_interface.YaqlInterface(ROOT.create_child_context(), ENG0)('$1', doc)
    return H.done(res == doc and res2 == doc and census_ok(res, True, False) and type(res) is type(doc))


# ---- histories: a parsed statement is evaluated again after the host changed its document in place
MUTATIONS = ['append', 'add-to-set', 'delete-key', 'set-nested', 'clear-list', 'none']


def node_of_host(v):
    """canonical node of a host document (lists and tuples are frozen into tuples by convert_input_data)"""
    if isinstance(v, dict):
        return ('dict', [(node_of_host(k), node_of_host(x)) for k, x in v.items()])
    if isinstance(v, (list, tuple)):
        return ('tuple', [node_of_host(x) for x in v])
    if isinstance(v, (set, frozenset)):
        return ('set', [node_of_host(x) for x in v])
    return ('leaf', v)


def roundtrip_history(mut: int, a: int, t2l: bool, s2l: bool) -> bool:
    """
    pre: 0 <= mut < len(MUTATIONS)
    pre: H.fresh(mut, a, t2l, s2l)
    post: _
    """
    kind = pick(MUTATIONS, mut)
    doc = {'servers': [a, a + 1], 'tags': {'x', 'y'}, 'meta': {'k': [a]}}
    eng = engine_with(t2l, s2l)
    st = expressions.Statement(yq.stmt('$').expression, eng)            # ONE statement object, evaluated twice
    sub = expressions.Statement(yq.stmt('$.servers.len()').expression, eng)
    r1 = st.evaluate(data=doc, context=ROOT.create_child_context())
    n1 = sub.evaluate(data=doc, context=ROOT.create_child_context())
    ok = match(r1, node_of_host(doc), t2l, s2l) and n1 == 2
    if kind == 'append':
        doc['servers'].append(a + 2)
    elif kind == 'add-to-set':
        doc['tags'].add('z')
    elif kind == 'delete-key':
        del doc['meta']
    elif kind == 'set-nested':
        doc['meta']['k'][0] = 'changed'
    elif kind == 'clear-list':
        del doc['servers'][:]
    r2 = st.evaluate(data=doc, context=ROOT.create_child_context())
    n2 = sub.evaluate(data=doc, context=ROOT.create_child_context())
    ok = ok and census_ok(r2, t2l, s2l) and match(r2, node_of_host(doc), t2l, s2l) and n2 == len(doc['servers'])
    # the module-level convenience function caches parsed expressions: same law (library-default options)
    e1 = yaql.eval('$', data=doc)
    doc['servers'].append(a)
    e2 = yaql.eval('$', data=doc)
    ok = ok and match(e2, node_of_host(doc), True, False) and len(e2['servers']) == len(e1['servers']) + 1
    return H.done(ok)


# ---- probes of listed findings (each restricted to its class)
PROBE_SHAPES = {
    'C10/mapping-view-unhashable': [('itemsview', 'leaf-int'), ('itemsview-keys', 'leaf-int'), ('keysview', 'tuple'),
                                    ('list', 'itemsview')],
    'C10/set-element-collection': [('frozenset', 'tuple'), ('set', 'tuple'), ('frozenset', 'frozenset'), ('list', 'frozenset')],
    'C10/dict-key-collection': [('frozendict-keys', 'tuple'), ('dict-keys', 'tuple'), ('frozendict-keys', 'frozenset'),
                                ('frozendict-keys', 'frozendict')],
}


def probe_class(i: int, t2l: bool, s2l: bool) -> bool:
    """
    pre: 0 <= i < len(PROBE_SHAPES[H.P('probe_key')])
    pre: H.P('probe_key') in problems(expected(shape_spec(PROBE_SHAPES[H.P('probe_key')][i][0], PROBE_SHAPES[H.P('probe_key')][i][1], 1, 0, '')), t2l, s2l)
    post: _
    """
    outer, inner_kind = PROBE_SHAPES[H.P('probe_key')][i]
    spec = shape_spec(outer, inner_kind, 1, 0, '')
    try:
        res = run_finalize(build(spec), engine_with(t2l, s2l), 0)
    except Exception:
        return H.done(False)
    return H.done(census_ok(res, t2l, s2l) and match(res, expected(spec), t2l, s2l))


def conditions(tier, seed):
    q = tier == 'quick'
    out = []

    def add(name, func, bounds, timeout, **param):
        out.append({'name': name, 'func': func, 'timeout': timeout, 'param': param, 'bounds': bounds})
    slen = 0 if q else 1
    quick_inner = [i for i, k in enumerate(INNER_KINDS) if k not in ('map', 'chain', 'islice', 'limited', 'deque')]
    for outer in OUTERS:
        if q:
            add('finalize_shape[%s]' % outer, 'finalize_shape',
                'outer %s with 2 children; child kind symbolic over %d kinds (leaves, containers of two leaves); symbolic int '
                'leaves; t2l, s2l symbolic; statement `$v` -> #finalize' % (outer, len(quick_inner)),
                150, outer=outer, nlo=2, nhi=2, vias=[0], slen=slen, inners=quick_inner)
        else:
            for lo, hi in ((0, 1), (2, 2), (3, 3)):
                add('finalize_shape[%s,n%d-%d]' % (outer, lo, hi), 'finalize_shape',
                    'outer %s with %d..%d children; child kind symbolic over %d kinds; symbolic int/str leaves (str len <= 1); '
                    't2l, s2l symbolic; statement `$v` -> #finalize' % (outer, lo, hi, len(INNER_KINDS)),
                    900, outer=outer, nlo=lo, nhi=hi, vias=[0], slen=slen)
    for via, what in ((1, 'YaqlInterface.__call__'), (2, 'YaqlInterface function stub')):
        if q:
            add('finalize_via[%s]' % what, 'finalize_via', 'outer symbolic over %d kinds, 0..1 children of kind tuple, '
                't2l, s2l symbolic; through %s' % (len(OUTERS), what), 300, via=via, inners=[INNER_KINDS.index('tuple')])
        else:
            for oi, outer in enumerate(OUTERS):
                add('finalize_via[%s,%s]' % (what, outer), 'finalize_via', 'outer %s, child symbolic over %d kinds, '
                    '0..1 children, t2l, s2l symbolic; through %s' % (outer, len(quick_inner), what), 600,
                    via=via, outers=[oi], inners=quick_inner)
    if q:
        for outer in [k for i, k in enumerate(OUTERS) if (i + seed) % 10 == 0]:
            add('finalize_deep[%s]' % outer, 'finalize_deep',
                'depth 3: %s [ mid [ inner [leaves] ], leaf ]; mid symbolic over %r, inner over leaf-int,tuple,frozenset,generator; t2l, s2l symbolic' % (outer, REP_KINDS),
                300, outer=outer, mids=REP, inners=[INNER_KINDS.index(k) for k in ('leaf-int', 'tuple', 'frozenset', 'generator')],
                slen=slen)
    else:
        for outer in OUTERS:
            deep_inner = ['leaf-int', 'tuple', 'frozenset', 'generator', 'itemsview']
            for mi, mk in enumerate(INNER_KINDS):
                if mk in LEAF_KINDS or mk == 'range':
                    continue
                if not any(deep_ok(outer, mk, ik) for ik in deep_inner):
                    continue                  # no such Python value (unhashable mid in a hashed position)
                add('finalize_deep[%s,%s]' % (outer, mk), 'finalize_deep',
                    'depth 3: %s [ %s [ inner [leaves] ], leaf ]; inner symbolic over %r; t2l, s2l symbolic' % (outer, mk, deep_inner),
                    600, outer=outer, mids=[mi], inners=[INNER_KINDS.index(k) for k in deep_inner], slen=1)
    if q:
        mids = [i for i, k in enumerate(DOC_KINDS) if k not in ('leaf-none', 'leaf-bool', 'leaf-float')]
        inners = [DOC_KINDS.index(k) for k in ('dict', 'tuple', 'set', 'leaf-int')]
        for outer in DOC_OUTER:
            add('roundtrip[%s,evaluate]' % outer, 'roundtrip',
                'host document %s [ mid [ inner [leaves] ], leaf ]; mid symbolic over %s, inner over dict,tuple,set,leaf; symbolic '
                'int leaves; t2l, s2l symbolic; via engine("$").evaluate(data=doc)' % (outer, ','.join(DOC_KINDS[i] for i in mids)),
                200, outer=outer, via=0, mids=mids, inners=inners, slen=0)
            add('roundtrip[%s,interface]' % outer, 'roundtrip',
                'host document %s [ mid [ leaf.. ], leaf ]; mid symbolic over %s; t2l, s2l symbolic; via YaqlInterface("$1", doc)'
                % (outer, ','.join(DOC_KINDS[i] for i in mids)), 200, outer=outer, via=1, mids=mids,
                inners=[DOC_KINDS.index('leaf-int')], slen=0)
    else:
        every = list(range(len(DOC_KINDS)))
        for outer in DOC_OUTER:
            for via, what in ((0, 'engine("$").evaluate(data=doc)'), (1, 'YaqlInterface("$1", doc)')):
                for mi, mk in enumerate(DOC_KINDS):
                    if not any(doc_ok(outer, mk, ik) for ik in DOC_KINDS):
                        continue              # a set cannot hold a dict/list/set
                    add('roundtrip[%s,%s,%s]' % (outer, mk, 'evaluate' if via == 0 else 'interface'), 'roundtrip',
                        'host document %s [ %s [ inner [leaves] ], leaf ]; inner symbolic over %s; symbolic int/str(len<=1) leaves; '
                        't2l, s2l symbolic; via %s' % (outer, mk, ','.join(DOC_KINDS), what),
                        600, outer=outer, via=via, mids=[mi], inners=every, slen=slen)
    add('roundtrip_history', 'roundtrip_history', 'one parsed statement (and yaql.eval) evaluated before and after the host mutates '
        'its document in place: %s; symbolic int leaves; t2l, s2l symbolic' % ', '.join(MUTATIONS), 300 if q else 600)
    for how, what in enumerate(('engine(expr, options=...)', 'engine.copy(options)', 'two chained engine.copy')):
        add('option_levels[%s]' % what, 'option_levels', 'conversion options absent/on/off (symbolic) at engine creation '
            'and again per statement through %s: the later level wins, defaults tuples->lists on, sets->lists off; '
            '%d value shapes' % (what, 2 if q else 4), 300 if q else 600, how=how, nshapes=2 if q else 4)
    add('bare_history', 'bare_history', 'a context without finaliser is evaluated on once, then becomes the root of '
        'yaql.create_context(context=...) / the linked part of a LinkedContext over a standard context: a value of 4 shapes '
        'is finalised there per the options (t2l, s2l symbolic)', 300 if q else 600)
    add('option_snapshot', 'option_snapshot', 'the dict given to factory.create(options=...) is changed by the host after the '
        'engine was created (each conversion option absent/on/off before; cleared, all on or all off after; symbolic): finalisation follows the '
        'creation-time values', 300 if q else 600)
    add('roundtrip_json', 'roundtrip_json', 'six JSON document skeletons with symbolic int/str(len<=3)/float/bool leaves, '
        'library-default engine, both entry points', 120 if q else 400)
    for key in sorted(PROBE_SHAPES):
        if key in KNOWN:
            out.append({'name': 'probe[%s]' % key.split('/')[1], 'func': 'probe_class', 'timeout': 60, 'kind': 'probe',
                        'param': {'probe_key': key}, 'bounds': 'shapes %r, options symbolic within the class' % (PROBE_SHAPES[key],)})
    return out


# ------------------------------------------------------------------ validation of the reference on concrete inputs
def validate():
    """the reference canonical form against hand-written expectations (independent of the live converter), the
    known-class predicate, and a few results that the repo's own tests pin down"""
    bad = []
    FD = utils.FrozenDict
    table = [
        (('tuple', [('leaf', 1), ('list', [('leaf', 'a')])]), True, False, [1, ['a']]),
        (('tuple', [('leaf', 1), ('list', [('leaf', 'a')])]), False, False, (1, ['a'])),
        (('frozenset', [('leaf', 1), ('leaf', 2)]), True, True, [2, 1]),
        (('frozenset', [('leaf', 1), ('leaf', 2)]), True, False, {1, 2}),
        (('frozendict', [('tuple', [('leaf', 1)]), ('generator', [('leaf', 2)])]), True, False, {'f0': [1], 'f1': [2]}),
        (('frozendict', [('tuple', [('leaf', 1)]), ('generator', [('leaf', 2)])]), False, True, {'f0': (1,), 'f1': [2]}),
        (('frozendict-keys', [('tuple', [('leaf', 1)])]), False, False, {(1,): 0}),
        (('itemsview', [('leaf', 5)]), True, False, [['f0', 5]]),
        (('itemsview', [('leaf', 5)]), False, False, {('f0', 5)}),
        (('itemsview', [('leaf', 5)]), False, False, [('f0', 5)]),
        (('keysview', [('leaf', 'k')]), True, True, ['k']),
        (('valuesview', [('frozenset', [('leaf', 1)])]), True, False, [{1}]),
        (('ordering', [('leaf', 1), ('leaf', 2)]), True, False, [1, 2]),
        (('range', 3), True, False, [0, 1, 2]),
        (('list', [('frozendict', [('leaf', None)])]), True, False, [{'f0': None}]),
    ]
    for spec, t2l, s2l, want in table:
        if not (census_ok(want, t2l, s2l) and match(want, expected(spec), t2l, s2l)):
            bad.append('reference rejects the hand-written canonical form %r of %s (t2l=%s s2l=%s)' % (want, spec_text(spec), t2l, s2l))
    for spec, t2l, s2l, wrong in [(('tuple', [('leaf', 1)]), True, False, (1,)), (('frozenset', [('leaf', 1)]), True, True, {1}),
                                  (('generator', [('leaf', 1)]), False, False, (1,)), (('frozendict', [('leaf', 1)]), True, False, FD({'f0': 1})),
                                  (('list', [('tuple', [('leaf', 1)])]), True, False, [(1,)])]:
        if census_ok(wrong, t2l, s2l) and match(wrong, expected(spec), t2l, s2l):
            bad.append('reference accepts the non-canonical %r for %s (t2l=%s s2l=%s)' % (wrong, spec_text(spec), t2l, s2l))
    for spec, t2l, s2l, want in [(('frozenset', [('tuple', [('leaf', 1)])]), True, False, ['C10/set-element-collection']),
                                 (('frozenset', [('tuple', [('leaf', 1)])]), False, False, []),
                                 (('frozendict-keys', [('tuple', [('leaf', 1)])]), True, True, ['C10/dict-key-collection']),
                                 (('itemsview', [('leaf', 1)]), True, False, ['C10/mapping-view-unhashable']),
                                 (('itemsview', [('leaf', 1)]), True, True, [])]:
        if problems(expected(spec), t2l, s2l) != want:
            bad.append('class predicate wrong for %s (t2l=%s s2l=%s): %r' % (spec_text(spec), t2l, s2l, problems(expected(spec), t2l, s2l)))
    # results pinned down by the repo's own tests (yaql/tests/test_queries.py, test_collections.py)
    for text, want in [('[1, 2].select($ + 1)', [2, 3]), ('dict(a => 1).keys().toList()', ['a']), ('{a => [1, 2]}', {'a': [1, 2]}),
                       ('[1, [2, 3]].flatten()', [1, 2, 3])]:
        try:
            got = yq.ev(text)
        except Exception as e:
            got = e
        if got != want:
            bad.append('%s -> %r, expected %r' % (text, got, want))
    return bad[:5]


# ------------------------------------------------------------------ replay
YAQL_TEXT = {      # public-API expressions that produce the shapes of the probe / typical counterexamples
    ('itemsview', 'leaf-int'): '{a => 1}.items()', ('frozenset', 'tuple'): 'set([1, 2])',
    ('frozendict-keys', 'tuple'): '{[1, 2] => 3}', ('frozendict-keys', 'frozendict'): '{{a => b} => 1}',
    ('keysview', 'tuple'): '{[1, 2] => 3}.keys()'}


def replay(cond, args):
    import props.c10 as me
    f, p = cond['func'], cond.get('param') or {}
    vals = dict(args)
    fn = getattr(me, f)
    try:
        ok = fn(**vals)
        err = None
    except Exception as e:
        ok, err = False, e
    if ok:
        return {'reproduced': False}
    t2l, s2l = vals.get('t2l', True), vals.get('s2l', False)
    if f == 'finalize_shape':
        spec = shape_spec(p['outer'], INNER_KINDS[vals['inner']], vals['n'], vals['a'], vals['b'])
        node = expected(spec)
    elif f == 'finalize_via':
        spec = shape_spec(OUTERS[vals['outer']], INNER_KINDS[vals['inner']], vals['n'], 3, 'v')
        node = expected(spec)
    elif f == 'finalize_deep':
        spec = deep_spec(p['outer'], INNER_KINDS[vals['mid']], INNER_KINDS[vals['inner']], vals['a'], vals['b'])
        node = expected(spec)
    elif f == 'roundtrip':
        spec = doc_spec(p['outer'], DOC_KINDS[vals['mid']], DOC_KINDS[vals['inner']], vals['a'], vals['b'])
        node = input_expected(spec)
    elif f == 'probe_class':
        outer, ik = PROBE_SHAPES[p['probe_key']][vals['i']]
        spec = shape_spec(outer, ik, 1, 0, '')
        node = expected(spec)
    elif f == 'bare_history':
        outer, inner = LEVEL_VALUES[vals['shape']]
        spec = shape_spec(outer, inner, 1, 10, 'v')
        try:
            got = repr(run_bare_history(spec, t2l, s2l, vals['how']))
        except Exception as e:
            got = 'raises %r' % e
        return {'reproduced': True, 'key': 'C10/bare_history',
                'what': 'a context without finaliser evaluated on once and then used as %s, convertTuplesToLists=%s '
                        'convertSetsToLists=%s, value %s: result %s; expected %r'
                        % (['the root of yaql.create_context(context=...)', 'the linked part of a LinkedContext'][vals['how']],
                           t2l, s2l, spec_text(spec), got, expected(spec))}
    elif f == 'option_snapshot':
        et, es, mt, ms = [TRI[vals[k]][0] for k in ('et', 'es', 'mt', 'ms')]
        outer, inner = LEVEL_VALUES[vals['shape']]
        spec = shape_spec(outer, inner, 1, 10, 'v')
        t2l, s2l = effective(None, et, True), effective(None, es, False)
        try:
            got = repr(run_snapshot(et, es, mt, ms, build(spec)))
        except Exception as e:
            got = 'raises %r' % e
        return {'reproduced': True, 'key': 'C10/option_snapshot',
                'what': 'engine created with options dict %r, which the host then changed to %r; value %s: result %s; the '
                        'engine was created with convertTuplesToLists=%s convertSetsToLists=%s, expected %r'
                        % (level_opts(et, es), level_opts(mt, ms), spec_text(spec), got, t2l, s2l, expected(spec))}
    elif f == 'option_levels':
        et, es, st_, ss = [TRI[vals[k]][0] for k in ('et', 'es', 'st_', 'ss')]
        outer, inner = LEVEL_VALUES[vals['shape']]
        spec = shape_spec(outer, inner, 1, 10, 'v')
        t2l, s2l = effective(st_, et, True), effective(ss, es, False)
        try:
            got = repr(run_levels(et, es, st_, ss, p.get('how', 0), build(spec)))
        except Exception as e:
            got = 'raises %r' % e
        return {'reproduced': True, 'key': 'C10/option_levels',
                'what': 'engine created with %r, statement options %r (%s), value %s: result %s; effective options are '
                        'convertTuplesToLists=%s convertSetsToLists=%s, expected %r'
                        % (level_opts(et, es), level_opts(st_, ss),
                           ['engine(expr, options=)', 'engine.copy(options)', 'two chained copies'][p.get('how', 0)],
                           spec_text(spec), got, t2l, s2l, expected(spec))}
    elif f == 'roundtrip_history':
        doc = {'servers': [1, 2]}
        st = engine_with(t2l, s2l)('$')
        first = st.evaluate(data=doc, context=yaql.create_context())
        doc['servers'].append(3)
        second = st.evaluate(data=doc, context=yaql.create_context())
        return {'reproduced': True, 'key': 'C10/roundtrip_history',
                'what': 'one parsed `$` evaluated on %r gives %r; after the host appended 3 to the list in place the same statement '
                        'gives %r (mutation %s of the harness: %r)' % ({'servers': [1, 2]}, first, second,
                                                                       MUTATIONS[vals['mut']], vals)}
    else:
        return {'reproduced': True, 'key': 'C10/' + f, 'what': '%s fails for %r (%r)' % (cond['name'], vals, err)}
    probs = problems(node, t2l, s2l)
    try:
        shown = repr(build(spec))
    except Exception as e:
        shown = '<%r>' % e
    try:
        if f == 'roundtrip':
            got = repr(engine_with(t2l, s2l)('$').evaluate(data=build(spec), context=yaql.create_context()))
        else:
            got = repr(run_finalize(build(spec), engine_with(t2l, s2l), p.get('via', vals.get('via', 0))))
    except Exception as e:
        got = 'raises %r' % e
    text = YAQL_TEXT.get((spec[0], spec[1][0][0] if spec[1] and spec[1][0][0] != 'leaf' else 'leaf-int'))
    if text and probs:
        try:
            tgot = repr(engine_with(t2l, s2l)(text).evaluate(context=yaql.create_context()))
        except Exception as e:
            tgot = 'raises %r' % e
        got += '; same shape from the expression %s: %s' % (text, tgot)
    return {'reproduced': True, 'key': probs[0] if probs else 'C10/%s/%s' % (f, spec[0]),
            'what': 'convertTuplesToLists=%s convertSetsToLists=%s, value %s (%s): finalisation %s; expected plain data %r'
                    % (t2l, s2l, shown, spec_text(spec), got, node)}


def spec_text(spec):
    if spec[0] == 'leaf':
        return repr(spec[1])
    if spec[0] == 'range':
        return 'range(%d)' % spec[1]
    return '%s[%s]' % (spec[0], ', '.join(spec_text(c) for c in spec[1]))
