"""C15 - scalar operators form a consistent arithmetic and ordering.

Real code run symbolically: the full yaql dispatch of `$a OP $b` / `OP $a` (runner.call, choose_overload,
map_args/get_delegate, yaqltypes checks, the payloads of math/common/strings/boolean/collections).
"""
from typing import Optional, Union

from vf import h as H
from vf import yq

ID = 'C15'
Scalar = Union[None, bool, int, float, str]
BINOPS = ['+', '-', '*', '/', 'mod', '<', '<=', '>', '>=', '=', '!=']
OP = H.P('op', '+')
KNOWN = set(H.P('known', ()))

FUNCTIONS_ENCODED = [
    'yaql.language.runner.call/choose_overload', 'yaql.language.specs.FunctionDefinition.map_args/get_delegate',
    'yaql.language.yaqltypes.Number/String/Integer/PythonType.check', 'yaql.standard_library.math (operators)',
    'yaql.standard_library.common (null-aware ordering, =, !=)', 'yaql.standard_library.strings (ordering, +, *)',
    'yaql.standard_library.boolean (not, bool)', 'yaql.standard_library.collections (repetition overloads)']
BOUNDS = {'quick': 'a, b: Union[None,bool,int,float,str]; ints unbounded; floats as reals (CrossHair default); '
                   'str len <= 2; one operator per condition',
          'thorough': 'same with str len <= 3 and longer per-condition budgets'}
OUTSIDE = ['NaN/inf in ordering laws', 'date/timespan and set overloads of the same operators (C20, C13)',
           'IEEE rounding of float arithmetic (floats are modelled as reals; model and payload perform the same '
           'Python operation)']
ASSUMPTIONS = ['Python int/float/str operators are the reference for same-kind arithmetic and ordering',
               'div/mod identity follows from the per-operator equalities plus a z3 lemma over Int (floor semantics)']
EXPLANATION = ('Bounded symbolic execution (CrossHair+z3) of the real operator dispatch with both operands symbolic over '
               'all five scalar kinds, compared per path with a reference model written from the property text; plus '
               'relational laws with no model; plus one z3 lemma for the non-linear div/mod identity.')


def isnum(v):
    return isinstance(v, (int, float)) and not isinstance(v, bool)


def isint(v):
    return isinstance(v, int) and not isinstance(v, bool)


def ref_binop(op, a, b):
    """reference from the property text / language reference"""
    if op in ('=', '!='):
        r = (a == b)
        return ('ok', r if op == '=' else not r)
    if op in ('<', '<=', '>', '>='):
        if a is None and b is None:
            return ('ok', op in ('<=', '>='))
        if b is None:
            return ('ok', op in ('>', '>='))
        if a is None:
            return ('ok', op in ('<', '<='))
        if (isnum(a) and isnum(b)) or (isinstance(a, str) and isinstance(b, str)):
            if op == '<':
                return ('ok', a < b)
            if op == '<=':
                return ('ok', a <= b)
            if op == '>':
                return ('ok', a > b)
            return ('ok', a >= b)
        return ('nomatch',)
    if op == '+':
        if isnum(a) and isnum(b):
            return ('ok', a + b)
        if isinstance(a, str) and isinstance(b, str):
            return ('ok', a + b)
        return ('nomatch',)
    if op == '-':
        if isnum(a) and isnum(b):
            return ('ok', a - b)
        return ('nomatch',)
    if op == '*':
        if isnum(a) and isnum(b):
            return ('ok', a * b)
        if isinstance(a, str) and isint(b):
            return ('ok', a * b)
        if isint(a) and isinstance(b, str):
            return ('ok', a * b)
        return ('nomatch',)
    if op == '/':
        if isnum(a) and isnum(b):
            if b == 0:
                return ('err', 'ZeroDivisionError')
            if isint(a) and isint(b):
                return ('ok', a // b)
            return ('ok', a / b)
        return ('nomatch',)
    if op == 'mod':
        if isnum(a) and isnum(b):
            if b == 0:
                return ('err', 'ZeroDivisionError')
            return ('ok', a % b)
        return ('nomatch',)
    raise ValueError(op)


def finding_key(op, a, b):
    """class of a listed finding this assignment falls into (or None)"""
    if op == '*' and ((isinstance(a, bool) and isinstance(b, str)) or (isinstance(b, bool) and isinstance(a, str))):
        return 'C15/bool-as-repetition-count'
    return None


def outcomes_agree(got, exp):
    if got[0] != exp[0]:
        return False
    if got[0] == 'ok':
        return yq.same(got[1], exp[1])
    return got == exp


def small(v, n):
    ib = H.P('ibound')
    if ib is not None and isint(v) and not (-ib <= v <= ib):
        return False
    return not isinstance(v, str) or len(v) <= n


def part_ok(a, b):
    part = H.P('part')
    if part == 'num':
        return isnum(a) and isnum(b)
    if part == 'int':
        return isint(a) and isint(b)
    if part == 'float':
        return isnum(a) and isnum(b) and (isinstance(a, float) or isinstance(b, float))
    if part == 'nonnum':
        return not (isnum(a) and isnum(b))
    return True


def binop(a: Scalar, b: Scalar) -> bool:
    """
    pre: part_ok(a, b)
    pre: small(a, H.P('slen', 2)) and small(b, H.P('slen', 2))
    pre: finding_key(OP, a, b) not in KNOWN
    pre: H.fresh(a, b)
    post: _
    """
    got = yq.outcome('$a %s $b' % OP, a=a, b=b)
    exp = ref_binop(OP, a, b)
    return H.done(outcomes_agree(got, exp))


def binop_fi(a: float, b: int, swap: bool) -> bool:
    """
    pre: H.fresh(a, b, swap)
    post: _
    """
    x, y = (b, a) if swap else (a, b)
    got = yq.outcome('$a %s $b' % OP, a=x, b=y)
    exp = ref_binop(OP, x, y)
    return H.done(outcomes_agree(got, exp))


def binop_ff(a: float, b: float) -> bool:
    """
    pre: H.fresh(a, b)
    post: _
    """
    got = yq.outcome('$a %s $b' % OP, a=a, b=b)
    exp = ref_binop(OP, a, b)
    return H.done(outcomes_agree(got, exp))


CORPUS = [0, -0.0, 1, -1, 2 ** 63 - 1, 2 ** 63 + 1, 10 ** 40, 5e-324, 1.7976931348623157e308, 1.5, -2.5, 3,
          0.30000000000000004, 0.3, 1.0000000001, 10 ** 9, 10 ** 9 + 0.5, 2.0 ** 63]


CBOX = [(v,) for v in CORPUS]


def binop_sel(i: int, j: int) -> bool:
    """
    pre: 0 <= i < len(CORPUS) and 0 <= j < len(CORPUS)
    post: _
    """
    a, b = CBOX[i][0], CBOX[j][0]        # small table of tuples indexed under tracing: one path per pair
    with H.NoTracing():
        got = yq.outcome('$a %s $b' % OP, a=a, b=b)
        try:
            exp = ref_binop(OP, a, b)
        except OverflowError:
            exp = ('err', 'OverflowError')
        ok = outcomes_agree(got, exp)
    return H.done(ok)


# strings whose ordering/equality differ under normalisation, case folding or locale collation (code-point order is the reference)
SCORPUS = ['', 'a', 'ab', 'b', 'B', '\u00e9', 'e\u0301', 'f', '\u00df', 'ss', '\ufb01', 'fi', '\uff21', 'A', 'z', '\U0001f600']
SBOX = [(v,) for v in SCORPUS]


def binop_sel_str(i: int, j: int) -> bool:
    """
    pre: 0 <= i < len(SCORPUS) and 0 <= j < len(SCORPUS)
    post: _
    """
    a, b = SBOX[i][0], SBOX[j][0]
    with H.NoTracing():
        ok = outcomes_agree(yq.outcome('$a %s $b' % OP, a=a, b=b), ref_binop(OP, a, b))
    return H.done(ok)


# values that are equal across kinds (0 == 0.0 == False, 1 == 1.0 == True): an operand accepted or rejected earlier must not
# decide the fate of a later, equal operand of another kind (the evaluation history of the process is part of the input)
HVALS = [0, 0.0, -0.0, False, 1, 1.0, True, 2, 2.0, None, '', '1']
HBOX = [(v,) for v in HVALS]
HTEXTS = ['$a + 2', '2 - $a', '$a * 3', '- $a', '$a < 5', "'ab' * $a", '3 / ($a + 7)']


def _app_context():
    """a host context that overloads the scalar operators its own way (legitimate: overloads live in contexts)"""
    from yaql.language import specs, yaqltypes
    ctx = yq.ROOT.create_child_context()

    @specs.parameter('left', yaqltypes.String())
    @specs.parameter('right', yaqltypes.Number())
    @specs.name('#operator_+')
    def str_plus_num(left, right):
        return left + str(right)

    @specs.parameter('left', yaqltypes.Number())
    @specs.parameter('right', yaqltypes.Number())
    @specs.name('#operator_<')
    def reversed_lt(left, right):
        return left > right

    @specs.parameter('op', bool)
    @specs.name('#unary_operator_-')
    def neg_bool(op):
        return not op
    child = ctx.create_child_context()
    for f in (str_plus_num, reversed_lt, neg_bool):
        child.register_function(f)
    return child


APP_CTX = _app_context() if not H.P('driver') else None


def history_pair(i: int, j: int) -> bool:
    """
    pre: 0 <= i < len(HVALS) and 0 <= j < len(HVALS)
    post: _
    """
    x, y = HBOX[i][0], HBOX[j][0]
    with H.NoTracing():
        ok = True
        for text in HTEXTS:          # the same parsed statements were used before by an application with its own overloads
            yq.outcome(text, ctx=APP_CTX, a=x)
        for v in (x, y, x):
            for text in HTEXTS:
                ok = ok and outcomes_agree(yq.outcome(text, a=v), ref_text(text, v))
    return H.done(ok)


def ref_text(text, v):
    def chain(*steps):
        val = None
        for st in steps:
            r = st(val)
            if r[0] != 'ok':
                return r
            val = r[1]
        return ('ok', val)
    if text == '$a + 2':
        return ref_binop('+', v, 2)
    if text == '2 - $a':
        return ref_binop('-', 2, v)
    if text == '$a * 3':
        return ref_binop('*', v, 3)
    if text == '- $a':
        return ('ok', -v) if isnum(v) else ('nomatch',)
    if text == '$a < 5':
        return ref_binop('<', v, 5)
    if text == "'ab' * $a":
        return ref_binop('*', 'ab', v)
    if text == '3 / ($a + 7)':
        return chain(lambda _: ref_binop('+', v, 7), lambda s: ref_binop('/', 3, s))
    raise ValueError(text)


def probe_bool_repetition(a: bool, b: str, swap: bool) -> bool:
    """
    pre: len(b) <= 2
    post: _
    """
    x, y = (b, a) if swap else (a, b)
    got = yq.outcome('$a * $b', a=x, b=y)
    return H.done(got == ('nomatch',))


def unop(a: Scalar) -> bool:
    """
    pre: small(a, 2)
    pre: H.fresh(a)
    post: _
    """
    op = H.P('op')
    got = yq.outcome('%s $a' % op, a=a)
    if op == 'not':
        exp = ('ok', not a)
    elif not isnum(a):
        exp = ('nomatch',)
    elif op == '-':
        exp = ('ok', -a)
    else:
        exp = ('ok', +a)
    return H.done(outcomes_agree(got, exp))


def truthiness(a: Scalar) -> bool:
    """
    pre: small(a, 2)
    post: _
    """
    got = yq.outcome('bool($a)', a=a)
    return H.done(got == ('ok', bool(a)) and type(got[1]) is bool)


def int_division(a: int, b: int) -> bool:
    """
    pre: b != 0
    post: _
    """
    q = yq.ev('$a / $b', a=a, b=b)
    r = yq.ev('$a mod $b', a=a, b=b)
    return H.done(q == a // b and r == a % b and isinstance(q, int) and isinstance(r, int))


def value(o):
    return o[1] if o[0] == 'ok' else None


def law_antisym(a: Scalar, b: Scalar) -> bool:
    """
    pre: part_ok(a, b)
    pre: small(a, 2) and small(b, 2)
    post: _
    """
    # a > b  <=>  b < a ;  a >= b <=> b <= a   (same outcome kind as well)
    g1 = yq.outcome('$a > $b', a=a, b=b)
    g2 = yq.outcome('$b < $a', a=a, b=b)
    g3 = yq.outcome('$a >= $b', a=a, b=b)
    g4 = yq.outcome('$b <= $a', a=a, b=b)
    return H.done(g1 == g2 and g3 == g4)


def law_trichotomy(a: Scalar, b: Scalar) -> bool:
    """
    pre: part_ok(a, b)
    pre: small(a, 2) and small(b, 2)
    pre: not isinstance(a, float) or a == a
    pre: not isinstance(b, float) or b == b
    post: _
    """
    lt = yq.outcome('$a < $b', a=a, b=b)
    gt = yq.outcome('$a > $b', a=a, b=b)
    le = yq.outcome('$a <= $b', a=a, b=b)
    eq = yq.outcome('$a = $b', a=a, b=b)
    ne = yq.outcome('$a != $b', a=a, b=b)
    ok = eq[0] == 'ok' and ne[0] == 'ok' and eq[1] == (not ne[1])
    if lt[0] == 'ok':
        same_kind = (isnum(a) and isnum(b)) or (isinstance(a, str) and isinstance(b, str)) or a is None or b is None
        ok = ok and same_kind and gt[0] == 'ok' and le[0] == 'ok'
        if ok:
            ok = (int(lt[1]) + int(gt[1]) + int(eq[1]) == 1) and (le[1] == (lt[1] or eq[1]))
    else:
        ok = ok and lt == gt == le == ('nomatch',)
    return H.done(ok)


def law_null_lowest(a: Scalar) -> bool:
    """
    pre: small(a, 2) and a is not None
    post: _
    """
    return H.done(yq.outcome('null < $a', a=a) == ('ok', True) and yq.outcome('$a > null', a=a) == ('ok', True)
                  and yq.outcome('$a < null', a=a) == ('ok', False) and yq.outcome('null >= $a', a=a) == ('ok', False))


def law_bool_never_number(a: bool, b: Scalar, swap: bool) -> bool:
    """
    pre: small(b, 2) and b is not None
    pre: finding_key(OP, a, b) not in KNOWN
    post: _
    """
    x, y = (b, a) if swap else (a, b)
    return H.done(yq.outcome('$a %s $b' % OP, a=x, b=y) == ('nomatch',))


def _iface_outcome(text, *args, **kwargs):
    from yaql import yaql_interface
    from yaql.language import exceptions as yexc
    try:
        return ('ok', yaql_interface.YaqlInterface(yq.ROOT.create_child_context(), yq.ENG)(text, *args, **kwargs))
    except (yexc.NoMatchingFunctionException, yexc.NoMatchingMethodException):
        return ('nomatch',)
    except Exception as e:
        return ('err', type(e).__name__)


def law_bool_entries(a: bool, b: Scalar, swap: bool) -> bool:
    """
    pre: small(b, 2) and b is not None
    pre: finding_key(OP, a, b) not in KNOWN
    post: _
    """
    # the same law at the other ways a boolean gets into an arithmetic or ordering operator: handed in through the
    # host-facing YaqlInterface (positionally and by keyword), written as a literal, written as a signed literal
    lit = 'true' if a else 'false'
    x, y = (b, a) if swap else (a, b)
    ok = _iface_outcome('$1 %s $2' % OP, x, y) == ('nomatch',)
    ok = ok and _iface_outcome('$p %s $q' % OP, p=x, q=y) == ('nomatch',)
    ok = ok and yq.outcome(('$b %s %s' if swap else '%s %s $b') % ((OP, lit) if swap else (lit, OP)), b=b) == ('nomatch',)
    for sign in ('-', '+', '- -'):
        signed = '%s%s' % (sign, lit)
        ok = ok and yq.outcome(signed) == ('nomatch',)
        ok = ok and yq.outcome(('$b %s %s' if swap else '%s %s $b') % ((OP, signed) if swap else (signed, OP)), b=b) == ('nomatch',)
    return H.done(ok)


def conditions(tier, seed):
    t = 100 if tier == 'quick' else 400
    slen = 2 if tier == 'quick' else 3
    out = []
    for op in BINOPS:
        for part in ('int', 'nonnum'):
            out.append({'name': 'binop[%s,%s]' % (op, part), 'func': 'binop', 'timeout': t,
                        'param': {'op': op, 'slen': slen, 'part': part,
                                  'ibound': 3 if (op == '*' and part == 'nonnum') else None},
                        'bounds': 'a,b in None|bool|int|float|str(len<=%d), %s; op %s' % (
                            slen, 'both ints (unbounded)' if part == 'int' else 'not both numbers', op)})
        if op not in ('*', '/', 'mod'):
            out.append({'name': 'binop_ff[%s]' % op, 'func': 'binop_ff', 'timeout': t, 'param': {'op': op},
                        'bounds': 'a,b symbolic floats (reals + nan/inf cases of CrossHair); op %s' % op})
        out.append({'name': 'binop_sel[%s]' % op, 'func': 'binop_sel', 'timeout': 200, 'param': {'op': op},
                    'bounds': 'a,b selected by symbolic indices from the %d-value boundary corpus (ints and floats); '
                              'each path is one concrete evaluation' % len(CORPUS)})
    for op in ('<', '<=', '>', '>=', '=', '!=', '+'):
        out.append({'name': 'binop_sel_str[%s]' % op, 'func': 'binop_sel_str', 'timeout': 200, 'param': {'op': op},
                    'bounds': 'a,b selected by symbolic indices from %d strings (empty, multi-code-point, combining vs precomposed, '
                              'case pairs, ligatures, astral); code-point order is the reference' % len(SCORPUS)})
    out.append({'name': 'history_pair', 'func': 'history_pair', 'timeout': 200,
                'bounds': 'ordered pairs of %d operands that are equal across kinds (0, 0.0, -0.0, false, 1, 1.0, true ...) evaluated '
                          'one after the other in one process under %d operator expressions (selectors; each path one concrete history)' % (len(HVALS), len(HTEXTS))})
    for op in ['+', '-', 'not']:
        out.append({'name': 'unop[%s]' % op, 'func': 'unop', 'timeout': 60, 'param': {'op': op},
                    'bounds': 'a in None|bool|int|float|str(len<=2)'})
    out.append({'name': 'truthiness', 'func': 'truthiness', 'timeout': 60, 'bounds': 'a scalar, str len<=2'})
    out.append({'name': 'int_division', 'func': 'int_division', 'timeout': 60, 'bounds': 'a,b unbounded ints, b != 0'})
    for part in ('int', 'nonnum'):
        out.append({'name': 'law_antisym[%s]' % part, 'func': 'law_antisym', 'timeout': 3 * t, 'param': {'part': part},
                    'bounds': 'a,b scalar, part=%s' % part})
        out.append({'name': 'law_trichotomy[%s]' % part, 'func': 'law_trichotomy', 'timeout': 3 * t, 'param': {'part': part},
                    'bounds': 'a,b scalar, part=%s, NaN excluded' % part})
    out.append({'name': 'law_null_lowest', 'func': 'law_null_lowest', 'timeout': 60, 'bounds': 'a scalar non-null'})
    for op in ['+', '-', '*', '/', 'mod', '<', '<=', '>', '>=']:
        out.append({'name': 'bool_never_number[%s]' % op, 'func': 'law_bool_never_number', 'timeout': 60,
                    'param': {'op': op}, 'bounds': 'a bool, b non-null scalar, both operand orders'})
    for op in ['+', '*', '<', '-', '/', 'mod', '>=']:
        out.append({'name': 'bool_entries[%s]' % op, 'func': 'law_bool_entries', 'timeout': 100,
                    'param': {'op': op}, 'bounds': 'a bool, b non-null scalar, both operand orders; the boolean arrives through '
                                                   'YaqlInterface (positional, keyword), as a literal and as a signed literal'})
    if 'C15/bool-as-repetition-count' in KNOWN:
        out.append({'name': 'probe[bool-as-repetition-count]', 'func': 'probe_bool_repetition', 'timeout': 60,
                    'kind': 'probe', 'param': {'probe_key': 'C15/bool-as-repetition-count'},
                    'bounds': 'a bool, b str len<=2'})
    return out


def lemmas(tier):
    """z3 and cvc5 on the non-linear identity a == (a//b)*b + a%b with Python floor semantics (CrossHair answers
    `unknown` on it); the per-operator equalities yaql `/` == `//`, yaql `mod` == `%` are condition int_division."""
    from vf import smt
    q = """(set-logic QF_NIA)
(declare-const a Int)(declare-const b Int)
(define-fun q () Int (ite (> b 0) (div a b) (div (- a) (- b))))
(define-fun r () Int (ite (> b 0) (mod a b) (- (mod (- a) (- b)))))
(assert (not (= b 0)))
(assert (not (and (= a (+ (* q b) r)) (ite (> b 0) (and (>= r 0) (< r b)) (and (<= r 0) (> r b))))))
(check-sat)
"""
    r = smt.check_smt2(q, timeout=120)
    return [{'name': 'divmod-identity', 'query': 'exists a, b != 0: not (a == floordiv(a,b)*b + pymod(a,b) and pymod in range of b)',
             'result': r['result'], 'per_solver': r['per_solver'], 'expected': 'unsat', 'ok': r['result'] == 'unsat',
             'time_s': r['time_s']}]


def validate():
    """reference model vs the real engine on a concrete boundary grid (model must not contradict yaql's own tests)"""
    bad = []
    vals = [None, 0, 1, -1, 2 ** 63, 10 ** 40, 1.5, -0.0, '', 'a', 'ab', 'é']
    for op in BINOPS:
        for x in vals:
            for y in vals:
                got = yq.outcome('$a %s $b' % op, a=x, b=y)
                try:
                    exp = ref_binop(op, x, y)
                except Exception as e:
                    exp = ('err', type(e).__name__)
                if not outcomes_agree(got, exp):
                    bad.append('model disagrees with yaql on %r %s %r: yaql %r model %r' % (x, op, y, got, exp))
    return bad[:5]


def replay(cond, args):
    """generic: run the same comparison on plain CPython through the public API"""
    import props.c15 as me
    fn = getattr(me, cond['func'])
    vals = dict(args)
    try:
        ok = fn(**vals)
    except Exception as e:
        return {'reproduced': True, 'key': 'C15/exception/%s' % type(e).__name__,
                'what': '%s%r raised %r' % (cond['name'], vals, e)}
    if ok:
        return {'reproduced': False}
    op = (cond.get('param') or {}).get('op', '')
    a, b = vals.get('a'), vals.get('b')
    if cond['func'] in ('probe_bool_repetition', 'law_bool_never_number', 'law_bool_entries'):
        if vals.get('swap'):
            a, b = b, a
    key = finding_key(op or '*', a, b) if cond['func'] in ('binop', 'probe_bool_repetition', 'law_bool_never_number') else None
    desc = ''
    if cond['func'] == 'binop':
        desc = '$a %s $b with a=%r b=%r: yaql %r, reference %r' % (op, a, b, yq.outcome('$a %s $b' % op, a=a, b=b), ref_binop(op, a, b))
    elif cond['func'] == 'binop_sel_str':
        a, b = SCORPUS[vals['i']], SCORPUS[vals['j']]
        desc = '$a %s $b with a=%r b=%r: yaql %r, reference (code-point order) %r' % (op, a, b, yq.outcome('$a %s $b' % op, a=a, b=b), ref_binop(op, a, b))
    elif cond['func'] == 'binop_sel':
        a, b = CORPUS[vals['i']], CORPUS[vals['j']]
        desc = '$a %s $b with a=%r b=%r: yaql %r, reference %r' % (op, a, b, yq.outcome('$a %s $b' % op, a=a, b=b), ref_binop(op, a, b))
    elif cond['func'] == 'history_pair':
        x, y = HVALS[vals['i']], HVALS[vals['j']]
        bad = []
        for v in (x, y, x):
            for text in HTEXTS:
                g, e = yq.outcome(text, a=v), ref_text(text, v)
                if not outcomes_agree(g, e):
                    bad.append('%s with a=%r gives %r, reference %r' % (text, v, g, e))
        desc = 'evaluating with a=%r, then a=%r, then a=%r again in one process: %s' % (x, y, x, '; '.join(bad[:3]))
    elif cond['func'] == 'law_bool_entries':
        lit = 'true' if vals['a'] else 'false'
        other = vals['b']
        seen = []
        for text, got in [('YaqlInterface: $1 %s $2' % op, _iface_outcome('$1 %s $2' % op, a, b)),
                          ('literal: %s' % (('$b %s %s' % (op, lit)) if vals.get('swap') else ('%s %s $b' % (lit, op))),
                           yq.outcome(('$b %s %s' % (op, lit)) if vals.get('swap') else ('%s %s $b' % (lit, op)), b=other)),
                          ('signed literal: -%s' % lit, yq.outcome('-%s' % lit)), ('+%s' % lit, yq.outcome('+%s' % lit))]:
            if got != ('nomatch',):
                seen.append('%s -> %r' % (text, got))
        desc = 'a boolean is accepted as a number (operands %r, %r): %s' % (a, b, '; '.join(seen) or 'see the condition')
        key = None
    elif key:
        desc = '%r * %r is accepted (a boolean is taken as a repetition count)' % (a, b)
    else:
        desc = '%s fails for %r' % (cond['name'], vals)
    return {'reproduced': True, 'key': key or 'C15/%s/%s' % (cond['func'], op), 'what': desc}
