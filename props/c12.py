"""C12 - all ways of passing the same arguments are equivalent.

live:   for one definition of the LIVE standard registry per condition, every spelling of the same call (positional /
        keyword at every split point / keywords reversed / call(name, args, kwargs) / function vs method form /
        defaulted parameters omitted, skipped with an empty slot, given explicitly positionally or by keyword, at every
        subset / *args and **kwargs extras) is rendered as YAQL text with $variables and evaluated by the real engine
        with SYMBOLIC scalar values; every spelling must give the all-positional spelling's finalised result or error
        class.  Method-only names must not be callable as functions and vice versa.
synth:  synthetic signatures (hidden parameter at every position, defaults, *args, **kwargs, keyword-only) called with
        symbolic argument counts, empty slots and keyword subsets, against a reference binder.
"""
import random
from typing import List

from vf import h as H
from vf import yq

from yaql.language import exceptions as yexc
from yaql.language import utils as yutils

from props import c12_gen as G

from yaql.language import yaqltypes

ID = 'C12'
KNOWN = set(H.P('known', ()))
F13 = 'C12/empty-slot-in-varargs'

FUNCTIONS_ENCODED = [
    'yaql.language.specs.FunctionDefinition.map_args / get_delegate (positional fix table around hidden parameters, '
    'defaults, empty slots, keywords, *args, **kwargs)', 'yaql.language.runner.call / choose_overload / translate_args',
    'yaql.language.parser argument grammar (empty slots, named arguments)',
    'yaql.language.specs.get_function_definition + conventions.CamelCaseConvention (published keyword names)',
    'yaql.standard_library.system.call_func', 'the payloads of the standard library functions called']
BOUNDS = {
    'quick': 'about 55 definitions of the live registry: every definition with *args/**kwargs/keyword-only/mid-signature '
             'hidden parameters/>= 2 defaults, plus a seeded choice over all library modules; per definition <= 48 '
             'default-subset spellings + all split points; scalar arguments: every tuple over ints [-1,3], the 8 strings '
             '{"", a, blank, ab, a+blank, blank+a, aa, 2 blanks}, booleans (solver-selected, <= 300 tuples per definition, '
             'later variables pinned); 3 definitions with genuinely symbolic ints/booleans through the traced binder; '
             'synthetic signatures with <= 2 positional parameters',
    'thorough': 'every definition the corpus can fill (166 of 176 explicit definitions on the pinned tree); symbolic-value '
                'runs for the int/bool-only definitions; synthetic signatures with <= 3 positional parameters, <= 5 '
                'arguments, <= 2 keywords'}
OUTSIDE = ['no_kwargs functions (dict, set(dict,...), switch) and non-deterministic ones (now, random, localtz)',
           'names documented in doc-strings (isEmpty documents `trimSpaces`, the definition declares alias `trim`): the '
           'statement speaks of the convention-translated / declared names only, so the doc-string is not asserted',
           'an empty slot together with the same parameter by keyword (unspecified)',
           'lazily evaluated parameters are never "given explicitly" in place of their default',
           'collections, mappings, sets, regexes, dates in the corpus are fixed literals; only scalars are symbolic']
ASSUMPTIONS = ['keyword name of a parameter = alias written in its @specs.parameter decorator, else the python name with '
               'trailing underscores stripped and snake_case -> camelCase (recomputed by the harness, not read from the '
               'definition)',
               'an empty slot in the *args region has no default to stand for: such a call matches nothing (asserted as '
               'NoMatchingFunction/MethodException; before the fix the payload received the internal <NoValue> marker)',
               'reference binder = Python binding rules on the signature without hidden parameters; an empty slot '
               'requires a default and stands for it',
               'engine options limitIterators=30, memoryQuota=500000 so that endless results end in the same error class']
EXPLANATION = ('For each live definition every spelling of one call is rendered as YAQL text and evaluated by the real '
               'engine (parser, translate_args, map_args, get_delegate, payload) for every solver-selected tuple of '
               'corpus values; result or error class must equal those of the all-positional spelling.  For int/bool-only '
               'definitions the values stay symbolic through the traced binder and payload.  The synthetic catalogue drives '
               'map_args/get_delegate with solver-chosen signature shapes (hidden parameter position, defaults, *args, '
               '**kwargs, keyword-only) and call shapes (argument count, empty slot, keyword subset) against a '
               'reference binder.')
TECHNIQUE = ('bounded symbolic execution (CrossHair+z3) of the real binder and payloads over all spellings of a call; '
             'symbolic signature/call shapes vs reference binder; replay on CPython')

ENG = yq.FACTORY.create(options={'yaql.limitIterators': 30, 'yaql.memoryQuota': 500000})
_ST = {}
MARKER = yutils.NO_VALUE


def outcome(text, variables, ctx=None):
    st = _ST.get(text)
    if st is None:
        with H.NoTracing():
            try:
                st = ENG(text)
            except Exception as e:
                st = ('parse-error', type(e).__name__)
        _ST[text] = st
    if isinstance(st, tuple):
        return ('err', st[1])
    c = (ctx or G.ROOT).create_child_context()
    for k, v in variables.items():
        c[k] = v
    try:
        return ('ok', st.evaluate(context=c))
    except Exception as e:
        return ('err', type(e).__name__)


def same_value(x, y):
    if isinstance(x, bool) != isinstance(y, bool):
        return False
    if isinstance(x, (list, tuple)) and isinstance(y, (list, tuple)):
        if len(x) != len(y):
            return False
        for a, b in zip(x, y):
            if not same_value(a, b):
                return False
        return True
    if isinstance(x, dict) and isinstance(y, dict):
        if len(x) != len(y):
            return False
        for k in x:
            if k not in y or not same_value(x[k], y[k]):
                return False
        return True
    if isinstance(x, float) and isinstance(y, float) and x != x and y != y:
        return True
    return type(x) is type(y) and x == y if not isinstance(x, (int, float, str)) else x == y


def has_marker(v):
    if v is MARKER:
        return True
    if isinstance(v, (list, tuple, set, frozenset)):
        return any(has_marker(a) for a in v)
    if isinstance(v, dict):
        return any(has_marker(a) or has_marker(b) for a, b in v.items())
    return False


def agree(got, base, expect):
    if expect == 'same':
        if got[0] != base[0]:
            return False
        return same_value(got[1], base[1]) if got[0] == 'ok' else got[1] == base[1]
    if expect == 'no-marker':
        # an empty slot in the *args region has no default to stand for: the call matches nothing
        return got[0] == 'err' and got[1] in ('NoMatchingFunctionException', 'NoMatchingMethodException')
    return got == ('err', expect)


# ------------------------------------------------------------------ live registry
UID = H.P('func')
GROUPS = []
if UID and not H.P('driver'):
    _fd = dict(G.registry())[UID]
    _pl = G.plan(_fd)
    GROUPS = G.spellings(_fd, _pl, cap=H.P('cap', 48), rnd=random.Random(H.P('seed', 0)))
    _kinds = {}
    for _u, _f in G.registry():
        k = _kinds.setdefault(_f.name, [False, False])
        k[0] = k[0] or _f.is_function
        k[1] = k[1] or _f.is_method
    _isf, _ism = _kinds[_fd.name]
    _args = _pl['args']
    if not _isf and _ism and _args:
        GROUPS[0]['variants'].append(('function form of a method-only name',
                                      G.render(_fd.name, 'func', [a.text for a in _args], []),
                                      'NoFunctionRegisteredException'))
    if _isf and not _ism and _args:
        GROUPS[0]['variants'].append(('method form of a function-only name',
                                      G.render(_fd.name, 'method', [a.text for a in _args], []),
                                      'NoMethodRegisteredException'))
    if H.P('only_f13'):
        GROUPS = [dict(g, variants=[v for v in g['variants'] if v[2] == 'no-marker']) for g in GROUPS]
        GROUPS = [g for g in GROUPS if g['variants']]
    elif F13 in KNOWN:
        GROUPS = [dict(g, variants=[v for v in g['variants'] if v[2] != 'no-marker']) for g in GROUPS]

IDOM = [-1, 0, 1, 2, 3]
SDOM = ['', 'a', ' ', 'ab', 'a ', ' a', 'aa', '  ']      # every string of length <= 2 over {a, blank}, plus 'ab'
BDOM = [False, True]
PIN = {'i': [2, 1, 3, 0, 1, 2, 3, 1], 's': ['ab', 'a', 'b', 'ba'], 'b': [True, False] * 6}


def used_variables(groups):
    import re as _re
    names = set()
    for g in groups:
        for text in [g['base']] + [v[1] for v in g['variants']]:
            names.update(_re.findall(r'\$([isb]\d+)\b', text))
    return sorted(names, key=lambda n: (n[0], int(n[1:])))


def domains_for(used, budget):
    """full domain for the first variables, then two values, then one, so that the product stays <= budget"""
    doms, prod = [], 1
    for n in used:
        full = {'i': IDOM, 's': SDOM, 'b': BDOM}[n[0]]
        pin = PIN[n[0]][int(n[1:])]
        if prod * len(full) <= budget:
            d = list(full)
        elif prod * 2 <= budget:
            d = [pin, full[1] if full[1] != pin else full[0]]
        else:
            d = [pin]
        prod *= len(d)
        doms.append(d)
    return doms


USED = used_variables(GROUPS)
DOMS = domains_for(USED, H.P('budget', 300))


DTXT = [[repr(v) for v in d] for d in DOMS]           # selected as text (always concrete), decoded natively
DVAL = dict((repr(v), v) for d in DOMS for v in d)


def idx_ok(idx):
    if len(idx) != len(USED):
        return False
    for k in range(len(USED)):
        if not (0 <= idx[k] < len(DOMS[k])):
            return False
    return True


def first_mismatch(variables):
    for g in GROUPS:
        base = outcome(g['base'], variables)
        for label, text, expect in g['variants']:
            got = outcome(text, variables)
            if not agree(got, base, expect):
                return (g['what'], label, g['base'], base, text, got, expect)
    return None


def live(idx: List[int]) -> bool:
    """
    pre: idx_ok(idx)
    post: _
    """
    # the (only) branching points: one path per tuple of corpus values; everything below is concrete and runs natively
    picks = [DTXT[k][idx[k]] for k in range(len(USED))]
    with H.NoTracing():
        variables = dict(zip(USED, [DVAL[str(t)] for t in picks]))
        ok = first_mismatch(variables) is None
    return H.done(ok)


def sym_ok(ints):
    return all(-1 <= v <= 3 for v in ints[:len([u for u in USED if u[0] == 'i'])])


def live_sym(i0: int, i1: int, i2: int, i3: int, b0: bool, b1: bool) -> bool:
    """scalar values genuinely symbolic through the real binder and payload (int/bool-only definitions)
    pre: sym_ok([i0, i1, i2, i3])
    post: _
    """
    variables = {'i0': i0, 'i1': i1, 'i2': i2, 'i3': i3, 'b0': b0, 'b1': b1}
    variables = {k: v for k, v in variables.items() if k in USED}
    return H.done(first_mismatch(variables) is None)


# ------------------------------------------------------------------ synthetic signature catalogue
KW_NAMES = ['p0', 'pl', 'k0', 'zz']
NPOS = H.P('npos', 2)
_SYN = {}


def synth_function(npos, ndef, has_var, kwonly, has_varkw, hidden_at):
    key = (npos, ndef, has_var, kwonly, has_varkw, hidden_at)
    if key not in _SYN:
        f, src = G.make_payload(npos, ndef, has_var, kwonly, has_varkw, hidden_at)
        ctx = G.ROOT.create_child_context()
        ctx.register_function(f, name='f')
        _SYN[key] = (ctx, src)
    return _SYN[key]


def synth_call(npos, ndef, has_var, kwonly, has_varkw, hidden_at, nargs, skip, kws):
    """-> (got, expected) ; concrete"""
    ctx, src = synth_function(npos, ndef, has_var, kwonly, has_varkw, hidden_at)
    args = [MARKER if i == skip else i + 1 for i in range(nargs)]
    names = {'p0': 'p0', 'pl': 'p%d' % max(npos - 1, 0), 'k0': 'k0', 'zz': 'zz'}
    kwargs = {}
    for j, k in enumerate(kws):
        kwargs[names[k]] = 10 + j
    exp = G.ref_bind(npos, ndef, has_var, kwonly, has_varkw, args, kwargs)
    try:
        got = ctx('f', ENG)(*args, **kwargs)
    except yexc.NoMatchingFunctionException:
        got = None
    except Exception as e:
        got = 'EXC ' + type(e).__name__
    return got, exp, src, args, kwargs


KWONLY = [None, 'required', 'default']
MODE = H.P('mode', 'pos')


def mode_ok(ko, has_varkw, nargs, skip, kw1, kw2):
    """two shards: 'pos' = positional machinery (hidden parameter x argument count x empty slot x *args, keywords only for
    the first/last positional parameter); 'kw' = keyword machinery (keyword-only, **kwargs, keyword pairs; no empty slot)"""
    if MODE == 'pos':
        return ko == 0 and not has_varkw and kw2 == -1 and kw1 <= 1
    return skip == -1 and nargs <= NPOS + 1

BOOLS = [False, True]


def synth(ndef: int, has_var: bool, ko: int, has_varkw: bool, hidden: int, nargs: int, skip: int, kw1: int,
          kw2: int) -> bool:
    """
    pre: 0 <= ndef <= NPOS and 0 <= ko < 3 and -1 <= hidden <= NPOS
    pre: 0 <= nargs <= NPOS + 2 and -1 <= skip < nargs
    pre: -1 <= kw1 < len(KW_NAMES) and -1 <= kw2 and (kw2 < kw1 or kw1 == -1 == kw2)
    pre: mode_ok(ko, has_varkw, nargs, skip, kw1, kw2) and (H.P('hidden') is None or hidden == H.P('hidden'))
    post: _
    """
    # all selectors are read here, once (each combination is one path); the call itself runs natively
    sel = (NUMS[ndef + 1], True if has_var else False, KWONLY[ko], True if has_varkw else False, NUMS[hidden + 1],
           NUMS[nargs + 1], NUMS[skip + 1], NUMS[kw1 + 1], NUMS[kw2 + 1])
    with H.NoTracing():
        ndef_, var_, ko_, vkw_, hid_, nargs_, skip_, k1, k2 = sel
        ndef_, hid_, nargs_, skip_, k1, k2 = [int(x) for x in (ndef_, hid_, nargs_, skip_, k1, k2)]
        kws = [KW_NAMES[k] for k in (k1, k2) if k >= 0]
        got, exp, src, args, kwargs = synth_call(NPOS, ndef_, var_, ko_, vkw_, hid_ if hid_ >= 0 else None, nargs_, skip_,
                                                 kws)
        if exp == 'UNSPEC':
            return True
        if exp == 'SKIP-IN-VARARGS':
            if F13 in KNOWN and not H.P('only_f13'):
                return True
            ok = got is None                       # no default to stand for: no match
        elif H.P('only_f13'):
            return True
        else:
            ok = got == exp
    return H.done(ok)


NUMS = [str(i) for i in range(-1, 8)]


# ------------------------------------------------------------------ conditions
HEAVY_TYPES = ('regex("a.")', 'datetime(2015, 1, 2)', 'timespan(hours => 1)')
HEAVY_NAMES = {'pow', 'format', 'datetime', 'timespan', 'hex', 'round', 'float', 'str', 'characters', 'regex', 'matches',
               'escapeRegex', 'mergeWith', 'int'}


SYM_QUICK = ('bitwiseAnd#0', 'enumerate#0', 'bool#0', 'delete#0', 'sum#0')
SYM_SLOW = ('range#0', 'range#1', 'sequence#0', 'repeat#0', 'cycle#0')


def is_heavy(fd, pl):
    if fd.name in HEAVY_NAMES:
        return True
    texts = [a.text for a in pl['args'] + pl['kwonly']]
    return any(t in HEAVY_TYPES for t in texts)


def interesting(fd, pl):
    """signatures that stress the binder: *args, **kwargs, keyword-only, hidden parameter before/between explicit ones,
    >= 2 defaults"""
    sig = pl['sig']
    if sig.var is not None or sig.varkw is not None or sig.kwonly:
        return True
    hid = [p.position for p in fd.parameters.values() if G.hidden(p) and p.position is not None]
    expl = [p.position for p in sig.pos]
    if hid and expl and min(hid) < max(expl):
        return True
    return sum(1 for a in pl['args'] if a.has_default) >= 2


# ------------------------------------------------------------------ operators through call(name, args, kwargs)
def _binary_operator_names():
    names = set()
    c = G.ROOT
    while c is not None:
        for n in getattr(c, '_functions', {}):
            if n.startswith('#operator_') and n not in ('#operator_.', '#operator_?.', '#operator_->', '#operator_and', '#operator_or'):
                names.add(n)
        c = c.parent
    # keep the operators all of whose overloads publish exactly the keyword names left / right
    out = []
    for n in sorted(names):
        shapes = []
        c = G.ROOT
        while c is not None:
            for fd in getattr(c, '_functions', {}).get(n, ()):
                ps = sorted((p.position, p.alias or p.name) for p in fd.parameters.values()
                            if p.position is not None and not isinstance(p.value_type, yaqltypes.HiddenParameterType))
                shapes.append(tuple(x[1] for x in ps))
            c = c.parent
        if shapes.count(('left', 'right')) >= 2:        # (other overloads, e.g. date/time ones, never match the scalar corpus)
            out.append(n)
    return out


OPNAMES = _binary_operator_names()
OPBOX = [(n,) for n in OPNAMES]
OPVALS = [1, 2, 'a', 'ab', None, (1, 2), 2.5, frozenset([1, 2]), frozenset([2])]
VBOX = [(i,) for i in range(len(OPVALS))]


def other_shape_accepts(name, a, b):
    c = G.ROOT
    while c is not None:
        for fd in getattr(c, '_functions', {}).get(name, ()):
            ps = sorted(((p.position, p) for p in fd.parameters.values()
                         if p.position is not None and not isinstance(p.value_type, yaqltypes.HiddenParameterType)),
                        key=lambda x: x[0])
            names = tuple((p.alias or p.name) for _, p in ps)
            if names == ('left', 'right'):
                continue
            try:
                if fd.map_args((a, b), {}, c, ENG) is not None:
                    return True
            except Exception:
                return True
        c = c.parent
    return False


def operator_call(o: int, i: int, j: int) -> bool:
    """
    pre: 0 <= o < len(OPNAMES) and 0 <= i < len(OPVALS) and 0 <= j < len(OPVALS)
    post: _
    """
    # an operator is an ordinary overloaded function '#operator_X' with parameters left/right (several overloads share the
    # names): positional, mixed and keyword spellings through call() must agree with each other
    name, a, b = OPBOX[o][0], OPVALS[VBOX[i][0]], OPVALS[VBOX[j][0]]
    with H.NoTracing():
        v = {'a': a, 'b': b, 'n': name}
        base = outcome('call($n, [$a, $b], {})', v)
        infix = outcome('$a %s $b' % name[len('#operator_'):], v)
        ok = base[0] == infix[0] and (same_value(base[1], infix[1]) if base[0] == 'ok' else base[1] == infix[1])
        # operators are functions: the method spelling of an operator name reaches nothing, whatever the operands
        ok = ok and outcome('call($n, [$b], {}, $a)', v) == ('err', 'NoMethodRegisteredException')
        if not ok or other_shape_accepts(name, a, b):
            pass        # an overload with other parameter names (e.g. concat(*args) as '+') takes this call: nothing to compare
        elif base[0] == 'ok' or base[1] in ('NoMatchingFunctionException',):
            for text in ('call($n, [$a], {right => $b})', 'call($n, [], {left => $a, right => $b})',
                         'call($n, [], {right => $b, left => $a})'):
                got = outcome(text, v)
                ok = ok and got[0] == base[0] and (same_value(got[1], base[1]) if got[0] == 'ok' else got[1] == base[1])
    return H.done(ok)


SYSTEM_NAMES = [('#operator_mod', '$a mod $b', 2), ('#operator_in', '$a in $b', 2), ('*equal', '$a = $b', 2), ('*not_equal', '$a != $b', 2),
                ('#operator_=~', '$a =~ $b', 2), ('#unary_operator_not', 'not $a', 1), ('#unary_operator_-', '- $a', 1),
                ('#unary_operator_+', '+ $a', 1), ('#indexer', '$b[$a]', -2), ('#operator_/', '$a / $b', 2)]
SNBOX = [(i,) for i in range(len(SYSTEM_NAMES))]


def system_name_call(o: int, i: int, j: int) -> bool:
    """
    pre: 0 <= o < len(SYSTEM_NAMES) and 0 <= i < len(OPVALS) and 0 <= j < len(OPVALS)
    post: _
    """
    # call(name, args, kwargs) reaches the same overloads as the operator syntax, for every '#'/'*' system name as registered
    name, text, arity = SYSTEM_NAMES[SNBOX[o][0]]
    a, b = OPVALS[VBOX[i][0]], OPVALS[VBOX[j][0]]
    with H.NoTracing():
        v = {'a': a, 'b': b, 'n': name}
        direct = outcome(text, v)
        via = outcome('call($n, [$a], {})' if arity == 1 else ('call($n, [$b, $a], {})' if arity == -2 else 'call($n, [$a, $b], {})'), v)
        ok = direct[0] == via[0] and (same_value(direct[1], via[1]) if direct[0] == 'ok' else direct[1] == via[1])
    return H.done(ok)


# ------------------------------------------------------------------ the function/method kind filter in host-composed contexts
KIND_TEXTS = [("toUpper('abc')", 'err'), ("'abc'.toUpper()", 'ABC'), ('len([1, 2])', 2), ('[1, 2].len()', 2), ('str(1)', '1'),
              ('1.str()', 'err'), ("int('3')", 3), ("'3'.int()", 'err'), ('[3, 1].orderBy($)', [1, 3]), ('orderBy([3, 1], $)', 'err'),
              ('call(toUpper, [\'abc\'], {})', 'err'), ("call(toUpper, [], {}, 'abc')", 'ABC')]
KTBOX = [(i,) for i in range(len(KIND_TEXTS))]


def _kind_contexts():
    from yaql.language import contexts
    std = G.ROOT
    app = std.create_child_context()
    app['appvar'] = 1
    return [std.create_child_context(),
            contexts.MultiContext([std.create_child_context(), app.create_child_context()]),
            contexts.MultiContext([app.create_child_context(), std.create_child_context().create_child_context()]),
            contexts.LinkedContext(app.create_child_context(), std.create_child_context())]


KIND_CTX = None


def kind_filter(t: int, c: int) -> bool:
    """
    pre: 0 <= t < len(KIND_TEXTS) and 0 <= c < 4
    post: _
    """
    global KIND_CTX
    text, want = KIND_TEXTS[KTBOX[t][0]]
    ci = KTBOX[c][0]
    with H.NoTracing():
        if KIND_CTX is None:
            KIND_CTX = _kind_contexts()
        got = outcome(text, {}, KIND_CTX[ci])
        if want == 'err':
            ok = got[0] == 'err' and got[1] in ('NoFunctionRegisteredException', 'NoMethodRegisteredException',
                                                 'NoMatchingFunctionException', 'NoMatchingMethodException')
        else:
            ok = got[0] == 'ok' and same_value(got[1], want)
    return H.done(ok)


# ------------------------------------------------------------------ keyword names follow the convention of the context
def _convention_contexts():
    import yaql
    from yaql.language import conventions
    camel = yaql.create_context(convention=conventions.CamelCaseConvention())
    py = yaql.create_context(convention=conventions.PythonConvention())
    camel2 = yaql.create_context()
    return {'camel': camel, 'python': py, 'camel2': camel2}


CONV_CASES = [  # (expression with {kw} placeholders per convention, python parameter name)
    ("'aXbxc'.split('x', {max_splits} => 1)", 'max_splits'),
    ("'A'.matches('a')", None),
    ("regex('a', {ignore_case} => true).matches('A')", 'ignore_case'),
    ("[1, 2, 2].distinct({key_selector} => $)", 'key_selector'),
    ("[3, 1, 2].distinct().len()", None),
]
CCBOX = [(i,) for i in range(len(CONV_CASES))]
if not H.P('driver'):
    CONV_CTX = _convention_contexts()


def convention_names(c: int, order: bool) -> bool:
    """
    pre: 0 <= c < len(CONV_CASES)
    post: _
    """
    # every context publishes keyword names in ITS convention, whatever other contexts (other conventions) exist in the process
    tmpl, pyname = CONV_CASES[CCBOX[c][0]]
    with H.NoTracing():
        def camel(n):
            parts = n.split('_')
            return parts[0] + ''.join(x.capitalize() for x in parts[1:])
        ok = True
        seq = ('camel', 'python', 'camel2') if order else ('python', 'camel', 'camel2')
        for which in seq:
            ctx = CONV_CTX[which]
            good = tmpl.replace('{%s}' % pyname, pyname if which == 'python' else camel(pyname)) if pyname else tmpl
            bad = tmpl.replace('{%s}' % pyname, camel(pyname) if which == 'python' else pyname) if pyname else None
            pos = tmpl.replace('{%s} => ' % pyname, '') if pyname else tmpl
            g, p0 = outcome(good, {}, ctx), outcome(pos, {}, ctx)
            ok = ok and g[0] == 'ok' and p0[0] == 'ok' and same_value(g[1], p0[1])
            if bad and bad != good:
                ok = ok and outcome(bad, {}, ctx)[0] == 'err'
    return H.done(ok)


# ------------------------------------------------------------------ keyword names reach **kwargs collectors verbatim
VERBATIM_NAMES = ['x', 'x_', 'x__', 'a_b', 'a_b_', 'from_', 'to_', 'format_', 'k_1', 'X_']
VERBATIM_TEXTS = [('let({n} => 1) -> ${n}', 1), ('call(let, [], {{{n} => 1}}) -> ${n}', 1), ('def(f, ${n} * 2) -> f({n} => 4)', 8),
            ('def(f, ${n} * 2) -> call(f, [], {{{n} => 4}})', 8), ('let({n} => 2, zz => 3) -> [${n}, $zz]', [2, 3]),
            ('dict({n} => 1).keys().toList()', ['{n}']), ('let({n} => 1) -> let(q => 2) -> ${n}', 1)]
KNBOX = [(i,) for i in range(12)]


def kwargs_names(n: int, t: int) -> bool:
    """
    pre: 0 <= n < len(VERBATIM_NAMES) and 0 <= t < len(VERBATIM_TEXTS)
    post: _
    """
    # a keyword written in an expression (name => value) and the same keyword handed to call() reach a function that
    # collects **kwargs (let, def-defined functions, dict) under exactly the name written
    name, (tpl, want) = VERBATIM_NAMES[KNBOX[n][0]], VERBATIM_TEXTS[KNBOX[t][0]]
    with H.NoTracing():
        got = outcome(tpl.format(n=name), {}, G.ROOT.create_child_context())
        if isinstance(want, list):
            want = [w.format(n=name) if isinstance(w, str) else w for w in want]
        ok = got[0] == 'ok' and same_value(got[1], want)
    return H.done(ok)


def conditions(tier, seed):
    quick = tier == 'quick'
    out = [{'name': 'operator_call', 'func': 'operator_call', 'timeout': 400,
            'bounds': 'every binary operator function of the live registry (%d) x %d x %d operand values: call(name, [a, b], {}) vs '
                      'call(name, [a], {right => b}) vs call(name, [], {left => a, right => b}) (selectors; each path concrete)' % (
                          len(OPNAMES), len(OPVALS), len(OPVALS))},
           {'name': 'system_name_call', 'func': 'system_name_call', 'timeout': 300,
            'bounds': '%d system names (#operator_mod, #operator_in, *equal, #unary_operator_not, #indexer ...) x operand values: '
                      'call(name, args, {}) vs the operator syntax' % len(SYSTEM_NAMES)},
           {'name': 'kind_filter', 'func': 'kind_filter', 'timeout': 200,
            'bounds': '%d calls of method-only / function-only / extension functions in both spellings (and through call()) evaluated in a '
                      'plain child, two MultiContext compositions and a LinkedContext over the standard context' % len(KIND_TEXTS)},
           {'name': 'kwargs_names', 'func': 'kwargs_names', 'timeout': 200,
            'bounds': '%d keyword names (trailing / inner underscores, digits, upper case) x %d expressions handing them to **kwargs '
                      'collectors (let, def-defined functions, dict) in expression syntax and through call(): the name arrives verbatim'
                      % (len(VERBATIM_NAMES), len(VERBATIM_TEXTS))},
           {'name': 'convention_names', 'func': 'convention_names', 'timeout': 200,
            'bounds': 'standard contexts created with the CamelCase and the Python naming convention in one process (both creation '
                      'orders of use): keyword names of multi-word parameters follow the context\'s own convention'}]
    reg = G.registry()
    cands = []
    for uid, fd in reg:
        pl = G.plan(fd)
        if pl is None:
            continue
        cands.append((uid, fd, pl))
    if quick:
        rnd = random.Random(seed)
        must = [c for c in cands if interesting(c[1], c[2])]
        rest = [c for c in cands if c not in must]
        rnd.shuffle(rest)
        by_mod = {}
        for c in rest:
            by_mod.setdefault(c[1].payload.__module__, []).append(c)
        pick = []
        while len(pick) + len(must) < 60 and any(by_mod.values()):
            for m in sorted(by_mod):
                if by_mod[m] and len(pick) + len(must) < 60:
                    pick.append(by_mod[m].pop())
        chosen = must[:45] + pick
    else:
        chosen = cands
    for uid, fd, pl in sorted(chosen, key=lambda c: c[0]):
        groups = G.spellings(fd, pl, rnd=random.Random(0))
        nsp = sum(len(g['variants']) for g in groups)
        if not nsp:
            continue
        used = used_variables(groups)
        doms = domains_for(used, 300)
        npaths = 1
        for d in doms:
            npaths *= len(d)
        out.append({'name': 'live[%s]' % uid, 'func': 'live', 'timeout': 200 if quick else 600,
                    'param': {'func': uid},
                    'bounds': '%s: %d spellings in %d groups (%s); values: %s (solver-selected tuples of corpus values, '
                              '%d tuples)' % (uid, nsp, len(groups), ', '.join(g['what'] for g in groups),
                                              ', '.join('$%s in %r' % (u, d) for u, d in zip(used, doms)) or 'none',
                                              npaths)})
        if used and all(u[0] in 'ib' for u in used) and not is_heavy(fd, pl) \
                and all(int(u[1:]) < (4 if u[0] == 'i' else 2) for u in used) \
                and (uid in SYM_QUICK if quick else uid not in SYM_SLOW):
            out.append({'name': 'live_sym[%s]' % uid, 'func': 'live_sym', 'timeout': 150 if quick else 400,
                        'param': {'func': uid, 'cap': 6},
                        'bounds': '%s: <= 6 default-subset spellings + all split points; ints symbolic in [-1,3], '
                                  'booleans symbolic, through the traced binder and payload' % uid})
        if F13 in KNOWN and any(v[2] == 'no-marker' for g in groups for v in g['variants']) and \
                fd.name in ('list', 'append', 'set', 'add'):
            out.append({'name': 'probe[F13,%s]' % uid, 'func': 'live', 'timeout': 100, 'kind': 'probe',
                        'param': {'func': uid, 'only_f13': True, 'probe_key': F13},
                        'bounds': '%s with an empty slot in the *args region' % uid})
    for npos in ((0, 1, 2) if quick else (0, 1, 2, 3)):
        for mode, hid in [('pos', None)] + ([('kw', None)] if npos < 2 else [('kw', h) for h in range(-1, npos + 1)]):
            out.append({'name': 'synth[npos=%d,%s%s]' % (npos, mode, '' if hid is None else ',hidden=%d' % hid),
                        'func': 'synth', 'timeout': 900, 'param': {'npos': npos, 'mode': mode, 'hidden': hid},
                        'bounds': 'synthetic signature: %d positional parameters, 0..%d trailing defaults, optional *args, '
                                  'hidden parameter at every position or absent; %s' % (npos, npos, (
                                      'call with 0..%d arguments, at most one empty slot at any position, optionally the '
                                      'first or last positional parameter by keyword' % (npos + 2)) if mode == 'pos' else (
                                      'keyword-only none/required/defaulted, optional **kwargs; call with 0..%d arguments '
                                      'and <= 2 keywords from {first, last positional, keyword-only, unknown}'
                                      % (npos + 1)))})
    if F13 in KNOWN:
        out.append({'name': 'probe[F13,synthetic]', 'func': 'synth', 'timeout': 300, 'kind': 'probe',
                    'param': {'npos': 1, 'mode': 'pos', 'only_f13': True, 'probe_key': F13},
                    'bounds': 'synthetic f(p0, *rest) family called with an empty slot in the *rest region'})
    return out


# ------------------------------------------------------------------ validate / replay
def validate():
    """(1) the harness's reading of the naming convention against the repo's documented examples; (2) every generated
    spelling parses; (3) the reference binder against Python's own binding on hidden-free signatures"""
    bad = []
    for py, ya in [('trim_spaces', 'trimSpaces'), ('with_', 'with'), ('key_selector', 'keySelector'), ('d', 'd'),
                   ('max_levels', 'maxLevels'), ('from_', 'from')]:
        if G.camel(py) != ya:
            bad.append('convention reference: %r -> %r, documented %r' % (py, G.camel(py), ya))
    n = 0
    for uid, fd in G.registry():
        pl = G.plan(fd)
        if pl is None:
            continue
        for g in G.spellings(fd, pl, rnd=random.Random(0)):
            for label, text, expect in [('base', g['base'], 'same')] + g['variants']:
                n += 1
                try:
                    ENG(text)
                except Exception as e:
                    bad.append('generated spelling does not parse: %s %s: %r (%s)' % (uid, label, text, e))
    import inspect
    for npos in range(0, 3):
        for ndef in range(0, npos + 1):
            for has_var in (False, True):
                for ko in KWONLY:
                    for vkw in (False, True):
                        f, src = G.make_payload(npos, ndef, has_var, ko, vkw, None)
                        for nargs in range(0, npos + 2):
                            for kws in ([], ['p0'], ['k0'], ['zz'], ['p%d' % max(npos - 1, 0), 'k0']):
                                args = [i + 1 for i in range(nargs)]
                                kwargs = {k: 10 + j for j, k in enumerate(kws)}
                                exp = G.ref_bind(npos, ndef, has_var, ko, vkw, args, kwargs)
                                try:
                                    py = f(*args, **kwargs)
                                    py.pop('f', None)
                                except TypeError:
                                    py = None
                                if py != exp:
                                    bad.append('reference binder differs from Python on %s args=%r kwargs=%r: %r vs %r'
                                               % (src.splitlines()[0], args, kwargs, exp, py))
    return bad[:5]


def replay(cond, args):
    import props.c12 as me
    fn = getattr(me, cond['func'])
    p = cond.get('param') or {}
    try:
        ok = fn(**args)
    except Exception as e:
        return {'reproduced': True, 'key': 'C12/exception/%s' % type(e).__name__,
                'what': '%s%r raised %r' % (cond['name'], args, e)}
    if ok:
        return {'reproduced': False}
    if cond['func'] == 'operator_call':
        return {'reproduced': True, 'key': 'C12/operator-call-spellings',
                'what': 'call(%r, [a, b], {}) and its keyword spellings (right => b / left => a, right => b) disagree for a=%r b=%r' % (
                    OPNAMES[args['o']], OPVALS[args['i']], OPVALS[args['j']])}
    if cond['func'] == 'system_name_call':
        return {'reproduced': True, 'key': 'C12/system-name-call',
                'what': 'call(%r, ...) and the operator spelling %r disagree for a=%r b=%r' % (
                    SYSTEM_NAMES[args['o']][0], SYSTEM_NAMES[args['o']][1], OPVALS[args['i']], OPVALS[args['j']])}
    if cond['func'] == 'kind_filter':
        return {'reproduced': True, 'key': 'C12/kind-filter',
                'what': '%s evaluated in host context #%d (0 plain child, 1-2 MultiContext, 3 LinkedContext): expected %r' % (
                    KIND_TEXTS[args['t']][0], args['c'], KIND_TEXTS[args['t']][1])}
    if cond['func'] == 'kwargs_names':
        text = VERBATIM_TEXTS[args['t']][0].format(n=VERBATIM_NAMES[args['n']])
        return {'reproduced': not kwargs_names(**args), 'key': 'C12/kwargs-names',
                'what': '%s gives %r: the keyword name does not arrive as written (expected %r)' % (
                    text, outcome(text, {}, G.ROOT.create_child_context()), VERBATIM_TEXTS[args['t']][1])}
    if cond['func'] == 'convention_names':
        return {'reproduced': True, 'key': 'C12/convention-names',
                'what': 'keyword names of %r do not follow the naming convention of the context they are evaluated in (contexts '
                        'with the CamelCase and the Python convention in one process)' % (CONV_CASES[args['c']][0],)}
    if cond['func'] in ('live', 'live_sym'):
        if cond['func'] == 'live':
            variables = dict(zip(USED, [DOMS[k][args['idx'][k]] for k in range(len(USED))]))
        else:
            variables = {k: v for k, v in args.items() if k in USED}
        mm = first_mismatch(variables)
        what, label, btext, base, text, got, expect = mm
        key = F13 if expect == 'no-marker' else 'C12/live/%s/%s' % (p.get('func'), label.split(',')[0])
        used = {k: v for k, v in variables.items() if ('$' + k) in text or ('$' + k) in btext}
        return {'reproduced': True, 'key': key,
                'what': '%s with %r: %r -> %r but %r -> %r (expected %s)' % (p.get('func'), used, btext, base, text, got,
                                                                             expect)}
    a = args
    hid = a['hidden'] if a['hidden'] >= 0 else None
    kws = [KW_NAMES[k] for k in (a['kw1'], a['kw2']) if k >= 0]
    got, exp, src, cargs, ckw = synth_call(NPOS, a['ndef'], a['has_var'], KWONLY[a['ko']], a['has_varkw'], hid, a['nargs'],
                                           a['skip'], kws)
    key = F13 if exp == 'SKIP-IN-VARARGS' else 'C12/synthetic-binding'
    return {'reproduced': True, 'key': key,
            'what': '%s called with args=%r kwargs=%r: payload sees %r, reference binder %r' % (
                src.splitlines()[0], cargs, ckw, got, exp)}
