"""C20 - date/time values denote instants consistently.

Real code run symbolically: the bodies of yaql/standard_library/date_time.py (_get_tz, datetime_from_timestamp, utc,
offset, timestamp, the operator overloads, timespan unit properties, build_timespan) and yaqltypes.DateTime.convert,
reached through the real dispatch (`$d.timestamp`, `$d + $t`, ...), on shim values (props/c20_shim.py) whose state
is a few symbolic integers.  In replay mode the very same law functions run on REAL datetime/timedelta/dateutil
objects through the public API.
"""
import datetime

from vf import h as H
from vf import yq
from props import c20_shim as S

ID = 'C20'
KNOWN = set(H.P('known', ()))
REAL = bool(H.P('replaying')) or bool(H.P('driver'))      # real datetime objects, no shim
US = S.US
MARGIN = 3 * S.DAY_US
WALL_LO, WALL_HI = S.WALL_MIN + MARGIN, S.WALL_MAX - MARGIN
TS_RANGE = 10 ** 9 * 86400 * US                             # |timedelta| < 10^9 days (range of the C type)

if not REAL:
    S.install()
    S.floats_as_reals()

FUNCTIONS_ENCODED = [
    'yaql.standard_library.date_time._get_tz/datetime_from_timestamp/utc/offset/timestamp',
    'yaql.standard_library.date_time operator overloads (datetime+-timespan, datetime-datetime, comparisons, '
    'timespan +,-,unary,*,comparisons)',
    'yaql.standard_library.date_time.microseconds/milliseconds/seconds/minutes/hours/days/build_timespan',
    'yaql.language.yaqltypes.DateTime.convert', 'yaql.standard_library.common.eq/neq on datetimes',
    'yaql.language.runner.call/choose_overload (real dispatch of every expression)']
BOUNDS = {
    'quick': 'wall clock: every microsecond of years 1..9999 (3 days margin), offsets every minute in (-24h,24h), '
             'naive or aware; timespans: every integer number of microseconds with |t| < 10^9 days (sum kept in the '
             'year range); timestamps: integer seconds, or seconds + microseconds/10^6 as an exact rational; '
             'timespan components: unbounded integers',
    'thorough': 'same domains (they are unbounded already) with longer budgets, more operator combinations and a '
                'larger selection grid for calendar-field laws'}
OUTSIDE = ['calendar fields (year..weekday, date, time, replace(year=...), format, parsing): exercised only on a '
           'concrete grid selected by symbolic indices', 'named/DST zones in the symbolic runs (yaql builds fixed offsets only; two host values in DST zones are on the concrete grid)',
           'leap seconds', 'overflow behaviour outside years 1..9999 and |timespan| >= 10^9 days',
           'IEEE rounding: floats are exact rationals in the symbolic run; replays on CPython use a tolerance of '
           '1 microsecond / 1e-9 relative', 'offsets with a seconds/microseconds part',
           'timespan / number, timespan * float (rounding of the C type)', 'now(), localtz() (host clock and zone)']
ASSUMPTIONS = [
    'shim contract (validated each run against the real datetime/timedelta/dateutil types on a concrete grid): '
    'aware - aware = difference of instants; naive - naive = difference of wall clocks; dt +- td keeps the zone and '
    'moves the wall clock; comparisons of aware values compare instants; naive vs aware: TypeError for ordering and '
    'subtraction, False for ==; replace(tzinfo=) relabels; astimezone keeps the instant; fromtimestamp(s, tz) is the '
    'instant s shown in tz (rounded to microseconds); timedelta(...) is the linear combination of its components; '
    'days/seconds/microseconds are floor div/mod of the total; total_seconds = us / 10^6',
    'dateutil.tz.tzoffset(None, seconds) is a fixed zone of that many seconds; tzutc() is offset zero',
    'CrossHair models floats as reals: unit conversions are compared as exact rationals']
EXPLANATION = ('Symbolic execution (CrossHair+z3) of the real date_time.py function bodies through the real '
               'yaql dispatch on shim datetime/timedelta/tzinfo subclasses that carry symbolic integers; all laws are '
               'linear integer/rational arithmetic so a confirmed condition holds for every value of the stated '
               'domains. The shim is validated against the C types each run and every counterexample is replayed '
               'with real datetime objects through the public API.')
TECHNIQUE = 'symbolic execution (CrossHair+z3) of real date_time.py on integer-state shim types; replay on real datetimes'


# ------------------------------------------------------------------ value factory (shim or real)
def mk_dt(wall, off_min, naive=False):
    if REAL:
        from dateutil import tz
        d = S.EPOCH_NAIVE + datetime.timedelta(microseconds=wall)
        if naive:
            return d
        return d.replace(tzinfo=tz.tzutc() if off_min == 0 else tz.tzoffset(None, off_min * 60))
    return S.SDT.of(wall, None if naive else S.STZ(off_min * 60 * US))


def mk_ts(us):
    if REAL:
        return datetime.timedelta(microseconds=us)
    return S.STD.of(us)


def inst(d):
    return S.as_sdt(d).inst()


def off_us(d):
    tz = S.as_sdt(d).tz
    return None if tz is None else tz.off_us


def is_dt(d):
    return isinstance(d, datetime.datetime)


def is_ts(t):
    return isinstance(t, datetime.timedelta)


def eq_us(a, b):
    """equality of microsecond counts; on CPython floats were involved: 1 microsecond tolerance"""
    if REAL:
        return abs(a - b) <= 1
    return a == b


def eq_num(a, b):
    if REAL:
        return abs(a - b) <= 1e-9 * max(1.0, abs(a), abs(b))
    return a == b


def same_dt(r, wall, off_min, naive):
    """r denotes the instant of (wall, off) and carries the same offset (a naive value counts as UTC)"""
    if not is_dt(r):
        return False
    exp_off = 0 if naive else off_min * 60 * US
    o = off_us(r)
    return o is not None and o == exp_off and eq_us(inst(r), wall - exp_off)


def dt_ok(wall, off_min):
    return WALL_LO <= wall <= WALL_HI and -1440 < off_min < 1440


def loc_ok(loc):
    """offset of the process-local time zone in minutes: part of the environment, any value"""
    return -1440 < loc < 1440


def set_env(loc):
    """symbolic run: the shim's local zone; real run (replay): the process zone was set through TZ/tzset by replay()"""
    if not REAL:
        S.set_local(loc * 60 * US)


def finding_key(uses, off_min, naive, naive2=None):
    """class of a listed finding; `uses` = features of the law: 'utc', 'timestamp', 'eq'"""
    if 'timestamp' in uses and naive:
        return 'C20/naive-timestamp'
    if ('utc' in uses or 'timestamp' in uses) and not naive and off_min != 0:
        return 'C20/utc-keeps-zone'
    if 'eq' in uses and naive2 is not None and naive != naive2:
        return 'C20/naive-equality'
    return None


def part_ok(off_min, naive):
    """optional sharding/probing: param 'cls' restricts a harness to one class"""
    c = H.P('cls')
    if c == 'naive':
        return naive
    if c == 'aware-nonzero':
        return (not naive) and off_min != 0
    if c == 'aware-zero':
        return (not naive) and off_min == 0
    return True


# ------------------------------------------------------------------ laws
def ts_roundtrip(s: int, off_min: int) -> bool:
    """
    pre: -1440 < off_min < 1440 and WALL_LO <= s * US <= WALL_HI
    pre: part_ok(off_min, False)
    pre: finding_key(('timestamp',), off_min, False) not in KNOWN
    pre: H.fresh(s, off_min)
    post: _
    """
    o = mk_ts(off_min * 60 * US)
    d = yq.ev('datetime($s, $o)', s=s, o=o)
    ok = is_dt(d) and off_us(d) == off_min * 60 * US and inst(d) == s * US      # needs no utc/timestamp
    t = yq.ev('datetime($s, $o).timestamp', s=s, o=o)
    return H.done(ok and eq_num(t, s))


def ts_construct(s: int, us: int, off_min: int) -> bool:
    """
    pre: -1440 < off_min < 1440 and WALL_LO <= s * US <= WALL_HI and 0 <= us < US
    pre: H.fresh(s, us, off_min)
    post: _
    """
    # fractional timestamp: the instant is s seconds + us microseconds, shown at the requested offset
    o = mk_ts(off_min * 60 * US)
    d = yq.ev('datetime($s, $o)', s=s + us / 1000000.0, o=o)
    return H.done(is_dt(d) and off_us(d) == off_min * 60 * US and eq_us(inst(d), s * US + us))


def offset_history(s: int, o1: int, o2: int, how: int) -> bool:
    """
    pre: -1440 < o1 < 1440 and -1440 < o2 < 1440 and WALL_LO <= s * US <= WALL_HI and 0 <= how < 3
    pre: H.fresh(s, o1, o2, how)
    post: _
    """
    # what the process built before is part of the input: a value at offset o1 first, then the one under test at o2
    # (zones must not be remembered by anything coarser than their offset)
    a, b = mk_ts(o1 * 60 * US), mk_ts(o2 * 60 * US)
    if how == 0:
        yq.ev('datetime($s, $a)', s=s, a=a)
    elif how == 1:
        yq.ev('datetime(1970, 1, 1, offset => $a)', a=a)
    else:
        yq.ev('datetime($s, $a).utc.offset', s=s, a=a)
    d = yq.ev('datetime($s, $b)', s=s, b=b)
    return H.done(is_dt(d) and off_us(d) == o2 * 60 * US and inst(d) == s * US)


HIST_OFFSETS = [(0,), (60,), (90,), (30,), (-30,), (-90,), (-60,), (330,), (345,), (300,), (1439,), (1380,), (-1439,), (1,), (59,)]


def real_offset_history(i: int, j: int) -> bool:
    """
    pre: 0 <= i < len(HIST_OFFSETS) and 0 <= j < len(HIST_OFFSETS)
    post: _
    """
    # the same on REAL datetime/tzoffset objects: offsets that share their whole hour, one after the other
    o1, o2 = HIST_OFFSETS[i][0], HIST_OFFSETS[j][0]
    with H.NoTracing():
        S.uninstall()
        try:
            TD = datetime.timedelta
            yq.ev('datetime(1000, $a)', a=TD(minutes=int(o1)))
            d = yq.ev('datetime(1000, $b)', b=TD(minutes=int(o2)))
            e = yq.ev('datetime(2000, 2, 29, 12, offset => $b)', b=TD(minutes=int(o2)))
            ok = (d.utcoffset() == TD(minutes=int(o2)) and
                  d == datetime.datetime(1970, 1, 1, 0, 16, 40, tzinfo=datetime.timezone.utc) and
                  e.utcoffset() == TD(minutes=int(o2)) and e.replace(tzinfo=None) == datetime.datetime(2000, 2, 29, 12))
        finally:
            if not REAL:
                S.install()
    return H.done(ok)


def ts_inverse(wall: int, off_min: int, naive: bool, loc: int = 0) -> bool:
    """
    pre: dt_ok(wall, off_min) and part_ok(off_min, naive)
    pre: finding_key(('timestamp',), off_min, naive) not in KNOWN
    pre: loc_ok(loc)
    pre: H.fresh(wall, off_min, naive, loc)
    post: _
    """
    set_env(loc)
    d = mk_dt(wall, off_min, naive)
    r = yq.ev('datetime($d.timestamp, $d.offset)', d=d)
    return H.done(same_dt(r, wall, off_min, naive))


def utc_same_instant(wall: int, off_min: int, naive: bool, loc: int = 0) -> bool:
    """
    pre: dt_ok(wall, off_min) and part_ok(off_min, naive)
    pre: finding_key(('utc',), off_min, naive) not in KNOWN
    pre: loc_ok(loc)
    pre: H.fresh(wall, off_min, naive, loc)
    post: _
    """
    set_env(loc)
    d = mk_dt(wall, off_min, naive)
    u = yq.ev('$d.utc', d=d)
    exp_inst = wall - (0 if naive else off_min * 60 * US)
    return H.done(is_dt(u) and off_us(u) == 0 and inst(u) == exp_inst)


def timestamp_value(wall: int, off_min: int, naive: bool, loc: int = 0) -> bool:
    """
    pre: dt_ok(wall, off_min) and part_ok(off_min, naive)
    pre: finding_key(('timestamp',), off_min, naive) not in KNOWN
    pre: loc_ok(loc)
    pre: H.fresh(wall, off_min, naive, loc)
    post: _
    """
    set_env(loc)
    d = mk_dt(wall, off_min, naive)
    t = yq.ev('$d.timestamp', d=d)
    exp_inst = wall - (0 if naive else off_min * 60 * US)
    return H.done(eq_num(t * US, exp_inst) if REAL else t * US == exp_inst)


def offset_value(wall: int, off_min: int, naive: bool, loc: int = 0) -> bool:
    """
    pre: dt_ok(wall, off_min)
    pre: loc_ok(loc)
    pre: H.fresh(wall, off_min, naive, loc)
    post: _
    """
    set_env(loc)
    d = mk_dt(wall, off_min, naive)
    o = yq.ev('$d.offset', d=d)
    return H.done(is_ts(o) and S.us_of(o) == (0 if naive else off_min * 60 * US))


ADD_SUB = ['($d + $t) - $t', '($t + $d) - $t', '($d - $t) + $t', '$t + ($d - $t)']


def add_sub(wall: int, off_min: int, naive: bool, t: int, loc: int = 0) -> bool:
    """
    pre: dt_ok(wall, off_min) and WALL_LO <= wall + t <= WALL_HI and WALL_LO <= wall - t <= WALL_HI
    pre: loc_ok(loc)
    pre: H.fresh(wall, off_min, naive, t, loc)
    post: _
    """
    set_env(loc)
    d = mk_dt(wall, off_min, naive)
    ts = mk_ts(t)
    ok = True
    for text in ADD_SUB:
        ok = ok and same_dt(yq.ev(text, d=d, t=ts), wall, off_min, naive)
    moved = yq.ev('$d + $t', d=d, t=ts)
    ok = ok and same_dt(moved, wall + t, off_min, naive)
    r1 = yq.ev('($d + $t) - $d', d=d, t=ts)
    r2 = yq.ev('$d - ($d - $t)', d=d, t=ts)
    ok = ok and is_ts(r1) and S.us_of(r1) == t and is_ts(r2) and S.us_of(r2) == t
    return H.done(ok)


def difference(w1: int, o1: int, n1: bool, w2: int, o2: int, n2: bool, loc: int = 0) -> bool:
    """
    pre: dt_ok(w1, o1) and dt_ok(w2, o2)
    pre: loc_ok(loc)
    pre: H.fresh(w1, o1, n1, w2, o2, n2, loc)
    post: _
    """
    set_env(loc)
    # a - b is the difference of instants, whatever the two offsets; a naive operand counts as UTC
    a, b = mk_dt(w1, o1, n1), mk_dt(w2, o2, n2)
    r = yq.ev('$a - $b', a=a, b=b)
    exp = (w1 - (0 if n1 else o1 * 60 * US)) - (w2 - (0 if n2 else o2 * 60 * US))
    back = yq.ev('$b + ($a - $b)', a=a, b=b)
    return H.done(is_ts(r) and S.us_of(r) == exp and is_dt(back) and inst(back) == inst(a)
                  and off_us(back) == (0 if n2 else o2 * 60 * US))


CMP = {'<': lambda x, y: x < y, '<=': lambda x, y: x <= y, '>': lambda x, y: x > y, '>=': lambda x, y: x >= y,
       '=': lambda x, y: x == y, '!=': lambda x, y: x != y}
OP = H.P('op', '<')


def compare(w1: int, o1: int, n1: bool, w2: int, o2: int, n2: bool, loc: int = 0) -> bool:
    """
    pre: dt_ok(w1, o1) and dt_ok(w2, o2)
    pre: finding_key(('eq',) if OP in ('=', '!=') else (), o1, n1, n2) not in KNOWN
    pre: loc_ok(loc)
    pre: H.fresh(w1, o1, n1, w2, o2, n2, loc)
    post: _
    """
    set_env(loc)
    a, b = mk_dt(w1, o1, n1), mk_dt(w2, o2, n2)
    got = yq.ev('$a %s $b' % OP, a=a, b=b)
    i1 = w1 - (0 if n1 else o1 * 60 * US)
    i2 = w2 - (0 if n2 else o2 * 60 * US)
    return H.done(isinstance(got, bool) and got == CMP[OP](i1, i2))


def order_laws(w1: int, o1: int, n1: bool, w2: int, o2: int, n2: bool, loc: int = 0) -> bool:
    """
    pre: dt_ok(w1, o1) and dt_ok(w2, o2)
    pre: finding_key(('eq',), o1, n1, n2) not in KNOWN
    pre: loc_ok(loc)
    pre: H.fresh(w1, o1, n1, w2, o2, n2, loc)
    post: _
    """
    set_env(loc)
    # the six comparison operators are one total order on instants, consistent with subtraction
    a, b = mk_dt(w1, o1, n1), mk_dt(w2, o2, n2)
    r = {op: yq.ev('$a %s $b' % op, a=a, b=b) for op in CMP}
    ok = all(isinstance(v, bool) for v in r.values())
    ok = ok and (int(r['<']) + int(r['=']) + int(r['>']) == 1) and r['<='] == (r['<'] or r['=']) \
        and r['>='] == (r['>'] or r['=']) and r['!='] == (not r['='])
    ok = ok and r['<'] == yq.ev('$b > $a', a=a, b=b) and r['<='] == yq.ev('$b >= $a', a=a, b=b)
    ok = ok and r['<'] == yq.ev('($a - $b) < timespan()', a=a, b=b) and r['='] == yq.ev('($a - $b) = timespan()', a=a, b=b)
    return H.done(ok)


def utc_laws(wall: int, off_min: int, naive: bool, loc: int = 0) -> bool:
    """
    pre: dt_ok(wall, off_min) and part_ok(off_min, naive)
    pre: finding_key(('utc', 'timestamp'), off_min, naive) not in KNOWN
    pre: loc_ok(loc)
    pre: H.fresh(wall, off_min, naive, loc)
    post: _
    """
    set_env(loc)
    d = mk_dt(wall, off_min, naive)
    exp_inst = wall - (0 if naive else off_min * 60 * US)
    uu = yq.ev('$d.utc.utc', d=d)
    ok = is_dt(uu) and off_us(uu) == 0 and inst(uu) == exp_inst
    if not (naive and 'C20/naive-equality' in KNOWN):       # = / != between a naive and an aware value: listed class
        ok = ok and yq.ev('$d.utc = $d', d=d) is True and yq.ev('$d.utc != $d', d=d) is False
    ok = ok and yq.ev('$d.utc - $d', d=d) == mk_ts(0) and S.us_of(yq.ev('$d.utc.offset', d=d)) == 0
    ok = ok and eq_num(yq.ev('$d.utc.timestamp', d=d), yq.ev('$d.timestamp', d=d))
    return H.done(ok)


def add_assoc(wall: int, off_min: int, naive: bool, t1: int, t2: int, loc: int = 0) -> bool:
    """
    pre: dt_ok(wall, off_min) and WALL_LO <= wall + t1 <= WALL_HI and WALL_LO <= wall + t1 + t2 <= WALL_HI
    pre: -TS_RANGE < t1 < TS_RANGE and -TS_RANGE < t2 < TS_RANGE and -TS_RANGE < t1 + t2 < TS_RANGE
    pre: loc_ok(loc)
    pre: H.fresh(wall, off_min, naive, t1, t2, loc)
    post: _
    """
    set_env(loc)
    d, a, b = mk_dt(wall, off_min, naive), mk_ts(t1), mk_ts(t2)
    x = yq.ev('($d + $a) + $b', d=d, a=a, b=b)
    y = yq.ev('$d + ($a + $b)', d=d, a=a, b=b)
    z = yq.ev('($d + $a) - (-$b)', d=d, a=a, b=b)
    ok = same_dt(x, wall + t1 + t2, off_min, naive) and same_dt(y, wall + t1 + t2, off_min, naive) \
        and same_dt(z, wall + t1 + t2, off_min, naive)
    ok = ok and S.us_of(yq.ev('(($d + $a) + $b) - $d', d=d, a=a, b=b)) == t1 + t2
    return H.done(ok)


def ts_units(t: int) -> bool:
    """
    pre: -TS_RANGE < t < TS_RANGE
    pre: H.fresh(t)
    post: _
    """
    x = mk_ts(t)
    us = yq.ev('$t.microseconds', t=x)
    ms = yq.ev('$t.milliseconds', t=x)
    s = yq.ev('$t.seconds', t=x)
    m = yq.ev('$t.minutes', t=x)
    h = yq.ev('$t.hours', t=x)
    d = yq.ev('$t.days', t=x)
    ok = isinstance(us, int) and us == t
    ok = ok and eq_num(d * 24, h) and eq_num(h * 60, m) and eq_num(m * 60, s) and eq_num(s * 1000, ms) \
        and eq_num(ms * 1000, us)
    back = yq.ev('timespan(microseconds => $t.microseconds)', t=x)
    ok = ok and is_ts(back) and S.us_of(back) == t and yq.ev('timespan(microseconds => $t.microseconds) = $t', t=x) is True
    return H.done(ok)


def ts_build(days: int, hours: int, minutes: int, seconds: int, millis: int, micros: int) -> bool:
    """
    pre: -10**8 < days < 10**8 and -10**9 < hours < 10**9 and -10**10 < minutes < 10**10
    pre: -10**12 < seconds < 10**12 and -10**15 < millis < 10**15 and -10**18 < micros < 10**18
    pre: H.fresh(days, hours, minutes, seconds, millis, micros)
    post: _
    """
    r = yq.ev('timespan(days => $a, hours => $b, minutes => $c, seconds => $d, milliseconds => $e, '
              'microseconds => $f)', a=days, b=hours, c=minutes, d=seconds, e=millis, f=micros)
    exp = (((days * 24 + hours) * 60 + minutes) * 60 + seconds) * US + millis * 1000 + micros
    return H.done(is_ts(r) and S.us_of(r) == exp)      # .microseconds of a timespan: ts_units


def ts_arith(t1: int, t2: int) -> bool:
    """
    pre: -TS_RANGE < t1 < TS_RANGE and -TS_RANGE < t2 < TS_RANGE
    pre: -TS_RANGE < t1 + t2 < TS_RANGE and -TS_RANGE < t1 - t2 < TS_RANGE
    pre: H.fresh(t1, t2)
    post: _
    """
    a, b = mk_ts(t1), mk_ts(t2)
    ok = S.us_of(yq.ev('$a + $b', a=a, b=b)) == t1 + t2 and S.us_of(yq.ev('$a - $b', a=a, b=b)) == t1 - t2
    ok = ok and S.us_of(yq.ev('-$a', a=a)) == -t1 and S.us_of(yq.ev('+$a', a=a)) == t1
    for op, f in CMP.items():
        ok = ok and yq.ev('$a %s $b' % op, a=a, b=b) == f(t1, t2)
    return H.done(ok)


def ts_scale(t: int) -> bool:
    """
    pre: -10**20 < t < 10**20
    pre: H.fresh(t)
    post: _
    """
    n = H.P('n', 2)
    x = mk_ts(t)
    return H.done(S.us_of(yq.ev('$t * $n', t=x, n=n)) == t * n and S.us_of(yq.ev('$n * $t', t=x, n=n)) == t * n)


# ---- calendar-field laws on a concrete grid (symbolic indices only select; real datetimes; see OUTSIDE)
GRID_WALL = [0, -1, 86399999999, 951782400000000, 951868799999999, 1164126600000000, 1709210096123456,
             -62135337600000000 + MARGIN, 253402300799999999 - MARGIN, 1230768000000000, 1078099199000001]
GRID_OFF = [0, 180, -90, 1, -1439, 1439, 330]
if H.P('grid') == 'large':
    GRID_WALL = GRID_WALL + [w + d for w in (951782400000000, 1078099199000001, -2208988800000000, 4102444800000000)
                             for d in (-1, 0, 1, 43200000000, 86399999999)]
    GRID_OFF = GRID_OFF + [-180, 60, 765, -720]


def calendar_sel(i: int, j: int, naive: bool) -> bool:
    """
    pre: 0 <= i < len(GRID_WALL) and H.P('jlo', 0) <= j < min(H.P('jhi', 99), len(GRID_OFF))
    post: _
    """
    with H.NoTracing():
        S.uninstall()
        try:
            ok = calendar_law(GRID_WALL[int(i)], GRID_OFF[int(j)], bool(naive))
        finally:
            if not REAL:
                S.install()
    return H.done(ok)


def calendar_law(wall, off_min, naive):
    from dateutil import tz
    d = S.EPOCH_NAIVE + datetime.timedelta(microseconds=wall)
    if not naive:
        d = d.replace(tzinfo=tz.tzoffset(None, off_min * 60))
    f = [yq.ev('$d.' + n, d=d) for n in ('year', 'month', 'day', 'hour', 'minute', 'second', 'microsecond')]
    ok = f == [d.year, d.month, d.day, d.hour, d.minute, d.second, d.microsecond]
    ok = ok and yq.ev('$d.weekday', d=d) == d.weekday()
    date, time = yq.ev('$d.date', d=d), yq.ev('$d.time', d=d)
    exp_off = datetime.timedelta(0) if naive else datetime.timedelta(minutes=off_min)
    ok = ok and date.utcoffset() == exp_off and date.replace(tzinfo=None) == d.replace(
        hour=0, minute=0, second=0, microsecond=0, tzinfo=None)
    ok = ok and time == datetime.timedelta(hours=d.hour, minutes=d.minute, seconds=d.second, microseconds=d.microsecond)
    back = yq.ev('$d.date + $d.time', d=d)
    ok = ok and back.utcoffset() == exp_off and back.replace(tzinfo=None) == d.replace(tzinfo=None)
    rebuilt = yq.ev('datetime($d.year, $d.month, $d.day, $d.hour, $d.minute, $d.second, $d.microsecond, $d.offset)', d=d)
    ok = ok and rebuilt.utcoffset() == exp_off and rebuilt.replace(tzinfo=None) == d.replace(tzinfo=None)
    same = yq.ev('$d.replace(offset => $d.offset)', d=d)
    ok = ok and same.utcoffset() == exp_off and same.replace(tzinfo=None) == d.replace(tzinfo=None)
    return ok


# ---- exact laws on REAL datetime/timedelta objects from a boundary corpus (symbolic indices only select; the shim is
# out of the way): float precision of very long timespans, range ends of the C types
def real_timespans():
    TD = datetime.timedelta
    big = datetime.datetime.max - datetime.datetime.min
    return [TD(0), TD(microseconds=1), TD(microseconds=-1), TD(days=1, seconds=51945, milliseconds=5), TD(microseconds=29),
            TD(days=-3, microseconds=1), TD(days=100000, microseconds=1), TD(days=-100000, microseconds=999999),
            TD(microseconds=2 ** 53 - 1), TD(microseconds=2 ** 53 + 1), TD(microseconds=-(2 ** 53) - 1),
            TD(microseconds=2 ** 52 + 1), TD(days=104249, microseconds=3), TD(days=365 * 400, seconds=86399, microseconds=999999),
            big, -big, big - TD(microseconds=1), TD.max, TD.min, TD.max - TD(microseconds=2), TD(days=999999, microseconds=7),
            TD(days=3652058, seconds=86399, microseconds=999998), TD(hours=3), TD(minutes=-90)]


def real_datetimes():
    from dateutil import tz
    DT, TD = datetime.datetime, datetime.timedelta
    utc = tz.tzutc()
    return [DT(1, 1, 2, tzinfo=utc), DT(1, 1, 2, 0, 0, 0, 1, tzinfo=tz.tzoffset(None, 3600)), DT(9999, 12, 30, 23, 59, 59, 999999, tzinfo=utc),
            DT(9999, 12, 30, 12, 0, 0, 7, tzinfo=tz.tzoffset(None, -5400)), DT(1970, 1, 1, tzinfo=utc), DT(1, 1, 2, 0, 0, 0, 3),
            DT(9999, 12, 30, 23, 59, 59, 999999), DT(2000, 2, 29, 23, 59, 59, 999999, tzinfo=tz.tzoffset(None, 19800)),
            DT(1583, 1, 1, 0, 0, 0, 1, tzinfo=utc), DT(5000, 6, 15, 1, 2, 3, 456789),
            # host values in zones with daylight-saving rules, shortly before a change in either direction
            DT(2021, 3, 28, 0, 30, tzinfo=tz.tzstr('CET-1CEST,M3.5.0,M10.5.0/3')),
            DT(2021, 11, 7, 0, 30, 0, 5, tzinfo=tz.tzstr('EST5EDT,M3.2.0,M11.1.0'))]


def exact_us(t):
    return (t.days * 86400 + t.seconds) * US + t.microseconds


def real_ts_law(x):
    from fractions import Fraction
    us = exact_us(x)
    got = yq.ev('$x.microseconds', x=x)
    ok = type(got) is int and got == us
    back = yq.ev('timespan(microseconds => $x.microseconds)', x=x)
    ok = ok and back == x and yq.ev('timespan(microseconds => $x.microseconds) = $x', x=x) is True
    for name, unit in (('milliseconds', 10 ** 3), ('seconds', 10 ** 6), ('minutes', 6 * 10 ** 7), ('hours', 36 * 10 ** 8),
                       ('days', 864 * 10 ** 8)):
        v = yq.ev('$x.' + name, x=x)
        exact = Fraction(us, unit)
        ok = ok and isinstance(v, float) and abs(Fraction(v) - exact) <= abs(exact) * Fraction(1, 2 ** 51)
    if abs(us) < 4 * 10 ** 19:            # x + x stays in the range of the C type
        ok = ok and yq.ev('-(-$x) = $x', x=x) is True and yq.ev('($x + $x) - $x = $x', x=x) is True
    return ok


def real_dt_law(d, t):
    DT = datetime.datetime
    wall = d.replace(tzinfo=None)
    lo, hi = DT.min + datetime.timedelta(days=2), DT.max - datetime.timedelta(days=2)
    if not (lo - wall <= t <= hi - wall):
        return True                       # the sum leaves the year range: outside the claim
    r = yq.ev('($d + $t) - $t', d=d, t=t)
    ok = r.replace(tzinfo=None) == wall and r.utcoffset() == (d.utcoffset() or datetime.timedelta(0))
    if lo - wall <= -t <= hi - wall:
        ok = ok and yq.ev('$d - ($d - $t)', d=d, t=t) == t
    diff = yq.ev('($d + $t) - $d', d=d, t=t)
    ok = ok and diff == t and yq.ev('(($d + $t) - $d).microseconds', d=d, t=t) == exact_us(t)
    ok = ok and yq.ev('timespan(microseconds => (($d + $t) - $d).microseconds) = $t', d=d, t=t) is True
    return ok


def real_ts_sel(i: int) -> bool:
    """
    pre: 0 <= i < len(real_timespans())
    post: _
    """
    with H.NoTracing():
        S.uninstall()
        try:
            ok = real_ts_law(real_timespans()[int(i)])
        finally:
            if not REAL:
                S.install()
    return H.done(ok)


def real_dt_sel(i: int, j: int) -> bool:
    """
    pre: H.P('ilo', 0) <= i < min(H.P('ihi', 99), len(real_datetimes())) and 0 <= j < len(real_timespans())
    post: _
    """
    with H.NoTracing():
        S.uninstall()
        try:
            ok = real_dt_law(real_datetimes()[int(i)], real_timespans()[int(j)])
        finally:
            if not REAL:
                S.install()
    return H.done(ok)


# ------------------------------------------------------------------ probes of listed findings
def probe_utc_keeps_zone(wall: int, off_min: int) -> bool:
    """
    pre: dt_ok(wall, off_min) and off_min != 0
    post: _
    """
    d = mk_dt(wall, off_min, False)
    u = yq.ev('$d.utc', d=d)
    t = yq.ev('$d.timestamp', d=d)
    inst_d = wall - off_min * 60 * US
    return H.done(is_dt(u) and off_us(u) == 0 and inst(u) == inst_d and eq_num(t * US, inst_d))


def probe_naive_timestamp(wall: int) -> bool:
    """
    pre: dt_ok(wall, 0)
    post: _
    """
    d = mk_dt(wall, 0, True)
    got = yq.outcome('$d.timestamp', d=d)
    return H.done(got[0] == 'ok' and eq_num(got[1] * US, wall))


def probe_naive_equality(wall: int, off_min: int, swap: bool) -> bool:
    """
    pre: dt_ok(wall, off_min)
    post: _
    """
    a = mk_dt(wall, 0, True)
    b = mk_dt(wall + off_min * 60 * US, off_min, False)          # same instant
    if swap:
        a, b = b, a
    return H.done(yq.ev('$a = $b', a=a, b=b) is True and yq.ev('$a != $b', a=a, b=b) is False)


PROBES = {'C20/utc-keeps-zone': ('probe_utc_keeps_zone', 'aware datetimes with a non-zero offset: utc, timestamp'),
          'C20/naive-timestamp': ('probe_naive_timestamp', 'naive host datetimes: timestamp'),
          'C20/naive-equality': ('probe_naive_equality', 'naive host datetime = / != aware datetime, same instant')}


def conditions(tier, seed):
    q = tier == 'quick'
    t = 60 if q else 300
    dom = 'wall: all microseconds of years 1..9999; offset: all minutes in (-24h,24h); naive or aware'
    out = []

    def add(name, func, bounds, timeout=t, **param):
        out.append({'name': name, 'func': func, 'timeout': timeout, 'param': param, 'bounds': bounds})
    add('ts_roundtrip', 'ts_roundtrip', 'timestamp: all integer seconds in years 1..9999; offset all minutes')
    add('ts_construct', 'ts_construct', 'timestamp s + us/10^6 (exact rational), offset all minutes')
    add('offset_history', 'offset_history', 'a datetime built at offset o1 (three ways), then datetime(s, o2): both offsets '
        'all minutes in (-24h,24h), s all integer seconds', timeout=t * 2)
    add('real_offset_history', 'real_offset_history', 'selection: %d x %d REAL offsets (pairs sharing their whole hour, '
        'extremes), one built after the other in one process; each path is one concrete evaluation' % (len(HIST_OFFSETS), len(HIST_OFFSETS)),
        timeout=120)
    add('ts_inverse', 'ts_inverse', dom)
    add('utc_same_instant', 'utc_same_instant', dom)
    add('timestamp_value', 'timestamp_value', dom)
    add('offset_value', 'offset_value', dom)
    add('add_sub', 'add_sub', dom + '; timespan: all integer microseconds keeping the sum in range')
    add('difference', 'difference', 'two datetimes, each: ' + dom)
    for op in CMP:
        add('compare[%s]' % op, 'compare', 'two datetimes, each: ' + dom, op=op)
    add('order_laws', 'order_laws', 'two datetimes, each: ' + dom)
    add('utc_laws', 'utc_laws', dom)
    add('add_assoc', 'add_assoc', dom + '; two timespans, all integer microseconds keeping the sums in range')
    add('ts_units', 'ts_units', 'timespan: all integer microseconds, |t| < 10^9 days')
    add('ts_build', 'ts_build', 'six integer components of either sign (|days| < 10^8 ... |microseconds| < 10^18)')
    add('ts_arith', 'ts_arith', 'two timespans, all integer microseconds in range')
    for n in ([2, -3] if q else [0, 1, 2, -3, 1000, -10 ** 6]):
        add('ts_scale[%d]' % n, 'ts_scale', 'timespan all integer microseconds; factor %d' % n, n=n)
    if q:
        add('calendar_sel', 'calendar_sel', 'selection: %d wall clocks x %d offsets x naive/aware, real datetimes; each path '
            'is one concrete evaluation' % (len(GRID_WALL), len(GRID_OFF)), timeout=120)
    else:
        for jlo in range(0, len(GRID_OFF) + 4, 2):
            add('calendar_sel[%d]' % jlo, 'calendar_sel', 'selection: %d wall clocks x offsets #%d,#%d of the large grid x '
                'naive/aware, real datetimes; each path is one concrete evaluation' % (len(GRID_WALL) + 20, jlo, jlo + 1),
                timeout=600, grid='large', jlo=jlo, jhi=jlo + 2)
    add('real_ts_sel', 'real_ts_sel', 'selection: %d REAL timedelta objects (0, +-1us, 2**53+-1 us, centuries + 1us, '
        'timedelta.max/min, datetime.max - datetime.min ...): exact microseconds, exact round trip, unit properties within '
        '2**-51 relative of the exact rational; each path is one concrete evaluation' % len(real_timespans()), timeout=120)
    for ilo in range(0, len(real_datetimes()), 4):
        add('real_dt_sel[%d]' % ilo, 'real_dt_sel', 'selection: REAL datetimes #%d..#%d (year 1 / 9999 ends, naive and aware) x %d '
            'REAL timedeltas: (d+t)-t = d, (d+t)-d = t exactly; each path is one concrete evaluation'
            % (ilo, min(ilo + 3, len(real_datetimes()) - 1), len(real_timespans())), timeout=300 if q else 600, ilo=ilo, ihi=ilo + 4)
    for key, (func, what) in sorted(PROBES.items()):
        if key in KNOWN:
            out.append({'name': 'probe[%s]' % key.split('/')[1], 'func': func, 'timeout': 60, 'kind': 'probe',
                        'param': {'probe_key': key}, 'bounds': what})
    return out


# ------------------------------------------------------------------ validation of the shim against the C types
def validate():
    import itertools
    from dateutil import tz
    bad = []
    TD = datetime.timedelta
    walls = [0, -1, 1, 86399999999, 951782400000000, 1164126600000000, 1709210096123456, -50000000000000001,
             GRID_WALL[7], GRID_WALL[8]]
    offs = [None, 0, 180, -90, 1439, -1439, 1]
    tds = [0, 1, -1, 999999, 10 ** 6, -86400 * 10 ** 6 - 1, 138345005000, 3 * 3600 * 10 ** 6, -7]

    def real_dt(w, o):
        d = S.EPOCH_NAIVE + TD(microseconds=w)
        return d if o is None else d.replace(tzinfo=tz.tzoffset(None, o * 60))

    def shim_dt(w, o):
        return S.SDT.of(w, None if o is None else S.STZ(o * 60 * US))

    def canon(v):
        if isinstance(v, datetime.datetime):
            s = S.as_sdt(v)
            return ('dt', s.wall, None if s.tz is None else s.tz.off_us)
        if isinstance(v, TD):
            return ('td', S.us_of(v))
        if isinstance(v, float):
            return ('f', round(v, 6))
        return v

    def both(what, f_real, f_shim):
        def run(f):
            try:
                return canon(f())
            except Exception as e:
                return ('exc', type(e).__name__)
        a, b = run(f_real), run(f_shim)
        if a != b:
            bad.append('shim disagrees with the C type on %s: real %r shim %r' % (what, a, b))

    # 1. the shim classes against datetime/timedelta directly
    for u in tds:
        r, s = TD(microseconds=u), S.STD.of(u)
        both('td fields %d' % u, lambda: (r.days, r.seconds, r.microseconds, r.total_seconds(), bool(r)),
             lambda: (s.days, s.seconds, s.microseconds, s.total_seconds(), bool(s)))
        for u2 in tds[:5]:
            r2, s2 = TD(microseconds=u2), S.STD.of(u2)
            both('td arith %d %d' % (u, u2), lambda: (canon(r + r2), canon(r - r2), canon(-r), r < r2, r <= r2, r == r2, r != r2),
                 lambda: (canon(s + s2), canon(s - r2), canon(-s), s < s2, s <= r2, s == s2, s != r2))
    both('td ctor', lambda: TD(days=1, hours=2, minutes=3, seconds=4, milliseconds=5, microseconds=-6),
         lambda: S.STD(days=1, hours=2, minutes=3, seconds=4, milliseconds=5, microseconds=-6))
    both('td ctor float', lambda: TD(microseconds=2.5), lambda: S.STD(microseconds=2.5))
    both('td ctor float2', lambda: TD(microseconds=-1234567.5), lambda: S.STD(microseconds=-1234567.5))
    for (w, o), (w2, o2) in itertools.product(itertools.product(walls[:7], offs[:5]), itertools.product(walls[:4], offs[:4])):
        r, s, r2, s2 = real_dt(w, o), shim_dt(w, o), real_dt(w2, o2), shim_dt(w2, o2)
        both('dt - dt %r %r' % ((w, o), (w2, o2)), lambda: r - r2, lambda: s - s2)
        both('dt - real dt', lambda: r - r2, lambda: s - r2)
        both('dt cmp %r %r' % ((w, o), (w2, o2)), lambda: (r == r2, r != r2), lambda: (s == s2, s != s2))
        both('dt < %r %r' % ((w, o), (w2, o2)), lambda: (r < r2, r <= r2, r > r2, r >= r2),
             lambda: (s < s2, s <= s2, s > s2, s >= r2))
    for w, o in itertools.product(walls, offs):
        r, s = real_dt(w, o), shim_dt(w, o)
        both('utcoffset', lambda: r.utcoffset(), lambda: s.utcoffset())
        both('fields', lambda: (r.year, r.month, r.day, r.hour, r.minute, r.second, r.microsecond, r.weekday()),
             lambda: (s.year, s.month, s.day, s.hour, s.minute, s.second, s.microsecond, s.weekday()))
        both('replace tz', lambda: r.replace(tzinfo=tz.tzutc()), lambda: s.replace(tzinfo=tz.tzutc()))
        both('replace tz none', lambda: r.replace(tzinfo=None), lambda: s.replace(tzinfo=None))
        both('replace field', lambda: r.replace(year=2001, minute=7), lambda: s.replace(year=2001, minute=7))
        if o is not None:
            both('astimezone', lambda: r.astimezone(tz.tzoffset(None, 5400)), lambda: s.astimezone(tz.tzoffset(None, 5400)))
            both('astimezone utc', lambda: r.astimezone(tz.tzutc()), lambda: s.astimezone(tz.tzutc()))
            both('strftime', lambda: r.strftime('%Y-%m-%d %H:%M:%S.%f %z'), lambda: s.strftime('%Y-%m-%d %H:%M:%S.%f %z'))
        for u in tds:
            both('dt + td', lambda: r + TD(microseconds=u), lambda: s + S.STD.of(u))
            both('td + dt', lambda: TD(microseconds=u) + r, lambda: S.STD.of(u) + s)
            both('dt - td', lambda: r - TD(microseconds=u), lambda: s - TD(microseconds=u))
        both('dt - None', lambda: r - None, lambda: s - None)
    for ts in (0, 1000, 1164126600, 1000.5, -1.25, 1709210096.123456, 253402300799 - 300000):
        for o in (0, 180, -90, 1439):
            both('fromtimestamp %r %r' % (ts, o), lambda: datetime.datetime.fromtimestamp(ts, tz.tzoffset(None, o * 60)),
                 lambda: S.SDT.fromtimestamp(ts, S.TZShim.tzoffset(None, o * 60.0)))
    both('ctor', lambda: datetime.datetime(2006, 11, 21, 16, 30, 2, 123, tz.tzoffset(None, 10800)),
         lambda: S.SDT(2006, 11, 21, 16, 30, 2, 123, S.TZShim.tzoffset(None, 10800.0)))

    # 1b. the model of the process-local zone (naive.astimezone, fromtimestamp without zone) against the C library
    import os
    import time
    old_tz = os.environ.get('TZ')
    try:
        for name, minutes in (('IST-5:30', 330), ('XYZ+3:15', -195)):
            os.environ['TZ'] = name
            time.tzset()
            S.set_local(minutes * 60 * US)
            for w in walls[:7]:
                r, s = real_dt(w, None), shim_dt(w, None)
                both('naive.astimezone(utc) under TZ=%s' % name, lambda: r.astimezone(tz.tzutc()), lambda: s.astimezone(tz.tzutc()))
                both('naive.astimezone(+90) under TZ=%s' % name, lambda: r.astimezone(tz.tzoffset(None, 5400)),
                     lambda: s.astimezone(tz.tzoffset(None, 5400)))
            both('fromtimestamp local under TZ=%s' % name, lambda: datetime.datetime.fromtimestamp(1164126600),
                 lambda: S.SDT.fromtimestamp(1164126600))
    finally:
        if old_tz is None:
            os.environ.pop('TZ', None)
        else:
            os.environ['TZ'] = old_tz
        time.tzset()
        S.set_local(0)

    # 2. the yaql functions on shim values against the same functions on real values (includes the repo's test inputs)
    exprs = ['$d.timestamp', '$d.utc', '$d.offset', '$d + $t', '$t + $d', '$d - $t', '$d - $e', '$d < $e', '$d <= $e',
             '$d > $e', '$d >= $e', '$d = $e', '$d != $e', '$d.date', '$d.time', '$d.year', '$d.weekday',
             'datetime($d.timestamp, $d.offset)', '$t.days', '$t.hours', '$t.minutes', '$t.seconds', '$t.milliseconds',
             '$t.microseconds', '-$t', '$t * 2', '2.1 * $t', '$t / 2.1', '$t / $t2', '$t + $t2', '$t - $t2', '$t > $t2',
             'datetime(1164126600)', 'datetime(1000, timespan(hours => 3))', 'datetime(2015, 8, 29)',
             'datetime(2006, 11, 21, 16, 30, offset => timespan(hours => 3)).utc.hour',
             'datetime(2006, 11, 21, 16, 30, offset => timespan(hours => 3)).offset.hours',
             'timespan(days => 1, hours => 2, minutes => 3, seconds => 4, milliseconds => 5, microseconds => -6)',
             '$d.replace(year => 2009, minute => 40)', '$d.replace(offset => timespan(minutes => 90))',
             'isDatetime($d)', 'isTimespan($t)', 'isDatetime($t)', 'utctz()', 'datetime("2008-09-03T20:56:35.450686+03:00")']
    cases = [((1164126600000000, 0), (1164126600000001, 180), 138345005000, 7),
             ((1709210096123456, 180), (0, None), -1, 10 ** 6),
             ((951782400000000, None), (951782400000000, -90), 3 * 3600 * 10 ** 6, -5)]
    real_res = {}
    for ci, (da, ea, tu, t2u) in enumerate(cases):
        for x in exprs:
            real_res[ci, x] = yq.outcome(x, d=real_dt(*da), e=real_dt(*ea), t=TD(microseconds=tu), t2=TD(microseconds=t2u))
    S.install()
    try:
        for ci, (da, ea, tu, t2u) in enumerate(cases):
            for x in exprs:
                got = yq.outcome(x, d=shim_dt(*da), e=shim_dt(*ea), t=S.STD.of(tu), t2=S.STD.of(t2u))
                a = tuple(canon(v) for v in real_res[ci, x])
                b = tuple(canon(v) for v in got)
                if a != b:
                    bad.append('yaql on shim values disagrees with yaql on real values for %s, case %d: real %r shim %r'
                               % (x, ci, a, b))
        from yaql.standard_library import date_time as dtm
        left = [k for k, v in vars(dtm).items() if S.shim_of(v) is not None]
        if left:
            bad.append('install() left real datetime machinery in date_time globals: %r' % left)
    finally:
        S.uninstall()
    return bad[:6]


# ------------------------------------------------------------------ replay with REAL datetime objects
def replay(cond, args):
    import props.c20 as me
    assert me.REAL
    fn = getattr(me, cond['func'])
    vals = dict(args)
    if vals.get('loc'):
        # the counterexample names a process-local zone: this fresh replay process gets exactly that zone
        import os
        import time
        loc = vals['loc']
        os.environ['TZ'] = 'LOC%s%d:%02d' % ('-' if loc > 0 else '+', abs(loc) // 60, abs(loc) % 60)
        time.tzset()
    p = cond.get('param') or {}
    try:
        ok = fn(**vals)
        err = None
    except Exception as e:
        ok, err = False, e
    if ok:
        return {'reproduced': False}
    f = cond['func']
    off, naive = vals.get('off_min', vals.get('o1', 0)), vals.get('naive', vals.get('n1', False))
    uses = {'ts_roundtrip': ('timestamp',), 'ts_inverse': ('timestamp',), 'timestamp_value': ('timestamp',),
            'utc_same_instant': ('utc',), 'probe_utc_keeps_zone': ('utc',), 'probe_naive_timestamp': ('timestamp',),
            'compare': ('eq',) if p.get('op') in ('=', '!=') else (), 'probe_naive_equality': ('eq',),
            'order_laws': ('eq',), 'utc_laws': ('utc', 'timestamp')}.get(f, ())
    if f == 'probe_naive_timestamp':
        naive = True
    if f == 'probe_naive_equality':
        key = 'C20/naive-equality'
    else:
        key = finding_key(uses, off, naive, vals.get('n2'))
        if f == 'utc_laws' and key is None and naive:
            key = 'C20/naive-equality'
    what = describe(f, p, vals, err)
    if vals.get('loc'):
        what += ' [process-local zone UTC%+d min (TZ=%s)]' % (vals['loc'], os.environ['TZ'])
    if f == 'real_ts_sel':
        x = real_timespans()[vals['i']]
        what = 'real timespan %r: .microseconds -> %r (exact %d); timespan(microseconds => x.microseconds) = x -> %r' % (
            x, yq.outcome('$x.microseconds', x=x), exact_us(x), yq.outcome('timespan(microseconds => $x.microseconds) = $x', x=x))
    if f == 'real_dt_sel':
        d, t = real_datetimes()[vals['i']], real_timespans()[vals['j']]
        what = 'real d=%r t=%r: ($d + $t) - $d -> %r; (($d + $t) - $d).microseconds -> %r (exact %d)' % (
            d, t, yq.outcome('($d + $t) - $d', d=d, t=t), yq.outcome('(($d + $t) - $d).microseconds', d=d, t=t), exact_us(t))
    return {'reproduced': True, 'key': key or 'C20/%s' % f, 'what': what}


def describe(f, p, vals, err):
    """one line with the real objects"""
    try:
        if 'wall' in vals:
            d = mk_dt(vals['wall'], vals.get('off_min', 0), vals.get('naive', f in ('probe_naive_timestamp', 'probe_naive_equality')))
            obs = {x: yq.outcome(x, d=d) for x in ('$d.utc', '$d.timestamp')}
            return '%s: d=%r: %s%s' % (f, d, '; '.join('%s -> %r' % kv for kv in obs.items()),
                                       ' (%r)' % err if err else '')
        if f in ('offset_history', 'real_offset_history'):
            if f == 'real_offset_history':
                o1, o2, sec = HIST_OFFSETS[vals['i']][0], HIST_OFFSETS[vals['j']][0], 1000
            else:
                o1, o2, sec = vals['o1'], vals['o2'], vals['s']
            a, b = mk_ts(o1 * 60 * US), mk_ts(o2 * 60 * US)
            first = yq.outcome('datetime($s, $a)', s=sec, a=a)
            return 'after building %r in the same process, datetime(%d, %r) -> %r (asked for offset %d min)' % (
                first, sec, b, yq.outcome('datetime($s, $b)', s=sec, b=b), o2)
        if f == 'ts_roundtrip':
            o = mk_ts(vals['off_min'] * 60 * US)
            return 'datetime(%d, %r).timestamp -> %r, expected %d' % (
                vals['s'], o, yq.outcome('datetime($s, $o).timestamp', s=vals['s'], o=o), vals['s'])
        if 'w1' in vals:
            a, b = mk_dt(vals['w1'], vals['o1'], vals['n1']), mk_dt(vals['w2'], vals['o2'], vals['n2'])
            op = p.get('op', '-')
            return '%r %s %r -> %r (instants %d, %d)' % (a, op, b, yq.outcome('$a %s $b' % op, a=a, b=b), inst(a), inst(b))
    except Exception as e:      # description only
        return '%s fails for %r (%r; %r)' % (f, vals, err, e)
    return '%s fails for %r%s' % (f, vals, ' (%r)' % err if err else '')
