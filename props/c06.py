"""C06 - resolution does not depend on registration or iteration order.

Real code run symbolically: runner.choose_overload and runner._is_specialization_of, driven with candidate stubs
(symbolic map/delegate/laziness/no_kwargs answers, symbolic specialization matrices constrained to strict partial
orders, symbolic layer assignment); relational assertion: outcome under a symbolic enumeration order == outcome
under the identity order.  Replay: real overloads, real contexts, real engine, enumeration order imposed by a
Context subclass whose get_functions returns an ordered list.
"""
from vf import h as H
from props import c05_sel as X

ID = 'C06'
SHARD_P = H.P('perm')          # fixed permutation index for this shard (None: symbolic)
SHARD_RECV = H.P('recv')
KNOWN = set(H.P('known', ()))
FUNCTIONS_ENCODED = ['yaql.language.runner.choose_overload', 'yaql.language.runner._is_specialization_of',
                     'yaql.language.runner.translate_args']
BOUNDS = {'quick': '3 candidates, 1-2 argument positions, <=3 layers, all 6 enumeration orders, with/without receiver',
          'thorough': 'same plus 2 positions with independent partial orders in every shard'}
OUTSIDE = ['more than 3 simultaneous candidates', 'keyword arguments in the call', 'Super/Delegate re-entry',
           'process-to-process variation is reduced to enumeration order by reading (Context stores overloads in a set)']
ASSUMPTIONS = ['stub contract: is_specialization_of answers form a strict partial order per argument position (the contract '
               'of a subtype lattice; PythonType uses issubclass)', 'a method\'s receiver parameter is never lazy '
               '(FunctionDefinition.is_valid_method)', 'map_args/get_delegate answers are arbitrary booleans (over-approximation)']
EXPLANATION = ('For one symbolic family of overloads and call, the real choose_overload is executed under a symbolic '
               'permutation of the enumeration order and under the identity order; z3 must prove the two outcomes equal on '
               'every path. No reference model is involved, so a counterexample is order dependence by definition; it is '
               'rebuilt with real overloads and replayed through the real engine under both orders.')
TECHNIQUE = 'bounded symbolic execution (CrossHair+z3) of choose_overload with contract-constrained stubs; relational (2-run) assertion; replay with real overloads'


def family(s, m, d, z, k, l, npos):
    S = [X.mat3(*s[6 * p:6 * p + 6]) for p in range(npos)]
    lazy = [[z[i * npos + p] for p in range(npos)] for i in range(3)]
    return S, list(m), list(d), lazy, list(k), list(l)


LAYERS = H.P('layers', [0, 0, 0])     # concrete per shard; candidates are labelled in layer order (WLOG: every other
#                                        # answer of a candidate is symbolic, so relabelling loses nothing)


def pre_ok(S, lazy, p, recv):
    if not (0 <= p < 6):
        return False
    if SHARD_P is not None and p != SHARD_P:
        return False
    if SHARD_RECV is not None and recv != SHARD_RECV:
        return False
    for M in S:
        if not X.strict_po(M):
            return False
    if recv and any(row[0] for row in lazy):
        return False
    return True


def order_core(s01: bool, s02: bool, s10: bool, s12: bool, s20: bool, s21: bool,
               m0: bool, m1: bool, m2: bool, d0: bool, d1: bool, d2: bool, p: int, recv: bool) -> bool:
    """
    pre: pre_ok([X.mat3(s01, s02, s10, s12, s20, s21)], [[False]], p, recv)
    pre: H.fresh(s01, s02, s10, s12, s20, s21, m0, m1, m2, d0, d1, d2, p, recv)
    post: _
    """
    fam = fam1(s01, s02, s10, s12, s20, s21, m0, m1, m2, d0, d1, d2, False, False, False, False, False, False, recv)
    a, _ = X.run(*fam, X.PERMS3[p], recv)
    b, _ = X.run(*fam, X.PERMS3[0], recv)
    return H.done(a == b)


def order_flags(m0: bool, m1: bool, m2: bool, d0: bool, d1: bool, d2: bool,
                z0: bool, z1: bool, z2: bool, k0: bool, k1: bool, k2: bool, p: int, recv: bool) -> bool:
    """
    pre: pre_ok([], [[z0], [z1], [z2]] if not recv else [[False]], p, recv)
    pre: H.fresh(m0, m1, m2, d0, d1, d2, z0, z1, z2, k0, k1, k2, p, recv)
    post: _
    """
    fam = fam1(False, False, False, False, False, False, m0, m1, m2, d0, d1, d2, z0, z1, z2, k0, k1, k2, recv)
    kw = bool(H.P('kwcall'))
    a, _ = X.run(*fam, X.PERMS3[p], recv, kw)
    b, _ = X.run(*fam, X.PERMS3[0], recv, kw)
    return H.done(a == b)


def order_2pos(a01: bool, a02: bool, a10: bool, a12: bool, a20: bool, a21: bool,
               b01: bool, b02: bool, b10: bool, b12: bool, b20: bool, b21: bool, d2: bool, p: int) -> bool:
    """
    pre: 0 <= p < 6 and (SHARD_P is None or p == SHARD_P)
    pre: X.strict_po(X.mat3(a01, a02, a10, a12, a20, a21)) and X.strict_po(X.mat3(b01, b02, b10, b12, b20, b21))
    pre: H.fresh(a01, a02, a10, a12, a20, a21, b01, b02, b10, b12, b20, b21, d2, p)
    post: _
    """
    S = [X.mat3(a01, a02, a10, a12, a20, a21), X.mat3(b01, b02, b10, b12, b20, b21)]
    fam = (3, 2, S, [True, True, True], [True, True, d2], [[False, False]] * 3, [False] * 3, [0, 0, 0])
    x, _ = X.run(*fam, X.PERMS3[p], False)
    y, _ = X.run(*fam, X.PERMS3[0], False)
    return H.done(x == y)


def registration_order(e0: bool, e1: bool, e2: bool, t0: bool, t1: bool, t2: bool, p: int, recv: bool) -> bool:
    """
    pre: 0 <= p < 6
    post: _
    """
    # real contexts: the same overloads with the same exclusive flags registered in two different orders must give the
    # same layers (collect_functions) and the same call outcome
    from yaql.language import contexts, exceptions, specs
    from props import c05_bind as B
    TF = [(False,), (True,)]
    excl = [TF[int(e0)][0], TF[int(e1)][0], TF[int(e2)][0]]          # realised: one path per combination
    typed = [TF[int(t0)][0], TF[int(t1)][0], TF[int(t2)][0]]
    recv = TF[int(recv)][0]
    layers = list(LAYERS)
    order = X.PERMS3[p]

    def build(reg_order):
        nl = max(layers) + 1
        chain = []
        parent = B.ROOT
        for lv in range(nl):
            parent = contexts.Context(parent)
            chain.insert(0, parent)
        fds = []
        for i in range(3):
            def payload(x, _i=i):
                return ('ran', _i)
            fd = specs.get_function_definition(payload, name='f', method=True)
            fd.set_parameter('x', int if typed[i] else str, overwrite=True)
            fd.meta['cid'] = i
            fds.append(fd)
        for i in reg_order:
            chain[layers[i]].register_function(fds[i], exclusive=excl[i])
        shape = [sorted(fd.meta['cid'] for fd in layer) for layer in chain[0].collect_functions('f')]
        try:
            got = chain[0]('f', B.ENG, receiver=1)() if recv else chain[0]('f', B.ENG)(1)
        except (exceptions.NoMatchingFunctionException, exceptions.NoMatchingMethodException,
                exceptions.AmbiguousFunctionException, exceptions.AmbiguousMethodException) as e:
            got = type(e).__name__
        return shape, got
    with H.NoTracing():
        ok = build(order) == build(X.PERMS3[0])
    return H.done(ok)


HIST_SIGS = [((int, None), (object, 0)), ((object, None), (int, 0)), ((int, None), (int, 0)), ((object, None), (object, 0)),
             ((str, None), (object, 0)), ((int, None),)]        # parameter (type, default or None = required)
HIST_CALLS = ['f(1)', 'f(1, 2)', "f('s')", "f(1, 's')", 'f(a => 1)', 'f(1, b => 2)']
HBOX = [(n,) for n in range(8)]


def call_history(s0: int, s1: int, s2: int, c1: int, c2: int, p: int) -> bool:
    """
    pre: 0 <= s0 < 5 and 0 <= s1 < 5 and 4 <= s2 < 6
    pre: 0 <= c1 < len(HIST_CALLS) and 0 <= c2 < len(HIST_CALLS) and p in H.P('perms', (0, 5)) and (H.P('c1') is None or c1 == H.P('c1'))
    post: _
    """
    # three REAL overloads with optional parameters in one layer; call c1, then call c2 through the same context: the
    # outcome of c2 is the one it has on a freshly built family, in every enumeration order (the choice is a function
    # of the overload set and the call, not of earlier calls)
    from yaql.language import contexts, exceptions, specs
    from props import c05_bind as B
    sig = [HBOX[s0][0], HBOX[s1][0], HBOX[s2][0]]
    k1, k2, order = HBOX[c1][0], HBOX[c2][0], X.PERMS3[HBOX[p][0]]
    with H.NoTracing():
        class OrderedContext(contexts.Context):
            seq = None

            def get_functions(self, name, predicate=None, use_convention=False):
                fs, excl = super().get_functions(name, predicate, use_convention)
                return sorted(fs, key=lambda fd: self.seq.index(fd.meta.get('cid', 0)) if 'cid' in fd.meta else 99), excl

        def family(seq):
            ctx = OrderedContext(B.ROOT)
            ctx.seq = list(seq)
            for i in range(3):
                ps = HIST_SIGS[sig[i]]
                if len(ps) == 2:
                    def payload(a, b=0, _i=i):
                        return ('ran', _i)
                else:
                    def payload(a, _i=i):
                        return ('ran', _i)
                fd = specs.get_function_definition(payload, name='f')
                for pn, (tp, dflt) in zip('ab', ps):
                    fd.set_parameter(pn, tp, overwrite=True)
                fd.meta['cid'] = i
                ctx.register_function(fd)
            return ctx

        def call(ctx, text):
            try:
                return B.ENG(text).evaluate(context=ctx.create_child_context())
            except (exceptions.NoMatchingFunctionException, exceptions.NoMatchingMethodException,
                    exceptions.AmbiguousFunctionException, exceptions.AmbiguousMethodException) as e:
                return type(e).__name__
        alone = call(family(X.PERMS3[0]), HIST_CALLS[k2])
        ctx = family(order)
        call(ctx, HIST_CALLS[k1])
        ok = call(ctx, HIST_CALLS[k2]) == alone and call(ctx, HIST_CALLS[k1]) == call(family(X.PERMS3[0]), HIST_CALLS[k1])
    return H.done(ok)


TYPES3 = [(int, 'int'), (object, 'object'), (str, 'str')]


def real_order(t0: int, t1: int, t2: int, p: int, bykw: bool, recv: bool) -> bool:
    """
    pre: 0 <= t0 < 3 and 0 <= t1 < 3 and 0 <= t2 < 3 and 0 <= p < 6
    post: _
    """
    # REAL overloads (real map_args/get_delegate/PythonType) in one layer whose enumeration order is imposed by a Context
    # subclass; call f(1) positionally or as f(x => 1): the outcome must not depend on the enumeration order
    from yaql.language import contexts, exceptions, specs
    from props import c05_bind as B
    tt = [N3[t0][0], N3[t1][0], N3[t2][0]]
    order, bykw, recv = X.PERMS3[p], TF2[int(bykw)][0], TF2[int(recv)][0]
    with H.NoTracing():
        class OrderedContext(contexts.Context):
            seq = None

            def get_functions(self, name, predicate=None, use_convention=False):
                fs, excl = super().get_functions(name, predicate, use_convention)
                return sorted(fs, key=lambda fd: self.seq.index(fd.meta.get('cid', 0)) if 'cid' in fd.meta else 99), excl

        def outcome(seq):
            ctx = OrderedContext(B.ROOT)
            ctx.seq = list(seq)
            for i in range(3):
                def payload(x, _i=i):
                    return ('ran', _i)
                fd = specs.get_function_definition(payload, name='f', method=True)
                fd.set_parameter('x', TYPES3[tt[i]][0], overwrite=True)
                fd.meta['cid'] = i
                ctx.register_function(fd)
            c = ctx.create_child_context()
            c['v'] = 1
            text = ('$v.f()' if recv else ('f(x => $v)' if bykw else 'f($v)'))
            try:
                return B.ENG(text).evaluate(context=c)
            except (exceptions.NoMatchingFunctionException, exceptions.NoMatchingMethodException,
                    exceptions.AmbiguousFunctionException, exceptions.AmbiguousMethodException) as e:
                return type(e).__name__
        ok = outcome(order) == outcome(X.PERMS3[0])
    return H.done(ok)


N3 = [(0,), (1,), (2,)]
TF2 = [(False,), (True,)]


def multi_order(t0: int, t1: int, e0: bool, e1: bool, k0: int, k1: int) -> bool:
    """
    pre: 0 <= t0 < 3 and 0 <= t1 < 3 and 0 <= k0 < 3 and 0 <= k1 < 3
    post: _
    """
    # the order of the members of a MultiContext is an enumeration order too: MultiContext([A, B]) and ([B, A]) must give
    # the same layer (same overloads, same exclusivity) and the same call outcome; also one callable registered twice
    # (function form and method form) must be callable both ways whatever the registration order
    from yaql.language import contexts, exceptions, specs
    from props import c05_bind as B
    t0, t1, k0, k1 = N3[t0][0], N3[t1][0], N3[k0][0], N3[k1][0]
    e0, e1 = TF2[int(e0)][0], TF2[int(e1)][0]
    with H.NoTracing():
        def payload(x):
            return 'shared-payload'

        def build(swap, reg_swap):
            parent = contexts.Context(B.ROOT)

            def pp(x):
                return 'parent'
            parent.register_function(pp, name='f')
            A, Bc = contexts.Context(parent), contexts.Context(parent)
            defs = []
            for (ctx, t, e, kind, tag) in ((A, t0, e0, k0, 'A'), (Bc, t1, e1, k1, 'B')):
                def pl(x, _tag=tag):
                    return _tag
                fd = specs.get_function_definition(pl, name='f')
                fd.set_parameter('x', TYPES3[t][0], overwrite=True)
                fd.is_function, fd.is_method = kind in (0, 2), kind in (1, 2)
                defs.append((ctx, fd, e))
            # one callable registered twice in A: as a function and as a method
            f1 = specs.get_function_definition(payload, name='g', function=True, method=False)
            f2 = specs.get_function_definition(payload, name='g', function=False, method=True)
            regs = [(lambda: A.register_function(f1)), (lambda: A.register_function(f2))]
            for r in (reversed(regs) if reg_swap else regs):
                r()
            for ctx, fd, e in (reversed(defs) if reg_swap else defs):
                ctx.register_function(fd, exclusive=e)
            m = contexts.MultiContext([Bc, A] if swap else [A, Bc])
            out = []
            fs, ex = m.get_functions('f')
            out.append((sorted(fd.payload('x') for fd in fs), ex))
            out.append([sorted(fd.payload('x') for fd in layer) for layer in m.collect_functions('f')])
            for text in ('f(1)', '1.f()', "f('s')", 'g(1)', '1.g()'):
                try:
                    out.append(B.ENG(text).evaluate(context=m.create_child_context()))
                except Exception as e:
                    out.append(type(e).__name__)
            return out
        base = build(False, False)
        ok = build(True, False) == base and build(False, True) == base and build(True, True) == base
    return H.done(ok)


def fam1(s01, s02, s10, s12, s20, s21, m0, m1, m2, d0, d1, d2, z0, z1, z2, k0, k1, k2, recv):
    npos = 2 if recv else 1      # with a receiver there is one more position (the receiver itself)
    z = [z0, z1, z2]
    if recv:
        S = [X.mat3(False, False, False, False, False, False), X.mat3(s01, s02, s10, s12, s20, s21)]
        lazy = [[False, z[i]] for i in range(3)]
    else:
        S = [X.mat3(s01, s02, s10, s12, s20, s21)]
        lazy = [[z[i]] for i in range(3)]
    return (3, npos, S, [m0, m1, m2], [d0, d1, d2], lazy, [k0, k1, k2], list(LAYERS))


# (layer pattern, enumeration orders that differ from the identity *inside* a layer)
SHARDS = [([0, 0, 0], [1, 2, 3, 4, 5]), ([0, 0, 1], [2]), ([0, 1, 1], [1])]


def conditions(tier, seed):
    out = []
    t = 150 if tier == 'quick' else 600
    for layers, perms in SHARDS:
        for p in perms:
            for recv in (False, True):
                tag = '[layers=%s,perm=%d,recv=%s]' % (''.join(map(str, layers)), p, recv)
                out.append({'name': 'order_core' + tag, 'func': 'order_core', 'timeout': t,
                            'param': {'perm': p, 'recv': recv, 'layers': layers},
                            'bounds': '3 candidates in layers %s, enumeration order %s vs identity, symbolic strict partial '
                                      'order of specialization, symbolic map_args/get_delegate answers' % (
                                          layers, X.PERMS3[p])})
                if not recv:
                    out.append({'name': 'order_flags_kw' + tag, 'func': 'order_flags', 'timeout': t,
                                'param': {'perm': p, 'recv': recv, 'layers': layers, 'kwcall': True},
                                'bounds': 'as order_flags, the call passes its last argument by keyword (k1 => ...)'})
                out.append({'name': 'order_flags' + tag, 'func': 'order_flags', 'timeout': t,
                            'param': {'perm': p, 'recv': recv, 'layers': layers},
                            'bounds': '3 candidates in layers %s, enumeration order %s vs identity, no specialization, '
                                      'symbolic map_args/get_delegate/lazy-position/no_kwargs answers' % (
                                          layers, X.PERMS3[p])})
    out.append({'name': 'real_order', 'func': 'real_order', 'timeout': t,
                'bounds': '3 real overloads typed int/object/str (symbolic choice) in one layer, all 6 enumeration orders vs identity, '
                          'call positional / by keyword / as method (selectors; each path one concrete family)'})
    for c1 in range(len(HIST_CALLS)):
        out.append({'name': 'call_history[first=%s]' % HIST_CALLS[c1], 'func': 'call_history', 'timeout': t,
                    'param': {'c1': c1, 'perms': (0, 5) if tier == 'quick' else (0, 1, 2, 3, 4, 5)},
                    'bounds': '3 real overloads (two with signatures chosen among 5, one among 2: typed int/object/str, optional second parameter) in '
                              'one layer, 2 (thorough: all 6) enumeration orders; the call %s, then one of %d calls through the same context vs the '
                              'same call on a freshly built family (selectors; each path one concrete history)'
                              % (HIST_CALLS[c1], len(HIST_CALLS))})
    out.append({'name': 'multi_order', 'func': 'multi_order', 'timeout': t,
                'bounds': 'MultiContext([A,B]) vs ([B,A]) and both registration orders: overloads typed int/object/str, symbolic '
                          'exclusive flags and function/method/extension kinds; one callable registered as function and as method'})
    for layers in ([0, 0, 0], [0, 0, 1], [0, 1, 1], [0, 1, 2]):
        out.append({'name': 'registration_order[layers=%s]' % ''.join(map(str, layers)), 'func': 'registration_order',
                    'timeout': t, 'param': {'layers': layers},
                    'bounds': '3 real overloads (int- or str-typed, symbolic) in real contexts (layers %s), symbolic exclusive '
                              'flag per registration, all 6 registration orders vs identity, call f(1) with/without receiver' % layers})
    for p in ([3] if tier == 'quick' else [1, 2, 3, 4, 5]):
        out.append({'name': 'order_2pos[perm=%d]' % p, 'func': 'order_2pos', 'timeout': 2 * t, 'param': {'perm': p},
                    'bounds': '3 matching candidates in one layer, 2 argument positions with independent symbolic strict '
                              'partial orders, enumeration order %s vs identity' % X.PERMS3[p]})
    return out


def replay(cond, args):
    a = dict(args)
    if cond['func'] == 'call_history':
        ok = call_history(**a)
        return {'reproduced': not ok, 'key': 'C06/call-history',
                'what': 'three real overloads of f with parameters %r enumerated in order %s: %s followed by %s through the same '
                        'context does not give what the same call gives on a freshly built family'
                        % ([[(t.__name__, 'optional' if d is not None else 'required') for t, d in HIST_SIGS[a[k]]]
                            for k in ('s0', 's1', 's2')], X.PERMS3[a['p']], HIST_CALLS[a['c1']], HIST_CALLS[a['c2']])}
    if cond['func'] in ('real_order', 'multi_order'):
        import props.c06 as me
        ok = getattr(me, cond['func'])(**a)
        return {'reproduced': not ok, 'key': 'C06/%s' % cond['func'],
                'what': '%s: real overloads %r give different layers/outcomes under a different enumeration, member or '
                        'registration order' % (cond['func'], a)}
    if cond['func'] == 'registration_order':
        ok = registration_order(**a)
        return {'reproduced': not ok, 'key': 'C06/registration-order',
                'what': 'three overloads of f in context layers %s with exclusive flags %s registered in order %s vs %s: '
                        'collect_functions / the outcome of f(1) differ' % (LAYERS, [a['e0'], a['e1'], a['e2']],
                                                                           X.PERMS3[a['p']], X.PERMS3[0])}
    if cond['func'] == 'order_2pos':
        S = [X.mat3(a['a01'], a['a02'], a['a10'], a['a12'], a['a20'], a['a21']),
             X.mat3(a['b01'], a['b02'], a['b10'], a['b12'], a['b20'], a['b21'])]
        fam = (3, 2, S, [True, True, True], [True, True, a['d2']], [[False, False]] * 3, [False] * 3, [0, 0, 0])
        o1, _ = X.run(*fam, X.PERMS3[a['p']], False)
        o2, _ = X.run(*fam, X.PERMS3[0], False)
        if o1 == o2:
            return {'reproduced': False, 'note': 'stub level agrees on CPython'}
        c1, desc = X.build_real(*fam, X.PERMS3[a['p']], False)
        c2, _ = X.build_real(*fam, X.PERMS3[0], False)
        r1, r2 = c1(), c2()
        return {'reproduced': r1 != r2, 'key': 'C06/winner-depends-on-enumeration-order',
                'what': 'overloads %s: enumeration order %s gives %r, order %s gives %r' % (
                    '; '.join(desc), X.PERMS3[a['p']], r1, X.PERMS3[0], r2)}
    recv = a['recv']
    p = a.pop('p')
    for k in ('s01', 's02', 's10', 's12', 's20', 's21', 'z0', 'z1', 'z2', 'k0', 'k1', 'k2'):
        a.setdefault(k, False)
    fam = fam1(**a)
    a['p'] = p
    kw = bool((cond.get('param') or {}).get('kwcall'))
    # 1. stubs on plain CPython
    o1, _ = X.run(*fam, X.PERMS3[a['p']], recv, kw)
    o2, _ = X.run(*fam, X.PERMS3[0], recv, kw)
    if o1 == o2:
        return {'reproduced': False, 'note': 'stub level agrees on CPython'}
    # 2. real overloads through the real engine under both orders
    c1, desc = X.build_real(*fam, X.PERMS3[a['p']], recv, kw)
    c2, _ = X.build_real(*fam, X.PERMS3[0], recv, kw)
    r1, r2 = c1(), c2()
    if r1 == r2:
        return {'reproduced': False, 'note': 'real overloads agree: %r' % (r1,), 'family': desc}
    return {'reproduced': True, 'key': 'C06/winner-depends-on-enumeration-order',
            'what': 'overloads %s%s: enumeration order %s gives %r, order %s gives %r' % (
                '; '.join(desc), ' called with a keyword argument' if kw else '', X.PERMS3[a['p']], r1, X.PERMS3[0], r2)}
