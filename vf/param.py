"""Per-condition parameters, set by vf.worker before the harness module is imported."""
import collections
P = {}                      # condition parameters (shard bounds, function name, twin flag, exclusions ...)
COUNTS = collections.Counter()   # bookkeeping written by harness helpers (outside the tracer)
