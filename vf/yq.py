"""Shared access to the real yaql engine for harnesses (imports /repo's working tree)."""
import warnings
warnings.filterwarnings('ignore')
import yaql
from yaql.language import exceptions as yexc
from yaql.language import utils as yutils

try:
    from crosshair.tracers import NoTracing
except Exception:
    import contextlib
    NoTracing = contextlib.nullcontext

FACTORY = yaql.YaqlFactory()
ENG = FACTORY.create()                     # library-default options
ENG_RAW = FACTORY.create(options={'yaql.convertOutputData': False})
ROOT = yaql.create_context()
_STMTS = {}


def stmt(text, eng=None):
    """parse (concretely, outside the tracer) and cache"""
    eng = eng or ENG
    key = (id(eng), text)
    s = _STMTS.get(key)
    if s is None:
        with NoTracing():
            s = eng(text)
        _STMTS[key] = s
    return s


def ev(text, data=yutils.NO_VALUE, eng=None, ctx=None, **variables):
    c = (ctx or ROOT).create_child_context()
    for k, v in variables.items():
        c[k] = v
    return stmt(text, eng).evaluate(data=data, context=c)


def outcome(text, data=yutils.NO_VALUE, eng=None, ctx=None, **variables):
    """('ok', value) | ('nomatch',) | ('err', ExceptionClassName)"""
    try:
        return ('ok', ev(text, data, eng, ctx, **variables))
    except yexc.NoMatchingFunctionException:
        return ('nomatch',)
    except yexc.NoMatchingMethodException:
        return ('nomatch',)
    except Exception as e:
        return ('err', type(e).__name__)


def same(x, y):
    """equality that also accepts NaN == NaN and insists on equal types for scalars"""
    if type(x) is not type(y):
        # symbolic proxies: compare python-level kinds
        if isinstance(x, bool) != isinstance(y, bool):
            return False
        if isinstance(x, float) != isinstance(y, float):
            return False
    if x == y:
        return True
    if isinstance(x, float) and isinstance(y, float) and x != x and y != y:
        return True
    return False
