#!/bin/bash
# usage: vf/rerun_seeded_demo.sh <seeded-dir-name>   e.g. C01-m1
# Re-runs a seeded change's demonstration in a throw-away git worktree of /repo (outside /repo and /verif): the demo must
# pass on the unchanged tree and fail with the patch applied; the unedited test suite must pass with the patch.
S=/verif/seeded/$1
[ -f "$S/patch.diff" ] || { echo "no such seeded change: $1"; exit 2; }
D=$(mktemp -d /tmp/vfseed.XXXXXX)
git -C /repo worktree add -q --detach "$D/wt" HEAD || exit 2
mkdir -p "$D/wt/mutants"; cp "$S/demo.py" "$D/wt/mutants/demo.py"
cd "$D/wt"
timeout 300 /venv/bin/python mutants/demo.py >/dev/null 2>&1; CLEAN=$?
git apply "$S/patch.diff" || { echo "patch does not apply to the current tree"; git -C /repo worktree remove --force "$D/wt"; rm -rf "$D"; exit 2; }
timeout 300 /venv/bin/python mutants/demo.py >/dev/null 2>&1; MUT=$?
T=$(/venv/bin/python -m pytest -q -p no:cacheprovider yaql 2>&1 | tail -1)
cd /; git -C /repo worktree remove --force "$D/wt"; rm -rf "$D"
echo "$1: demo on unchanged tree rc=$CLEAN, with the change rc=$MUT, suite with the change: $T"
[ $CLEAN -eq 0 ] && [ $MUT -ne 0 ]
