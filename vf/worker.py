"""Run ONE CrossHair condition in this process and print a JSON verdict on the last stdout line.

argv[1] = JSON {module, func, timeout, per_path_timeout?, param}
"""
import collections
import importlib
import json
import os
import sys
import time
import warnings

warnings.filterwarnings('ignore')


def main():
    spec = json.loads(sys.argv[1])
    from vf import param
    param.P = spec.get('param') or {}
    sys.setrecursionlimit(20000)
    t0 = time.time()
    c0 = time.process_time()
    out = {'name': spec.get('name'), 'module': spec['module'], 'func': spec['func']}
    try:
        mod = importlib.import_module(spec['module'])
        fn = getattr(mod, spec['func'])
        import inspect
        out['sig'] = list(inspect.signature(fn).parameters)
        from crosshair.core_and_libs import analyze_function, run_checkables
        from crosshair.options import AnalysisOptionSet, AnalysisKind
        from crosshair.statespace import MessageType
        stats = collections.Counter()
        kw = dict(per_condition_timeout=float(spec['timeout']), report_all=True,
                  analysis_kind=[AnalysisKind.PEP316])
        if spec.get('per_path_timeout'):
            kw['per_path_timeout'] = float(spec['per_path_timeout'])
        opts = AnalysisOptionSet(**kw)
        setup_s = time.time() - t0
        checkables = analyze_function(fn, opts)
        if not checkables:
            raise RuntimeError('no checkable condition on %s.%s' % (spec['module'], spec['func']))
        for c in checkables:
            c.options.stats = stats
        msgs = run_checkables(checkables)
        out['messages'] = [{'state': m.state.value, 'message': m.message, 'line': m.line,
                            'traceback': (m.traceback or '')[-1500:]} for m in msgs]
        states = [m.state for m in msgs]
        bad = [m for m in msgs if m.state in (MessageType.POST_FAIL, MessageType.EXEC_ERR, MessageType.POST_ERR)]
        if bad:
            out['status'] = 'refuted'
            out['cex_message'] = bad[0].message
            out['cex_state'] = bad[0].state.value
        elif any(s == MessageType.PRE_UNSAT for s in states):
            out['status'] = 'pre_unsat'
        elif any(s in (MessageType.SYNTAX_ERR, MessageType.IMPORT_ERR) for s in states):
            out['status'] = 'error'
        elif states and all(s == MessageType.CONFIRMED for s in states):
            out['status'] = 'confirmed'
        else:
            out['status'] = 'unknown'
        out['paths'] = stats.get('num_paths', 0)
        out['counts'] = dict(param.COUNTS)
        out['setup_s'] = round(setup_s, 2)
    except BaseException as e:  # tool crash -> harness error, never a verdict
        import traceback
        out['status'] = 'error'
        out['error'] = '%s: %s' % (type(e).__name__, e)
        out['trace'] = traceback.format_exc()[-3000:]
    out['wall_s'] = round(time.time() - t0, 2)
    out['cpu_s'] = round(time.process_time() - c0, 2)
    sys.stdout.write('\n@@VF ' + json.dumps(out) + '\n')
    sys.stdout.flush()
    os._exit(0)


if __name__ == '__main__':
    main()
