"""copy seeded/detected.json verdicts into every seeded/<dir>/meta.json (detected_by / caught / initially_missed)"""
import json
import os
ROOT = os.path.dirname(os.path.dirname(os.path.abspath(__file__)))
det = json.load(open(os.path.join(ROOT, 'seeded', 'detected.json')))
for name in sorted(os.listdir(os.path.join(ROOT, 'seeded'))):
    mp = os.path.join(ROOT, 'seeded', name, 'meta.json')
    if not os.path.exists(mp):
        continue
    m = json.load(open(mp))
    d = det.get(name)
    if d:
        m['caught'] = d.get('caught')
        m['detected_by'] = d.get('by')
        for k in ('initially_missed', 'note'):
            if d.get(k):
                m[k] = d[k]
    m['how_checked'] = 'vf/mutest.sh %s seeded/%s/patch.diff (the quick check run against a copy of /repo/yaql with the patch applied)' % (m['property'], name)
    json.dump(m, open(mp, 'w'), indent=1)
    print(name, m.get('caught'))
