#!/bin/bash
# usage: vf/mutbatch.sh <seeded-dir-name>...   -- run each property's quick check against each seeded mutant (mutated COPY of yaql)
cd /verif
for S in "$@"; do
  ID=${S%%-*}
  OUT=$(vf/mutest.sh $ID seeded/$S/patch.diff 2>&1)
  RC=$(echo "$OUT" | grep -o 'mutest rc=[0-9]*' | tail -1)
  V=$(echo "$OUT" | grep -c '^VIOLATION')
  SUM=$(echo "$OUT" | grep "tier=quick" | tail -1)
  echo "$S $RC violations=$V :: $SUM" >> seeded/results.txt
  echo "$OUT" | grep -A1 '^VIOLATION' | head -4 >> seeded/results.txt
done
