"""Helpers used *inside* harness functions (executed under CrossHair's tracer)."""
from vf import param

try:
    from crosshair.tracers import NoTracing
    from crosshair.core import deep_realize
except Exception:  # replay runs without crosshair on the path of interest
    import contextlib
    NoTracing = contextlib.nullcontext

    def deep_realize(x):
        return x


def P(key, default=None):
    return param.P.get(key, default)


def done(ok):
    """Every harness ends with `return H.done(ok)`.

    Normal mode: returns ok (postcondition `post: _`).
    Twin mode (reachability witness): returns `not ok`, so the twin is *refuted* exactly when
    some feasible path reaches the end of the harness with the assertion holding.
    """
    ok = bool(ok)
    with NoTracing():
        param.COUNTS['completed'] += 1
        if ok:
            param.COUNTS['completed_ok'] += 1
    if param.P.get('twin'):
        return not ok
    return ok


def fresh(*vals):
    """precondition conjunct: the argument tuple is not one of the excluded (non-reproducing) assignments"""
    for ex in param.P.get('exclude', ()):
        if len(ex) == len(vals) and all(type(a) is type(b) and a == b for a, b in zip(vals, ex)):
            return False
    return True


def note(key, n=1):
    with NoTracing():
        param.COUNTS[key] += n
