#!/bin/bash
# all 20 quick checks one after the other (evidence is rewritten); log: /verif/.work/sweep.log
cd /verif
L=/verif/.work/sweep.log
: > $L
for i in $(seq -w 1 20); do ID=C$i; S=$(date +%s); OUT=$(VERIF_SEED=1 ./check $ID 2>&1); RC=$?; echo "$ID rc=$RC wall=$(( $(date +%s)-S ))s $(echo "$OUT" | grep 'tier=quick' | tail -1)" >> $L; echo "$OUT" | grep -A1 "^VIOLATION\|^TOOL-ERROR\|inconclusive:" | head -10 >> $L; done
echo ALLDONE >> $L
