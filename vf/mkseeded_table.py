"""print the markdown table of seeded changes (DESIGN.md 11.4) from seeded/*/meta.json + seeded/detected.json"""
import json
import os
ROOT = os.path.dirname(os.path.dirname(os.path.abspath(__file__)))
rows = []
for name in sorted(os.listdir(os.path.join(ROOT, 'seeded'))):
    mp = os.path.join(ROOT, 'seeded', name, 'meta.json')
    if not os.path.exists(mp):
        continue
    m = json.load(open(mp))
    notes = ' '.join(m.get('needs_to_manifest', '').split())
    first = notes.split('. ')[0][:230]
    caught = m.get('caught')
    verdict = 'caught' if caught else ('MISSED' if caught is False else 'not run yet')
    by = (m.get('detected_by') or m.get('note') or '')[:200]
    extra = (' (first missed: ' + m['initially_missed'][:160] + ')') if m.get('initially_missed') else ''
    rows.append('| %s | %s | %s | %s%s |' % (name, first.replace('|', '/'), verdict, by.replace('|', '/'), extra.replace('|', '/')))
print('| seeded change | what it does | verdict | condition that refutes it |')
print('|---|---|---|---|')
print('\n'.join(rows))
