"""Re-run one counterexample on the real code in a plain CPython process (no tracer).

argv[1] = JSON {id, cond:{name, func, param}, args}.  Prints '@@VF <json>' with at least
{reproduced: bool, key: str, what: str}.
"""
import importlib
import json
import sys
import warnings

warnings.filterwarnings('ignore')


def main():
    spec = json.loads(sys.argv[1])
    from vf import param
    param.P = dict((spec['cond'].get('param') or {}))
    param.P.pop('twin', None)
    param.P['replaying'] = True
    try:
        mod = importlib.import_module('props.' + spec['id'].lower())
        if spec['cond'].get('func') == '__lemma__' and hasattr(mod, 'lemmas') and not getattr(mod, 'REPLAYS_LEMMAS', False):
            # a violation reported by a direct z3/witness lemma: re-run the lemmas and look the entry up by name
            res = {'reproduced': False, 'note': 'lemma %s no longer reports a violation' % spec['cond'].get('name')}
            for lr in mod.lemmas('quick'):
                if lr.get('name') == spec['cond'].get('name') and lr.get('violation'):
                    res = dict(lr['violation'], reproduced=True)
        else:
            res = mod.replay(spec['cond'], spec['args'])
    except BaseException as e:
        import traceback
        res = {'reproduced': False, 'error': 'replay crashed: %s: %s' % (type(e).__name__, e),
               'trace': traceback.format_exc()[-2000:]}
    sys.stdout.write('\n@@VF ' + json.dumps(res, default=str) + '\n')


if __name__ == '__main__':
    main()
