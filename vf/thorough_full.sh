#!/bin/bash
# end-to-end thorough tiers of the modules changed most in round 3 (no evidence written); log: /verif/.work/thorough_full.log
cd /verif
L=/verif/.work/thorough_full.log
for ID in C08 C14 C10 C13 C01 C05 C06 C07 C12 C16 C19 C03; do S=$(date +%s); OUT=$(VERIF_SEED=1 ./check $ID --tier thorough --no-evidence 2>&1); RC=$?; echo "$ID rc=$RC wall=$(( $(date +%s)-S ))s $(echo "$OUT" | grep 'tier=thorough' | tail -1)" >> $L; echo "$OUT" | grep -A1 "^VIOLATION\|^TOOL-ERROR\|inconclusive:" | head -14 >> $L; done
echo ALLDONE >> $L
