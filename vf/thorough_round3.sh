#!/bin/bash
# run the thorough-tier versions of the conditions added in rounds 2/3 (and the small thorough tiers in full)
cd /verif
L=/verif/.work/thorough_new.log
run() { ID=$1; shift; S=$(date +%s); OUT=$(./check $ID --tier thorough --no-evidence "$@" 2>&1); RC=$?; echo "$ID $* rc=$RC wall=$(( $(date +%s)-S ))s $(echo "$OUT" | grep 'tier=thorough' | tail -1)" >> $L; echo "$OUT" | grep -A1 "^VIOLATION\|^TOOL-ERROR\|inconclusive:" | head -12 >> $L; }
run C14 --only seqsrc
run C14 --only "entry["
run C14 --only sparse_bounded
run C14 --only nopred
run C14 --only ".default"
run C10 --only option_
run C10 --only bare_history
run C08 --only limit_l
run C08 --only quota_flow
run C08 --only "growth_chain[int"
run C01 --only "via="
run C01 --only schedules
run C13 --only mergeWith.levels
run C13 --only persistent
run C13 --only law_reuse
run C13 --only sliceWhere
run C12 --only kwargs_names
run C12 --only operator_call
run C04 --only binder_names
run C04 --only custom_context
run C09 --only "interface["
run C09 --only fixed-empty
run C09 --only ".add("
run C11 --only "generate."
run C05 --only kind_registration
run C05 --only alias_kw
run C06 --only call_history
run C07 --only no-indexer
run C16 --only non-NFC
run C20
run C18
run C15
echo ALLDONE >> $L
