"""print the per-property summary table (DESIGN.md 11.5) from the evidence files of the last runs"""
import json
import os
ROOT = os.path.dirname(os.path.dirname(os.path.abspath(__file__)))
print('| property | tier | obligations discharged | symbolic paths (completed, assertion proved) | solver cpu s | wall s | known findings hit |')
print('|---|---|---|---|---|---|---|')
for n in range(1, 21):
    pid = 'C%02d' % n
    p = os.path.join(ROOT, 'evidence', pid + '.json')
    if not os.path.exists(p):
        print('| %s | - | no evidence | | | | |' % pid)
        continue
    e = json.load(open(p))
    c = e['coverage']
    print('| %s | %s | %d/%d | %d (%d) | %.0f | %.0f | %s |' % (
        pid, e['tier'], c.get('discharged', 0), c.get('obligations', 0), c.get('evaluations', 0),
        c.get('paths_completed_assertion_true', 0), c.get('solver_cpu_s', 0), e.get('wall_s', 0),
        ', '.join(c.get('known_findings_hit', [])) or '-'))
