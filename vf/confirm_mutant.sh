#!/bin/bash
# usage: vf/confirm_mutant.sh <ID> <k>  -- confirm a sub-agent's mutant in its scratch worktree /tmp/wt/<ID>, then file it under /verif/seeded/
ID=$1; K=$2; W=/tmp/wt/$ID; M=$W/mutants
cd $W || exit 2
git checkout -q -- yaql
git apply $M/m$K.diff || { echo "$ID m$K: patch does not apply"; exit 2; }
T=$(/venv/bin/python -m pytest -q -p no:cacheprovider yaql 2>&1 | tail -1)
timeout 120 /venv/bin/python $M/m${K}_demo.py >/tmp/wt/$ID.m$K.demo_mut.txt 2>&1; D1=$?
git checkout -q -- yaql
timeout 120 /venv/bin/python $M/m${K}_demo.py >/tmp/wt/$ID.m$K.demo_clean.txt 2>&1; D0=$?
echo "$ID m$K: tests='$T' demo_with_mutant_rc=$D1 demo_clean_rc=$D0"
case "$T" in *"366 passed"*) ;; *) echo "  -> REJECT (tests)"; exit 1;; esac
[ $D1 -ne 0 ] && [ $D0 -eq 0 ] || { echo "  -> REJECT (demo)"; exit 1; }
L=${3:-}; S=/verif/seeded/$ID-${L}m$K; mkdir -p $S
cp $M/m$K.diff $S/patch.diff; cp $M/m${K}_demo.py $S/demo.py; cp $M/m$K.txt $S/notes.txt
python3 - "$ID" "$K" "$T" "$L" <<'PY'
import json, sys
ID, K, T, L = sys.argv[1:5]
notes = open('/verif/seeded/%s-%sm%s/notes.txt' % (ID, L, K)).read()
json.dump({'property': ID, 'mutant': 'm' + K, 'breaks': ID, 'needs_to_manifest': notes.strip(),
           'what_i_ran': ['git apply patch.diff (scratch worktree /tmp/wt/%s)' % ID,
                          '/venv/bin/python -m pytest -q -p no:cacheprovider yaql  -> ' + T,
                          'demo.py with the change: exit != 0; demo.py on the unchanged tree: exit 0'],
           'origin': 'fresh sub-agent given only the property record and a scratch worktree',
           'detected_by': None}, open('/verif/seeded/%s-%sm%s/meta.json' % (ID, L, K), 'w'), indent=1)
PY
echo "  -> kept as $S"
