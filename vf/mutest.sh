#!/bin/bash
# usage: vf/mutest.sh <ID> <patch.diff> [extra ./check args]   -- run a check against a mutated COPY of yaql (never /repo)
set -e
ID=$1; DIFF=$(readlink -f "$2"); shift 2
D=$(mktemp -d /tmp/vfmut.XXXXXX)
cp -r /repo/yaql "$D/yaql"
(cd "$D" && patch -s -p1 < "$DIFF")
cd /verif
set +e
VF_EXTRA_PATH="$D" PYTHONPATH="$D:/verif" PYTHONWARNINGS=ignore PYTHONDONTWRITEBYTECODE=1 .venv/bin/python -m vf.driver "$ID" --no-evidence "$@"
RC=$?
rm -rf "$D"
echo "mutest rc=$RC"
exit $RC
