"""Entry point of every check:  python -m vf.driver <ID> [--tier quick|thorough] [--replay PATH]

Runs the conditions of props/<id>.py under CrossHair (one OS process per condition, in parallel),
replays every counterexample on the real code in a fresh plain-Python process, classifies reproduced
counterexamples against /verif/known_findings.json, writes /verif/evidence/<ID>.json and exits

  0  nothing explored violates the property (KNOWN-FINDING lines are printed for listed findings)
  1  after printing  VIOLATION property=<ID> replay=<path>  for a reproduced, unlisted violation
  3  harness error (reference-model validation failed, tool crash) -- never used to hide a violation
"""
import argparse
import ast
import concurrent.futures as cf
import hashlib
import importlib
import json
import os
import subprocess
import sys
import time

ROOT = os.path.dirname(os.path.dirname(os.path.abspath(__file__)))
PY = os.path.join(ROOT, '.venv', 'bin', 'python')
ENV = dict(os.environ, PYTHONPATH=(os.environ['VF_EXTRA_PATH'] + ':' if os.environ.get('VF_EXTRA_PATH') else '') + ROOT, PYTHONWARNINGS='ignore', PYTHONDONTWRITEBYTECODE='1',
           PYTHONHASHSEED='0')


def load_known(pid):
    path = os.path.join(ROOT, 'known_findings.json')
    if not os.path.exists(path):
        return []
    with open(path) as f:
        data = json.load(f)
    found = [e for e in data.get('findings', []) if e['property'] == pid]
    extra = os.path.join(ROOT, 'props', pid.lower() + '_known.json')   # staging file while a module is being built
    if os.path.exists(extra):
        with open(extra) as f:
            found += [e for e in json.load(f).get('findings', []) if e['property'] == pid]
    return found


def parse_call(message):
    """'... when calling f(a=1, b='x') (which returns False)' -> {'a': 1, 'b': 'x'}"""
    if 'when calling ' not in message:
        return None
    s = message.split('when calling ', 1)[1]
    for cut in (' (which returns ', ' with crosshair.patch_to_return'):
        if cut in s:
            s = s.rsplit(cut, 1)[0]
    s = s.strip()
    ns = {'float': float, 'nan': float('nan'), 'inf': float('inf'), '__builtins__': {}}
    # the call text may be followed by junk; find the shortest prefix that parses as a call
    for end in range(len(s), 0, -1):
        if s[end - 1] != ')':
            continue
        try:
            node = ast.parse(s[:end], mode='eval').body
        except SyntaxError:
            continue
        if not isinstance(node, ast.Call):
            continue
        try:
            args = {}
            for i, a in enumerate(node.args):
                args['#%d' % i] = eval(compile(ast.Expression(a), '<cex>', 'eval'), ns)
            for kw in node.keywords:
                args[kw.arg] = eval(compile(ast.Expression(kw.value), '<cex>', 'eval'), ns)
            return args
        except Exception:
            return None
    return None


def run_worker(spec):
    wall = float(spec['timeout']) * 6.0 + 180     # generous: cpu-time budgets are enforced by CrossHair itself
    t0 = time.time()
    try:
        p = subprocess.run([PY, '-m', 'vf.worker', json.dumps(spec)], cwd=ROOT, env=ENV,
                           stdout=subprocess.PIPE, stderr=subprocess.PIPE, timeout=wall, text=True)
        for line in reversed(p.stdout.splitlines()):
            if line.startswith('@@VF '):
                r = json.loads(line[5:])
                break
        else:
            r = {'status': 'error', 'error': 'no verdict line; rc=%s' % p.returncode,
                 'trace': (p.stderr or '')[-2000:]}
    except subprocess.TimeoutExpired:
        r = {'status': 'unknown', 'error': 'wall timeout %.0fs' % wall}
    r['name'] = spec['name']
    r.setdefault('wall_s', round(time.time() - t0, 2))
    return r


def run_replay(pid, cond, args, timeout=300):
    payload = json.dumps({'id': pid, 'cond': cond, 'args': args})
    try:
        p = subprocess.run([PY, '-m', 'vf.replay', payload], cwd=ROOT, env=ENV, stdout=subprocess.PIPE,
                           stderr=subprocess.PIPE, timeout=timeout, text=True)
    except subprocess.TimeoutExpired:
        return {'reproduced': False, 'error': 'replay timeout'}
    for line in reversed(p.stdout.splitlines()):
        if line.startswith('@@VF '):
            return json.loads(line[5:])
    return {'reproduced': False, 'error': 'replay crashed: ' + (p.stderr or '')[-1500:]}


def save_replay(pid, cond, args, result):
    d = os.path.join(ROOT, 'replays', pid)
    os.makedirs(d, exist_ok=True)
    rec = {'id': pid, 'cond': cond, 'args': args, 'result': result}
    blob = json.dumps(rec, sort_keys=True, default=str)
    path = os.path.join(d, hashlib.sha1(blob.encode()).hexdigest()[:12] + '.json')
    with open(path, 'w') as f:
        f.write(json.dumps(rec, indent=1, default=str))
    return path


def main():
    ap = argparse.ArgumentParser()
    ap.add_argument('id')
    ap.add_argument('--tier', default=os.environ.get('VERIF_TIER', 'quick'))
    ap.add_argument('--replay')
    ap.add_argument('--only', help='substring filter on condition names (debugging)')
    ap.add_argument('--jobs', type=int, default=int(os.environ.get('VERIF_JOBS', '16')))
    ap.add_argument('--no-evidence', action='store_true')
    a = ap.parse_args()
    pid = a.id.upper()
    seed = int(os.environ.get('VERIF_SEED', '0') or 0)
    from vf import param
    param.P = {'known': sorted(e['key'] for e in load_known(pid) if e['status'] == 'known'), 'driver': True}
    mod = importlib.import_module('props.' + pid.lower())

    if a.replay:
        with open(a.replay) as f:
            rec = json.load(f)
        res = run_replay(pid, rec['cond'], rec['args'])
        print(json.dumps(res, indent=1, default=str))
        if res.get('reproduced'):
            print('VIOLATION property=%s replay=%s' % (pid, a.replay))
            sys.exit(1)
        sys.exit(0)

    t_start = time.time()
    known = load_known(pid)
    known_keys = sorted(e['key'] for e in known if e['status'] == 'known')
    problems = []
    lemma_results = []
    violations = []          # (path, what)
    known_hits = {}          # key -> what
    inconclusive = []

    # 1. reference models / shims validated against the real code on concrete inputs
    if hasattr(mod, 'validate'):
        try:
            problems = list(mod.validate() or [])
        except Exception as e:  # pragma: no cover
            import traceback
            problems = ['validate() crashed: %s\n%s' % (e, traceback.format_exc()[-1500:])]
    # 2. conditions
    conds = mod.conditions(a.tier, seed)
    specs = []
    for c in conds:
        if a.only and a.only not in c['name']:
            continue
        param = dict(c.get('param') or {})
        param['known'] = known_keys
        base = {'name': c['name'], 'module': 'props.' + pid.lower(), 'func': c['func'],
                'timeout': c.get('timeout', 60), 'param': param, 'kind': c.get('kind', 'main'),
                'bounds': c.get('bounds', ''), 'per_path_timeout': c.get('per_path_timeout')}
        specs.append(base)
        if c.get('twin', True) and c.get('kind', 'main') == 'main':
            tw = dict(base, name=c['name'] + '#twin', kind='twin', timeout=min(60, base['timeout']),
                      param=dict(param, twin=True))
            specs.append(tw)
    class Results(dict):
        """per-condition verdicts; every verdict is also appended to .work/<ID>.<tier>.progress.jsonl as it arrives so that
        a long run can be followed (and salvaged) from outside"""
        def __setitem__(self, k, v):
            dict.__setitem__(self, k, v)
            try:
                os.makedirs(os.path.join(ROOT, '.work'), exist_ok=True)
                with open(os.path.join(ROOT, '.work', '%s.%s.progress.jsonl' % (pid, a.tier)), 'a') as pf:
                    pf.write(json.dumps({'name': k, 'status': v.get('status'), 'paths': v.get('paths'),
                                         'cpu_s': v.get('cpu_s'), 'cex': v.get('cex_args')}, default=str) + '\n')
            except OSError:
                pass
    results = Results()
    try:
        os.remove(os.path.join(ROOT, '.work', '%s.%s.progress.jsonl' % (pid, a.tier)))
    except OSError:
        pass
    by_name = {s['name']: s for s in specs}
    retries = {}
    with cf.ThreadPoolExecutor(max_workers=a.jobs) as pool:
        pending = {pool.submit(run_worker, s): s for s in specs}
        while pending:
            donef, _ = cf.wait(list(pending), return_when=cf.FIRST_COMPLETED)
            for fut in donef:
                s = pending.pop(fut)
                r = fut.result()
                r['kind'] = s['kind']
                r['bounds'] = s['bounds']
                name = s['name']
                if s['kind'] == 'twin' or r['status'] != 'refuted':
                    results[name] = r
                    continue
                # counterexample: replay on the real code, outside the symbolic engine
                args = parse_call(r.get('cex_message', ''))
                if args is not None and r.get('sig'):
                    args = {(r['sig'][int(k[1:])] if k.startswith('#') else k): v for k, v in args.items()}
                    args = {k: args[k] for k in r['sig'] if k in args}
                r['cex_args'] = args
                rep = run_replay(pid, {'name': name, 'func': s['func'], 'param': s['param']}, args) \
                    if args is not None else {'reproduced': False, 'error': 'unparsable counterexample'}
                r['replay'] = rep
                if rep.get('error') and not rep.get('reproduced'):
                    # a crashed replay decides nothing: harness error, never silently dropped
                    r['status'] = 'error'
                    r['error'] = 'replay failed: ' + str(rep.get('error'))[:600]
                    results[name] = r
                    continue
                if rep.get('reproduced'):
                    key = rep.get('key', '?')
                    if key in known_keys or (s['kind'] == 'probe' and key == s['param'].get('probe_key')):
                        known_hits[key] = rep.get('what', '')
                        r['status'] = 'known-finding'
                        if s['kind'] != 'probe' and retries.get(name, 0) < 4:
                            # the listed finding hid the rest of this condition: exclude it and go on
                            retries[name] = retries.get(name, 0) + 1
                            s2 = dict(s, param=dict(s['param']))
                            s2['param']['exclude'] = list(s['param'].get('exclude', [])) + [list(args.values())]
                            pending[pool.submit(run_worker, s2)] = s2
                            continue
                    else:
                        path = save_replay(pid, {'name': name, 'func': s['func'], 'param': s['param']}, args, rep)
                        violations.append((path, rep.get('what', '')))
                        r['status'] = 'violation'
                        r['replay_path'] = path
                    results[name] = r
                else:
                    # spurious (encoding / tool model): exclude this assignment and re-run, a few times
                    if args is not None and retries.get(name, 0) < 4:
                        retries[name] = retries.get(name, 0) + 1
                        s2 = dict(s, param=dict(s['param']))
                        s2['param']['exclude'] = list(s['param'].get('exclude', [])) + [list(args.values())]
                        pending[pool.submit(run_worker, s2)] = s2
                        continue
                    r['status'] = 'spurious'
                    results[name] = r
    # 3. z3 lemmas / witness generation (E2), run in-process
    if hasattr(mod, 'lemmas'):
        try:
            for lr in mod.lemmas(a.tier):
                lemma_results.append(lr)
                if lr.get('violation'):
                    rep = lr['violation']
                    key = rep.get('key', '?')
                    if key in known_keys:
                        known_hits[key] = rep.get('what', '')
                    else:
                        path = save_replay(pid, {'name': lr['name'], 'func': '__lemma__', 'param': {}},
                                           rep.get('args', {}), rep)
                        violations.append((path, rep.get('what', '')))
        except Exception as e:
            import traceback
            problems.append('lemmas() crashed: %s\n%s' % (e, traceback.format_exc()[-1500:]))

    # ---- verdict bookkeeping
    mains = [r for r in results.values() if r['kind'] in ('main', 'probe')]
    twins = {n[:-5]: r for n, r in results.items() if r['kind'] == 'twin'}
    n_oblig = n_disch = 0
    errors = []
    for name, r in sorted(results.items()):
        if r['kind'] == 'twin':
            continue
        if r['kind'] == 'probe':
            # probe of a listed finding: refuted+reproduced is the expected outcome
            continue
        n_oblig += 1
        tw = twins.get(name)
        vacuous = tw is not None and tw['status'] == 'confirmed'
        if r['status'] == 'confirmed' and not vacuous:
            n_disch += 1
        elif r['status'] == 'confirmed' and vacuous:
            inconclusive.append('%s: vacuous (reachability twin not violated)' % name)
        elif r['status'] in ('unknown', 'pre_unsat', 'spurious', 'known-finding'):
            inconclusive.append('%s: %s %s' % (name, r['status'], r.get('error', '')))
        elif r['status'] == 'error':
            errors.append('%s: %s' % (name, r.get('error', '')))
            inconclusive.append('%s: tool error' % name)
    for name, r in results.items():
        if r['kind'] == 'twin' and r['status'] == 'error':
            errors.append('%s: %s' % (name, r.get('error', '')))
    for lr in lemma_results:
        n_oblig += 1
        if lr.get('ok'):
            n_disch += 1
        elif not lr.get('violation'):
            inconclusive.append('lemma %s: %s' % (lr['name'], lr.get('result')))

    paths = sum(r.get('paths', 0) for r in results.values())
    completed = sum((r.get('counts') or {}).get('completed', 0) for r in mains)
    completed_ok = sum((r.get('counts') or {}).get('completed_ok', 0) for r in mains)
    cpu = sum(r.get('cpu_s', 0) for r in results.values())
    wall = time.time() - t_start

    for e in known:
        if e['status'] == 'known':
            if e['key'] in known_hits:
                print('KNOWN-FINDING: property=%s %s' % (pid, e['what']))
            else:
                print('note: listed finding %s did not manifest in this run' % e['key'])
    for path, what in violations:
        print('VIOLATION property=%s replay=%s' % (pid, path))
        print('  ' + what)
    for p in problems:
        print('HARNESS-ERROR: ' + p)
    for e in errors:
        print('TOOL-ERROR: ' + e)

    samples = []
    for name, r in sorted(results.items()):
        if len(samples) >= 12:
            break
        if r['kind'] == 'twin':
            continue
        samples.append({'condition': name, 'bounds': r.get('bounds'), 'verdict': r['status'],
                        'paths': r.get('paths'), 'cpu_s': r.get('cpu_s'),
                        'counterexample': r.get('cex_args')})
    for lr in lemma_results[:6]:
        samples.append({'lemma': lr['name'], 'query': lr.get('query'), 'result': lr.get('result'),
                        'witness': lr.get('witness'), 'time_s': lr.get('time_s')})
    ev = {
        'property_id': pid, 'tier': a.tier if a.tier in ('quick', 'thorough') else 'quick', 'seed': seed,
        'level': 'model_checking',
        'coverage': {
            'evaluations': max(paths + len(lemma_results), 1),
            'distinct_nontrivial': completed_ok + sum(1 for lr in lemma_results if lr.get('ok')),
            'rule': 'one evaluation = one feasible symbolic path of the real code explored by CrossHair/z3 under the '
                    'stated bounds (each stands for all concrete inputs taking that path) or one direct z3 query; '
                    'non-trivial = the path passed the precondition, ran the real code to the end of the harness and '
                    'the solver proved the assertion for every value on it (counted by the harness, distinct by '
                    'construction of the path tree)',
            'samples': samples or [{'note': 'no condition ran'}],
            'obligations': n_oblig, 'discharged': n_disch,
            'conditions': {n: {'verdict': r['status'], 'paths': r.get('paths'), 'cpu_s': r.get('cpu_s'),
                               'bounds': r.get('bounds'),
                               'twin': (twins.get(n) or {}).get('status')}
                           for n, r in sorted(results.items()) if r['kind'] != 'twin'},
            'lemmas': lemma_results,
            'paths_completed': completed, 'paths_completed_assertion_true': completed_ok,
            'functions_encoded': getattr(mod, 'FUNCTIONS_ENCODED', []),
            'bounds': (getattr(mod, 'BOUNDS', {}) or {}).get(a.tier, getattr(mod, 'BOUNDS', {})),
            'outside_claim': getattr(mod, 'OUTSIDE', []),
            'solver_cpu_s': round(cpu, 1),
            'inconclusive': inconclusive,
            'known_findings_hit': sorted(known_hits),
            'explanation': getattr(mod, 'EXPLANATION', ''),
            'trusted_base': ['CrossHair 0.0.110 symbolic models of int/str/list/dict', 'z3 5.1.0', 'CPython 3.12',
                             'replay of every counterexample on the real code'],
            'exhaustive': False,
        },
        'assumptions': getattr(mod, 'ASSUMPTIONS', []),
        'wall_s': round(wall, 1),
        'violations': len(violations),
    }
    if not a.no_evidence and not a.only:
        os.makedirs(os.path.join(ROOT, 'evidence'), exist_ok=True)
        with open(os.path.join(ROOT, 'evidence', pid + '.json'), 'w') as f:
            json.dump(ev, f, indent=1, default=str)
    print('%s tier=%s: %d/%d obligations discharged, %d paths (%d completed, assertion true), %d inconclusive, '
          '%d violations, %d known findings, cpu %.0fs wall %.0fs'
          % (pid, a.tier, n_disch, n_oblig, paths, completed_ok, len(inconclusive), len(violations),
             len(known_hits), cpu, wall))
    for line in inconclusive[:40]:
        print('  inconclusive: ' + line)
    if os.environ.get('VF_VERBOSE'):
        for n, r in sorted(results.items()):
            print('  %-40s %-10s paths=%s cpu=%s %s' % (n, r['status'], r.get('paths'), r.get('cpu_s'),
                                                      r.get('cex_args') or r.get('error') or ''))
    if violations:
        sys.exit(1)
    if problems or errors:
        sys.exit(3)
    sys.exit(0)


if __name__ == '__main__':
    main()
