"""Regenerate /verif/MANIFEST.json from the property modules that exist (run by hand after adding a module)."""
import importlib
import json
import os
import sys

ROOT = os.path.dirname(os.path.dirname(os.path.abspath(__file__)))
sys.path.insert(0, ROOT)
from vf import param  # noqa
param.P = {'driver': True, 'known': []}

NA_REASONS = {}
na_path = os.path.join(ROOT, 'not_applicable.json')
if os.path.exists(na_path):
    NA_REASONS = json.load(open(na_path))

ids = [json.loads(l)['id'] for l in open(os.path.join(ROOT, 'properties.jsonl'))]
checks, na = [], []
READY = set(open(os.path.join(ROOT, 'ready.txt')).read().split())
for pid in ids:
    path = os.path.join(ROOT, 'props', pid.lower() + '.py')
    if pid in NA_REASONS or not os.path.exists(path) or pid not in READY:
        na.append({'property_id': pid, 'reason': NA_REASONS.get(pid, 'check not built yet in this round (see DESIGN.md section 7 for the planned harness)')})
        continue
    m = importlib.import_module('props.' + pid.lower())
    checks.append({
        'property_id': pid,
        'quick_cmd': './check %s --tier quick' % pid,
        'thorough_cmd': './check %s --tier thorough' % pid,
        'evidence_file': '/verif/evidence/%s.json' % pid,
        'replay_cmd_template': './check %s --replay {path}' % pid,
        'engine': 'crosshair+z3',
        'level_claimed': {'category': 'model_checking',
                          'text': getattr(m, 'LEVEL_TEXT', m.EXPLANATION),
                          'design_ref': 'DESIGN.md section 7, ' + pid},
        'level_note': getattr(m, 'LEVEL_NOTE', 'Trusted: CrossHair 0.0.110 models of builtins, z3 5.1.0, CPython; bounds and '
                              'what lies outside them are in the evidence file (coverage.bounds / outside_claim). '
                              + ' '.join(getattr(m, 'ASSUMPTIONS', []))),
        'technique': getattr(m, 'TECHNIQUE', 'bounded symbolic execution of the real code (CrossHair + z3), counterexamples replayed on CPython'),
    })
man = {
    'version': 1,
    'setup_cmd': './setup.sh',
    'hooks': {'guard': 'YAQL_VERIF', 'enable': 'no source hooks: observation points are installed from the harness process '
              '(class-level wrappers, module-global swaps); YAQL_VERIF is reserved and unused',
              'baseline_off_cmd': 'cd /repo && /venv/bin/python -m pytest -ra -q -p no:cacheprovider --timeout=900 --continue-on-collection-errors',
              'source_commits': [], 'add_only': True},
    'engines': [{'name': 'crosshair+z3', 'path': '/verif/vf', 'serves_properties': [c['property_id'] for c in checks],
                 'kind_free_text': 'CrossHair 0.0.110 symbolic execution of /repo working tree (one process per condition), '
                                   'direct z3/cvc5 SMT-LIB lemmas, concrete replay of counterexamples'}],
    'checks': checks,
    'not_applicable': na,
    'notes': 'Exit codes: 0 held / 1 VIOLATION (reproduced on real code, not listed) / 3 harness error. '
             'Known findings: /verif/known_findings.json.',
}
json.dump(man, open(os.path.join(ROOT, 'MANIFEST.json'), 'w'), indent=1)
print('checks:', [c['property_id'] for c in checks], 'na:', len(na))
