"""Direct SMT-LIB2 queries (engine E2): run on z3 and cvc5 binaries, diff the answers."""
import os
import shutil
import subprocess
import tempfile
import time


def check_smt2(text, timeout=120, solvers=('z3', 'cvc5')):
    """-> {'result': 'sat'|'unsat'|'unknown'|'disagree', 'per_solver': {...}, 'time_s': float}"""
    per = {}
    t0 = time.time()
    with tempfile.NamedTemporaryFile('w', suffix='.smt2', dir=os.environ.get('VF_TMP'), delete=False) as f:
        f.write(text)
        path = f.name
    try:
        for s in solvers:
            exe = shutil.which(s)
            if not exe:
                continue
            cmd = [exe, path] if s != 'cvc5' else [exe, '--tlimit=%d' % (timeout * 1000), path]
            if s.startswith('z3'):
                cmd = [exe, '-T:%d' % timeout, path]
            try:
                p = subprocess.run(cmd, stdout=subprocess.PIPE, stderr=subprocess.STDOUT, text=True, timeout=timeout + 10)
                out = p.stdout.strip()
            except subprocess.TimeoutExpired:
                out = 'timeout'
            if '(error' in out:
                per[s] = 'error: ' + out[:200]
            else:
                first = out.splitlines()[0].strip() if out else 'unknown'
                per[s] = first if first in ('sat', 'unsat') else 'unknown'
    finally:
        os.unlink(path)
    answers = set(v for v in per.values() if v in ('sat', 'unsat'))
    if len(answers) == 1:
        res = answers.pop()
    elif len(answers) == 2:
        res = 'disagree'
    else:
        res = 'unknown'
    return {'result': res, 'per_solver': per, 'time_s': round(time.time() - t0, 3)}
