#!/bin/bash
# Build the overlay venv used by every check: /venv's python + its site-packages + /repo on sys.path,
# plus crosshair-tool and z3-solver from the offline wheelhouse.  Idempotent; safe under concurrent calls.
set -e
cd "$(dirname "$0")"
exec 9>.setup.lock
flock 9
if [ -x .venv/bin/python ] && .venv/bin/python -c "import crosshair, z3, yaql" >/dev/null 2>&1; then
  exit 0
fi
rm -rf .venv
/venv/bin/python -m venv .venv
SP=$(echo .venv/lib/python3*/site-packages)
printf "import site; site.addsitedir('/venv/lib/python3.12/site-packages')\n/repo\n" > "$SP/_ov.pth"
PIP_NO_INDEX=1 .venv/bin/pip install -q --no-index --find-links /opt/veriftools/wheels crosshair-tool z3-solver >/dev/null
.venv/bin/python -W ignore -c "import crosshair, z3, yaql"
